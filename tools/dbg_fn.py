#!/usr/bin/env python3
"""tools/dbg_fn.py <repo> <module> <function> : normal form of a function."""
import sys, ast, os
sys.path.insert(0, os.path.dirname(os.path.dirname(os.path.abspath(__file__))))
from sa.loader import Program
prog = Program(sys.argv[1])
m = prog.mod(sys.argv[2])
for n in getattr(m, 'inline_notes', []) or []:
    print('#', n)
print(ast.unparse(m.func(sys.argv[3])))
