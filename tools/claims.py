# Executed by tools/gen_manifest.py.  One claim() per property that has a
# running check.  Texts state what exit 0 means and what it does NOT mean.

claim(
    'C09', 'proof',
    'Finite obligation set discharged exhaustively by static extraction: the '
    'decision structure of checker.matches_golden is extracted from the AST '
    'and compared with the documented rule on all 2^9 valuations of its '
    'atoms; the wiring of checker.check (options, golden records, commands, '
    'time limits, conjunction with the cross check) is extracted and compared '
    'on all valuations; golden-record provenance, option declarations, the '
    '--unchecked short cut and the argv shape are structural obligations. '
    'This is the right level because the acceptance decision is a loop-free '
    'Boolean function of about a dozen atoms.',
    'Trusted: CPython ast parser; the extractor /verif/sa/boolfn.py (fails '
    'closed on any statement outside if/return/assign); argparse dest '
    'derivation; RunInfo fields carry the child outcome. Not decided: what '
    'the child does, output decoding.',
    'static extraction of decision structure + exhaustive truth-table '
    'comparison; dominance (must-facts) for --unchecked; who-may-write for '
    'golden records',
    'DESIGN.md §4 C09')
