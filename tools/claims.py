# Executed by tools/gen_manifest.py.  One claim() per property that has a
# running check.  Texts state what exit 0 means and what it does NOT mean.

claim(
    'C09', 'proof',
    'Finite obligation set discharged exhaustively by static extraction: the '
    'decision structure of checker.matches_golden is extracted from the AST '
    'and compared with the documented rule on all 2^9 valuations of its '
    'atoms; the wiring of checker.check (options, golden records, commands, '
    'time limits, conjunction with the cross check) is extracted and compared '
    'on all valuations; golden-record provenance, option declarations, the '
    '--unchecked short cut and the argv shape are structural obligations. '
    'This is the right level because the acceptance decision is a loop-free '
    'Boolean function of about a dozen atoms.',
    'Trusted: CPython ast parser; the extractor /verif/sa/boolfn.py (fails '
    'closed on any statement outside if/return/assign); argparse dest '
    'derivation; RunInfo fields carry the child outcome. Not decided: what '
    'the child does, output decoding.',
    'static extraction of decision structure + exhaustive truth-table '
    'comparison; dominance (must-facts) for --unchecked; who-may-write for '
    'golden records',
    'DESIGN.md §4 C09')

claim(
    'C14', 'proof',
    'Finite obligations over constants of the source, all discharged by '
    'folding (partial evaluation of the registry, option-declaration, '
    'toggle-action, detection and pass-builder code with symbolic option '
    'values, forking on every symbolic condition): registry/class/option/'
    'attribute bijection; one attribute-name derivation at all sites; a '
    'mutator is built iff its own declared toggle is true; both pass builders '
    'schedule every registered mutator under its own toggle on every folded '
    'path (last hierarchical pass unrestricted; ddmin omits only binary '
    'reduction); toggle actions for all 8 groups x both polarities x prior '
    'states; automatic detection writes only False, only for unset groups '
    'without evidence, before the passes are built. Right level: the enabled '
    'set is a function of source constants and three small actions.',
    'Trusted: CPython ast; the folder /verif/sa/fold.py (fails closed outside '
    'its expression language); argparse invokes an action once per option '
    'occurrence in command-line order (order sensitivity and abbreviations '
    'are argparse\'s). Pairs of toggles interacting inside a pass builder are '
    'covered through symbolic guards, not by enumerating 2^53 configurations.',
    'constant folding / partial evaluation with guarded lists; who-may-'
    'instantiate and who-may-write queries; dominance for the enabled-test',
    'DESIGN.md §4 C14')

claim(
    'C12', 'other',
    'Clause-level structural claim, decided statically on nodes.py: the '
    'hand-written pickler and unpickler agree (tag set, struct formats, '
    'header widths computed with struct.calcsize, cursor arithmetic as '
    'linear forms, field order, payload length measured on the encoded '
    'bytes, codec, all slots restored); every way an iteration of the '
    'two-stack equality walk can end is justified by identity or by compared '
    'leaf-ness and text/length, and no "equal" verdict comes from hashes; '
    'hash and id slots have a single provenance and nodes are immutable '
    'outside constructor/unpickler; ids are drawn from the process-shared '
    'counter under its lock; dfs/bfs/count_nodes/count_exprs handle each '
    'popped node exactly once and push children once in the required order. '
    'Exit 0 means these obligations hold on every path of the current '
    'source, not that the behavioural statement was tested on trees.',
    'Partial: the behavioural statement over all pairs of trees and across '
    'real processes is not decided. Trusted: CPython ast, the CFG/path '
    'enumeration of /verif/sa, fork semantics of multiprocessing.Value.',
    'writer/reader table agreement; per-path (CFG path enumeration with guard '
    'facts) obligations; who-may-write on node slots',
    'DESIGN.md §4 C12')

claim(
    'C13', 'other',
    'Structural claim decided statically: (a) interprocedural def-use - every '
    'expression list handed to TaskGenerator/Producer is, on all reaching '
    'definitions through both reduce drivers and cli.ddsmt_main, the result '
    'of nodes.reduplicate or fresh parser output; (b) inside reduplicate '
    'every path that reuses an original object is dominated by the "id not '
    'seen" test and records the id, every other path rebuilds from unchanged '
    'text/children without _id=; (c) fresh ids are unique across processes '
    '(shared counter under lock). These are exactly the conditions under '
    'which an identity-keyed simplification hits one position.',
    'Inputs updated inside one ddmin granularity round are outside the '
    'statement ("round"). Trusted: CPython ast, reaching-definitions and path '
    'enumeration of /verif/sa.',
    'interprocedural reaching definitions (def-use closure, greatest '
    'fixpoint) + per-path dominance of the membership test',
    'DESIGN.md §4 C13')

claim(
    'C11', 'other',
    'Structural obligations of nodes.substitute / apply_simp / '
    'introduce_variables decided on every enumerated iteration path of the '
    'rewrite loop: a value read from the replacement map never re-enters the '
    'work list (path-sensitive taint); parameters are never mutated in place; '
    'a rebuilt node is kept only after comparison with the original and the '
    'unchanged input is returned as is; every element is looked up under both '
    'key kinds, emitted exactly once, dropped only for a None replacement; '
    'declarations go right after the leading set-info/set-logic prefix and '
    'only when something changed; formal->actual substitution is '
    'simultaneous. Exit 0 = these clause-wise necessary conditions hold.',
    'Partial: full functional correctness of the rewrite on all trees is not '
    'decided. Trusted: CPython ast; CFG path enumeration with constant-flag '
    'pruning in /verif/sa/cfg.py.',
    'path-sensitive taint + per-path obligations on the CFG; effect '
    '(mutation) analysis on parameters',
    'DESIGN.md §4 C11')

claim(
    'C03', 'other',
    'Decided statically: (1) bounded work per proposal - no re-scan of '
    'replacements in substitute, every while loop of nodes/nodeio/smtlib/'
    'mutators* matches a termination variant (work list with pop on every '
    'path and pushes derived from the popped element, cursor with net '
    'increment >= 1 on every path, doubling/halving, descent), recursion is '
    'structural along every call-graph cycle; (2) one-step no-ops are guarded '
    '(frozen table of 12 mutators, rule = dominance/data-dependence of a '
    'comparison between node and candidate, def-use closure for candidate '
    'filters); (3) strategy fixed-point loops exit on no-progress, '
    'granularity halves, a ddmin round never returns to an earlier subset. '
    'NOT decided: absence of multi-step cycles between mutators - no ranking '
    'function is known, no static rule can check it.',
    'Partial by design (see text). Trusted: CPython ast, /verif/sa CFG, path '
    'enumeration, reaching definitions.',
    'loop-variant recognition per CFG path; call-graph SCCs with structural-'
    'argument labels; dominance of guard facts at emission sites',
    'DESIGN.md §4 C03')

claim(
    'C08', 'other',
    'Finite table, compared exhaustively: the scanner nodeio.parse_smtlib is '
    'a hand-written automaton; its decision table (5 states TOP/TOKEN/STRING/'
    'QUOTED/COMMENT x 16 character classes x look-ahead) is extracted from '
    'the CFG by partially evaluating the character tests for one '
    'representative per class (forking on end-of-input and open-list tests) '
    'and compared cell by cell with the SMT-LIB 2.6 lexicon written down in '
    'the checker (section 3.1). In addition: uniform two-way emission of the '
    'four lexeme kinds, flush of an open token/comment at end of input, '
    'literal contents never touch the structure. All cells are compared, not '
    'sampled inputs.',
    'Informational (not armed) cells: " and | inside a token, CR ending a '
    'comment. Characters outside the listed classes are assumed to behave '
    'like OTHER (the scanner only compares with constants - checked: any '
    'other test form is an ANALYSIS-ERROR). A scanner rewritten away from '
    'the character-loop form (regex, str.find) fails closed with exit 2.',
    'decision-table extraction by partial evaluation over character classes '
    '+ cell-wise comparison with a reference table',
    'DESIGN.md §4 C08')

claim(
    'C07', 'other',
    'Renderer contract decided statically on every iteration path of the two '
    'explicit-stack emitters, Node.__str__, the dispatcher write_smtlib and '
    'the checking writer: leaf text reaches the file verbatim (identity / '
    'plain interpolation only, constants are brackets or white space); each '
    'node is emitted exactly once and children are pushed completely and in '
    'order (head written separately only under has_ident()); separator '
    'protocol (needs-space flag consulted before and set after every token, '
    'comments on a line of their own, a separator after every top-level '
    'expression); rendered text is not post-processed (taint from renderer '
    'output to file.write); separators and the comment terminator agree with '
    'the reader table extracted for C08. With the reader table these imply '
    'parse(render(t)) = t and equal token sequences across renderers by the '
    'lemma argued in DESIGN.md - the lemma is argued, the contract is checked.',
    'Partial: the lemma\'s premise for trees not produced by the reader '
    '(empty leaves, leaves containing delimiters) is delegated to C15. '
    'Trusted: CPython ast, /verif/sa path enumeration.',
    'per-path emission abstraction (LP/RP/LEAF/WS/NL alphabet) + taint from '
    'renderer output to sink + table agreement with the extracted reader',
    'DESIGN.md §4 C07')

claim(
    'C06', 'other',
    'Decided statically, for every write effect in the package classified by '
    'path provenance (interprocedural over resolved call sites): the output '
    'file is never opened/truncated in place - content goes to a sibling '
    'temporary derived from the output path, written inside a with-block '
    'that is closed before os.replace, and the rename post-dominates the '
    'write on all normal paths and is not reachable from an exception '
    'handler; no write effect has provenance "infile" (positive fixture '
    're-checked on every run); KeyboardInterrupt is handled in main() and '
    'swallowed nowhere below; the temporary directory is a '
    'TemporaryDirectory held by a module global and all temporary paths are '
    'built from its name; every adoption is followed by a write of the '
    'adopted input. These are the conditions under which "every crash point" '
    'needs no enumeration (rename is atomic, truncating open is not).',
    'Not decided: SIGKILL vs temp dir; file-system rename semantics; power '
    'loss (no fsync demanded). Trusted: atomicity of rename(2) within one '
    'directory; CPython ast; provenance classification of /verif/sa.',
    'effect inventory + path provenance (who-may-write), post-dominance '
    '(must-backward) of the rename, handler coverage',
    'DESIGN.md §4 C06')

claim(
    'C05', 'other',
    'Structural facts from which "no stale adoption" follows given that a '
    'pool delivers each result once, decided on every path of both '
    'result-drain loops: latch typestate (adoption only with the latch '
    'unset and under the success flag of the result being read; latch set on '
    'the adoption path; cleared only outside the loop), fresh result '
    'iterator per restart, rebinding of the task source to the adopted input '
    '(TaskGenerator.update pickles the new input; stop before update; '
    'reset/start after a latched batch; a new Producer per sweep pickling '
    'exactly its argument), workers echo exactly the list check_exprs '
    'accepted and take their base from the task (digest-checked cache), '
    'and adoption is followed by a write of the adopted input after the '
    'adoption.',
    'Partial: schedules are not explored; multiprocessing semantics (one '
    'result per task, event visibility) and the producer-thread race are '
    'assumed/argued. Trusted: CPython ast, /verif/sa CFG and dataflow.',
    'typestate over enumerated loop paths, dominance (must-facts), reaching '
    'definitions, post-dominance for adopt->write',
    'DESIGN.md §4 C05')

claim(
    'C01', 'other',
    'Decides the adoption discipline the behavioural statement rests on, '
    'statically: (R1) every result tagged successful is dominated by a true '
    'outcome of checker.check_exprs(v) and ships the same definition of v; '
    'failures ship no list; (R2) every adoption and every output write is '
    'dominated by the success flag of the result it reads, writes happen '
    'only at the adoption sites, after the adoption, with the adopted list; '
    '(R3) only nodeio.write_smtlib_to_file writes the output path and '
    'nothing writes the input file (file-effect inventory with path '
    'provenance); (R4) the candidate file is written completely and closed '
    'before the command starts, its name depends on os.getpid() at call '
    'time, processes are started only by checker.execute from check/'
    'do_golden_runs; (R5) the acceptance predicate and wiring are the '
    'documented ones (C09.R1-R3 re-run). Exit 0 does NOT mean the command '
    'was run on the final file.',
    'Partial: command behaviour, token equality across renderers (C07, on '
    'which C01 depends) and pickling fidelity (C12) are separate checks. '
    'Trusted: CPython ast; /verif/sa dataflow; namedtuple field order as '
    'folded from the source.',
    'dominance (must-facts) + reaching definitions for "same list"; '
    'who-may-write / who-may-call over resolved call sites; truth-table '
    'comparison of the acceptance predicate',
    'DESIGN.md §4 C01')

claim(
    'C02', 'other',
    'Decides the structural facts from which the fixed point follows under '
    'the stated assumptions about multiprocessing.Pool: (R1) the last '
    'hierarchical pass is a bare list naming every registered mutator under '
    'its own toggle (folded, shared with C14); (R2) finite abstract '
    'interpretation of strategy_hierarchical.reduce over skip{<=0,any} x '
    'fresh_run x reduction x abort x (skip,abort at the sweep\'s generate '
    'call): every exit of the sweep loop is reached only in a state "fresh '
    'run, no reduction, generated from node 0, flag clear"; the flag is set '
    'only in the adoption blocks; (R3) results read while the flag is set '
    'are skipped; (R4) on every non-aborted path the producer consults '
    'filter, mutations AND global_mutations of every mutator, every '
    'proposal becomes a task, the skip guard is linear and admits every node '
    'when skip <= 0; (R5) sweeps start from re-duplicated inputs.',
    'Partial: schedules are not explored; Pool delivers one result per task '
    '(assumed); raising candidates count as failures. The lowering of skip '
    'for discarded results is an efficiency measure and deliberately not '
    'demanded. Trusted: CPython ast, /verif/sa CFG, folder.',
    'finite abstract interpretation on the CFG (product domain), per-path '
    'hook coverage, linear-form guard check, folding of the pass builder',
    'DESIGN.md §4 C02')

claim(
    'C10', 'other',
    'Control-flow obligations around the child process and the limit '
    'bookkeeping, decided statically: every blocking call on the child in '
    'checker.execute carries a timeout that is the function\'s timeout '
    'parameter; the TimeoutExpired handler kills the child on every path, '
    'returns a record and does not wait unboundedly; the record of an '
    'expired run has exit None (read before any wait) and None streams, and '
    'streams that may be None are never searched; both spawn paths apply '
    'limit_resources (RLIMIT_AS from memout MiB, RLIMIT_CPU from '
    'ceil(timeout)); each default limit is (matching golden run time + 1) * '
    '1.5, assigned exactly when its own option is None; all four match '
    'strings are validated against their golden stream with a non-zero exit, '
    'and do_golden_runs dominates both reductions.',
    'Partial: nothing the kernel does (signal delivery, RLIMIT accounting, '
    'grandchildren holding pipes) and no wall-time number is decided. '
    'Trusted: CPython ast; subprocess semantics of communicate(timeout).',
    'dataflow of the timeout parameter to every blocking call; handler path '
    'enumeration; dominance of validation/defaults',
    'DESIGN.md §4 C10')

claim(
    'C16', 'other',
    'Finite tables compared exhaustively with the SMT-LIB signatures embedded '
    'in the checker: every operator of the result-sort table of '
    '_get_sort_aux (which operators return Bool/Int/Real, which argument '
    'carries the sort, select -> element component, fp -> (w(e), 1+w(m)), '
    'to_fp indices) and every operator of the width table of get_bv_width '
    '(width expressions compared as polynomials in indices and argument '
    'widths); the unknown sentinel (-1/None) never flows into arithmetic or '
    'a constructor (dominating guard required at every use of a recursive '
    'width); default constants have the requested sort and the two FP '
    'abbreviation tables agree; table construction stores the sort from the '
    'position SMT-LIB puts it, no loop variable is clobbered; every '
    'module-level table is reset between inputs under a global declaration; '
    'mutators keep no node-dependent state and use get_sort of their own '
    'node. Exit 0 = every cell agrees; it is not a test of inference on '
    'terms.',
    'Partial: inference on actual terms and scoping of let/quantifier names '
    '(name-keyed, global) are not decided - the property assumes each symbol '
    'bound once. Trusted: the reference signature tables written in '
    '/verif/sa/rules/c16.py (Core, Ints, Reals, FixedSizeBitVectors, '
    'FloatingPoint, Strings, ArraysEx).',
    'operator-table extraction + comparison with reference signatures; '
    'polynomial normal forms for widths; dominance of sentinel guards; '
    'who-resets-what for module tables',
    'DESIGN.md §4 C16')

claim(
    'C18', 'other',
    'Absence of the sources of run-to-run variation in the code that orders, '
    'generates and adopts candidates, decided statically: inventory of every '
    'set-typed value (module tables, locals, instance attributes, dict-of-'
    'sets) with the rule that no order-sensitive consumer (iteration, '
    'list(), tuple(), pop(), join, unpacking, sorted(key=)) touches one; '
    'inventory of hash()/id()/getpid/get_ident/clock/random/directory-order '
    'calls with a def-use argument that each value reaches only equality '
    'tests, logs, statistics, time limits or the private file name; '
    'measured run times decide no branch outside the statistics; the '
    'sequential ddmin driver adopts in generation order and the latch rule '
    '(C05.R1) makes the first success of a sweep the adopted one; node ids '
    'and hashes reach neither leaf text nor sort keys; the one flow found, '
    'the fresh-variable name x<id>__fresh, is a recorded known finding '
    '(genuine defect with a witness pair of differing -j 1 runs, '
    'findings/C18_R4_fresh_variable_name/; not repairable without editing '
    'the unit test that pins the name).',
    'Partial: byte-identity of two real runs is an experiment and is not '
    'decided. Trusted: Python guarantees (dict insertion order, stable '
    'sorted), CPython ast.',
    'nondeterminism-source inventory + def-use walk to sinks (taint); '
    'syntactic set typing; latch typestate shared with C05',
    'DESIGN.md §4 C18')

claim(
    'C04', 'other',
    'Error discipline decided over the resolved call graph: (R1) every call '
    'into mutator code that can run in the main process (protocol calls, '
    'consumption of their generators, apply_simp) lies under an "except '
    'Exception" handler that neither re-raises nor exits; (R2) in the '
    'main-unguarded zone (functions reachable from cli.ddsmt_main without '
    'crossing such a handler; ~60 functions) every constant subscript on an '
    's-expression is covered by a dominating length fact (must-facts + '
    'predicate summaries re-derived from smtlib/nodes on each run), '
    'get_ident() by has_ident(), fixed-arity unpacking by len == n, no '
    'possibly-None local is dereferenced, the parser stack is not popped '
    'when empty, int()/float() of leaf text have a lexical guard, asserts '
    'on input data are implied by a dominating test; (R3) main() returns 0 '
    'only after ddsmt_main() completed, every handled failure returns '
    'non-zero, all other sys.exit codes are non-zero; (R4) every entry '
    'point passes main()\'s value to sys.exit; (R5) user-supplied paths '
    'are validated before raising use; (R6) no handler swallows '
    'KeyboardInterrupt.',
    'Not decided: exceptions of the standard library on resources (ENOSPC, '
    'dead workers, undecodable bytes), MemoryError in workers, recursion '
    'depth of Node.__str__. Node typing of receivers is name/flow based '
    '(parameters node/cmd/expr/sort..., elements of expression lists). '
    'Trusted: CPython ast, /verif/sa call graph (resolved/unresolved counts '
    'are printed and floored).',
    'call-graph zones + handler coverage; must-dataflow of guard facts with '
    're-derived predicate summaries (shape oracle); CFG of main()',
    'DESIGN.md §4 C04')

claim(
    'C15', 'other',
    'Abstract interpretation of all Simplification(...) construction sites '
    '(~80) and all Node(...) constructions of the mutator modules and '
    'smtlib: (R1) every replacement value has abstract kind Node or None '
    '(a Python tuple/str/int is a violation; helpers that may return None '
    'must be None-checked), declarations are nodes; (R2) keys are '
    'identities of nodes reached from the node parameter / the input, or '
    'such nodes; (R3) leaf-text provenance - every string that becomes a '
    'leaf is a constant checked against a reference lexer, a number, the '
    'verbatim text of an existing leaf, an escaped body inside quotes, inner '
    'text inside pipes, or a concatenation of token-safe fragments that is '
    'provably non-empty (length guards); the unquoting filter\'s regular '
    'expression is parsed and must cover the whole leaf with simple-symbol '
    'characters only; (R4) each declared symbol is dominated by "not '
    'is_var" (directly or through derive_symbol + None test); (R5) every '
    'assert in a mutator body is implied by its filter; (R6) declarations '
    'go right after the leading prefix (C11.R5).',
    'Not decided: well-sortedness. Unknown constructs stop the run with '
    'ANALYSIS-ERROR (exit 2), never with a verdict. Assumes reader-produced '
    'leaf text is a token and quoted-symbol inner text has no "|".',
    'abstract shape/leaf-text domain over AST with one-level interprocedural '
    'summaries, filter facts imported into mutations, regex AST inspection',
    'DESIGN.md §4 C15')


# ---- rules added during the build rounds (see DESIGN.md 8.4)
addendum('C01', 'the renderer contract of C07 (R6) and the token-preserving '
         're-duplication of C13 (R7) are re-checked here, because the output '
         'file is the adopted list after reduplicate, rendered by the output '
         'renderer.')
addendum('C02', 'mutator instances are never shared between passes '
         '(get_mutators folded twice); reduplicate itself yields distinct '
         'identities (C13.R2-R4); the information tables the filters consult '
         'are reset and rebuilt before every sweep (R6).')
addendum('C03', 'simultaneous formal/actual substitution (R6 = C11.R6), '
         'identity preservation of untouched subtrees for identity-based '
         'cycle guards (R7 = C11.R3/R4), quote escaping applied once (R8).')
addendum('C04', 'variable subscripts on s-expressions need an index bound; '
         'the per-mutator handler does not leave the loop over the mutators; '
         'str.index needs a membership test; what the main process pickles '
         'for workers is a materialised list (R7).')
addendum('C05', 'private candidate file (R6 = C01.R4); the result of a '
         'ddmin granularity round is what the next round and the caller '
         'continue with (R7, reaching definitions).')
addendum('C06', 'the process never signals itself (os.kill(os.getpid()), '
         'os.abort): the TemporaryDirectory finalizer must run.')
addendum('C07', 'the dispatching writers are evaluated to symbolic output '
         'traces for every valuation of the formatting options '
         '(sa/writer_trace.py): for each expression, in order, one rendering '
         'by the selected emitter, white-space separators only, no '
         'post-processing, no recursive str(); the candidate file is opened '
         'afresh and closed (R7).')
addendum('C08', 'the scanner is analysed in a normal form (canonical names; '
         'index scans, str.find / str.index regions, find-and-jump and '
         'slice-delimited lexemes rewritten to character loops, bounds '
         'judged over linear forms, R6); character classes are the cells of '
         'the partition induced by the scanner\'s own character sets; every '
         'cell is explored under nine look-ahead characters; the scanner '
         'sees the file\'s characters untranslated (R5).')
addendum('C09', 'tests other than == / in between two parameters become '
         'atoms of their own (a regular-expression search is not the '
         'documented substring test); value choices "(a or b) in c" are '
         'lifted; the compared streams are the binary pipes decoded once '
         '(R7).')
addendum('C10', 'spawn-to-wait paths are enumerated with correlated flag '
         'tests; limit_resources is judged on its effective '
         'setrlimit/prlimit applications (appliers inlined); default limits '
         'depend on no foreign option; match validation may live in a '
         'helper.')
addendum('C11', 'prefix scan judged over the valuations of (has_ident, '
         'ident in prefix set); identities unique across processes (R7 = '
         'C12.R4).')
addendum('C12', 'pushed children are never filtered; roles (cursor, tag '
         'byte, work list, popped node) are derived from the code, tag '
         'constants folded through module constants and ord().')
addendum('C14', 'two calls of get_mutators never hand out the same '
         'instance; automatic detection shows every top-level node to '
         'is_relevant (no pre-filter).')
addendum('C15', 'flow-sensitive treatment of "x = None" defaults; the symbol '
         'tables consulted by freshness tests are rebuilt per sweep (R7).')
addendum('C16', 'FP field widths by origin resolution through helpers and '
         'guards; name-pattern branches of the sort table are checked '
         'against every SMT-LIB operator they admit; a handler that falls '
         'through after a failed sort inference must reset the sort.')
addendum('C18', 'R4 is armed (the fresh-variable flow is a listed known '
         'finding with a witness); the information tables are never rebuilt '
         'inside a loop over pool results (R5).')


# ---- round 4 (DESIGN.md 8.4, "Round 4")
addendum('C01', 'R8 = C09.R7 + C09.R8: compared streams are the binary pipes '
         'decoded once; the private copies of the two commands and the '
         'candidate file have provably distinct names.')
addendum('C02', 'R7 = C14.R6 (toggles written only by option actions and '
         'detection), R8 = C12.R5 (the candidate-enumerating walks visit '
         'every node).')
addendum('C03', 'the task index advances on exception paths too; R9 = '
         'C16.R8 (sort inference memoised for every result).')
addendum('C04', 'the containment handler does not render the guarded '
         's-expression; no division by an untested value in main-process '
         'code (R8); element access during option processing is guarded '
         '(R9); profiler activations do not nest (R10, call-graph '
         'reachability).')
addendum('C05', 'hybrid hand-over by reaching definitions (R8); no '
         'return/break/continue in a finally block, writer handlers '
         're-raise (R9).')
addendum('C06', 'SIGINT disposition is never SIG_DFL and ignored only '
         'between save and restore (R6, zero-count rule with fixture).')
addendum('C07', 'R8 = C12.R1 (pickle framing carries leaf text verbatim); '
         'map/join over rendered text counts as post-processing.')
addendum('C08', 'one lexer (R7): reads of the input file flow only into '
         'parse_smtlib; max() over two terminator searches is reported.')
addendum('C09', 'distinct names of private copies as template comparison '
         '(R8); R9 = C10.R5 (strategies dominated by the golden runs).')
addendum('C10', 'the bytes-per-unit factor of --memout is the product of '
         'all constant factors between the option and the limit (= 2^20); '
         'no __exit__ returns a true constant (R6).')
addendum('C11', 'R8 = C12.R3, R9 = C13.R1, R10 = C05.R4 (hash of a node is '
         'the hash of its data; inputs of generators are re-duplicated; the '
         'worker applies a simplification to the task\'s own base).')
addendum('C12', 'R6 = C13.R2-R4; sequence protocol of Node (R7): indexing '
         'is data[key], iteration is iter(data) or left to __getitem__; '
         'equality walk accepted with one stack of zipped pairs; reader '
         'cursor as linear forms along paths.')
addendum('C13', 'R6 = C12.R7 (zip(node, rebuilt children) pairs each child '
         'with its copy).')
addendum('C14', 'R9: detection is not reachable from a strategy call; a '
         'pass-dependent return is dominated by the loop over the passes; '
         'pass lists are bound once and never modified.')
addendum('C15', 'R8: is_piped_symbol / is_string_const are first/last '
         'character tests or an equivalent regular expression (syntax tree '
         'inspected: anchoring, DOTALL, excluded characters, "" pairs).')
addendum('C16', 'R8 memo transparency of get_sort; R9 tables rebuilt after '
         'every ddmin adoption before the next task is generated.')
addendum('C18', 'set-returning functions make their callers\' iterations '
         'order-sensitive consumptions (R1, interprocedural); module/'
         'class-level pid values may only be compared for equality.')


# ---- round 5 (DESIGN.md 8.4, "Round 5")
addendum('C01', 'R9: no one-shot iterator over the rendered expressions is '
         'consumed twice on one path (sa/genreuse.py).')
addendum('C02', 'R9: the same for the proposals / nodes of a sweep.')
addendum('C03', 'R8 also demands that the un-escape of a literal body comes '
         'before any cut; fixed-point loops may be written "while v != 0".')
addendum('C04', 'R11: no caller consumes, untested, the result of a function '
         'that returns None on some path and a value on another.')
addendum('C06', 'provenance follows absolute os.path.join components, module '
         'globals and the temp-file-name function (R2).')
addendum('C07', 'R9 one-shot iterators; R10 StringIO buffers without newline '
         'translation.')
addendum('C08', 'R8: regular expressions for string literals / quoted '
         'symbols are judged on their syntax tree (no backslash escapes).')
addendum('C09', 'identity tests (is / is not) between two parameters are '
         'atoms of their own in the truth table.')
addendum('C10', 'R7: options assigned at run time are never read in an '
         'expression evaluated at import time (parameter defaults, class '
         'bodies, module level).')
addendum('C12', 'counters written over a walker (sum over dfs/filter_nodes) '
         'are judged by the effective depth limit and the filter.')
addendum('C14', 'R7 joint scenario: with all groups unset a group is '
         'disabled only after every node was shown to its is_relevant; R10 '
         'one-shot iterators in the pass builders.')
addendum('C15', 'R9 one-shot iterators in the mutators.')
addendum('C18', 'R3: results discarded after a success do not move the '
         'resume position (linear forms with min); pid / thread-id values '
         'are followed to file names and equality tests (R1b).')


# ---- round 6 (DESIGN.md 8.4, "Round 6")
addendum('C01', 'R4: with a thread pool in a strategy the candidate name '
         'must also depend on the thread.')
addendum('C02', 'R8 includes the depth-limit convention of the walkers '
         '(C12.R5); R10 = per-mutator containment inside the loop over the '
         'mutators (C04.R1); R11 = text-carrying part of the pickle format '
         '(C12.R1).')
addendum('C03', 'R4: the filter of SimplifySymbolNames is judged on its '
         'decision structure (no accepting valuation without "not '
         'is_const").')
addendum('C04', 'R1: the guard of a mutator call sits inside the loop over '
         'the mutators; R12 no signal to the own process group (C06.R4); '
         'R13 worker-read globals are set before the pool is created; R14 '
         'leaf texts are indexed in the renderers only when non-empty.')
addendum('C06', 'R4 also covers os.killpg on the child\'s group; R7 = the '
         'output file is written at the adoption sites only (write part of '
         'C01.R2).')
addendum('C09', 'R10 = candidate file private and complete (C01.R4).')
addendum('C10', 'R8: the recorded run time is wall-clock time around the '
         'child.')
addendum('C11', 'R6 also recognises closure factories; R11: substitute '
         'returns None only for a single node.')
addendum('C12', 'R5 depth-limit convention: constants reaching a walker\'s '
         'limit that do not denote a positive depth must mean "no limit" '
         'there (path evaluation of the walker for that constant).')
addendum('C14', 'R9: registry dicts are read-only for their users when a '
         'registry is a shared object; R11 = per-mutator containment '
         '(C04.R1).')


# ---- round 7 (DESIGN.md 8.4, "Round 7")
addendum('C01', 'R10: memoised functions (functools.cache / lru_cache) on '
         'the candidate path depend only on their cache key (no pid / '
         'thread id, clock, options assigned after parsing, globals '
         'rewritten during the run).')
addendum('C02', 'R12: in the hierarchical result loop a result is dropped '
         'only when the verdict delivered by the worker is false or the '
         'flag is set (the verdict variable is not overwritten before it is '
         'tested).')
addendum('C03', 'R10: the constants ArithmeticSimplifyConstant reads are '
         'non-negative (sign analysis of get_arith_const, lexeme patterns '
         'without sign) and integer proposals are floor divisions by a '
         'constant >= 2.')
addendum('C04', 'R15: results of re.match/search/fullmatch (also on '
         'compiled patterns) and shutil.which are not dereferenced in '
         'main-process code before a None test.')
addendum('C05', 'R3: TaskGenerator.update re-pickles on every path on which '
         'a pickled base is in use; R11 = the writer replaces the output '
         'file on every normal path (publication part of C06.R1).')
addendum('C07', 'R4 also follows slices, tests and per-piece loops over the '
         'rendered text (data-dependent treatment of rendered text is a '
         'transformation).')
addendum('C08', 'R5 covers pathlib read_text(); R9: every character '
         'constant the scanner compares with has a lexical role in SMT-LIB '
         '2.6 (no backslash escapes).')
addendum('C09', 'R7: stdout and stderr of the command are pipes on every '
         'spawn path, whatever the options say.')
addendum('C10', 'R9: memoised functions of the checker depend only on '
         'their cache key (the automatic time limit is assigned after the '
         'first golden run).')
addendum('C12', 'R8: memoised methods of the node classes: a structural '
         'cache key with a value that contains identities.')
addendum('C14', 'R7: "no evidence" means every top-level node was shown to '
         'is_relevant and declined (also per group); R9: a pass that has '
         'mutators is never skipped without a sweep.')
addendum('C16', 'R4: constants placed into a container value are those of '
         'the parameter its constructor takes ((Set E): 1, (Array I E): 2); '
         'R10 memoised functions of smtlib.')
addendum('C18', 'R2: objects accumulating measured run times are '
         'write-only for the strategies.')


# ---- round 8 (DESIGN.md 8.4, "Round 8")
addendum('C03', 'R11 = membership in a node is membership among its '
         'children (C12.R7, membership half).')
addendum('C04', 'R16: no builtin function is used as data where no scope '
         'binds the name; R17: a manager is not shut down while a module '
         'global holds its proxy.')
addendum('C05', 'R12 = the output file is written at the adoption sites '
         'only (write part of C01.R2).')
addendum('C10', 'R6: an __exit__ result that is not certainly falsy counts '
         'as suppressing.')
addendum('C11', 'R4: an inner node is kept without descent only under '
         '"leaf", "map empty" or "rebuilt node equals the original".')
addendum('C12', 'R7 also covers __contains__.')
addendum('C14', 'R9: every pass list the builder returns is consumed by '
         'the strategy.')
addendum('C15', 'R10 = text-carrying part of the pickle format (C12.R1).')
addendum('C16', 'R4: tables of short FP names used to write out the long '
         'sort hold the SMT-LIB pairs; R11: numeric-leaf predicates are '
         'regular expressions rejecting non-numerals (never float()/int()/'
         'isdigit()).')


# ---- round 9 (DESIGN.md 8.4, "Round 9")
DEPTH = ('no function of the tree core (nodes.py, nodeio.py) in the scope of '
         'this property is on a call cycle (helpers, generators, tuple '
         'comparison, deepcopy, generic pickling included): sa/depthrec.py')
addendum('C02', 'R13: ' + DEPTH)
addendum('C04', 'R18: ' + DEPTH)
addendum('C07', 'R11: ' + DEPTH + '; R2/R4 follow comprehensions over the '
         'pieces of a rendered text.')
addendum('C08', 'R10: ' + DEPTH + '; scanner idiom I5 (search for one '
         'compiled character class).')
addendum('C11', 'R12: ' + DEPTH)
addendum('C12', 'R9: ' + DEPTH)
addendum('C15', 'R11: ' + DEPTH)
addendum('C01', 'R11 = the positional "cmd" takes the remainder of the '
         'command line verbatim (C09.R4).')
addendum('C14', 'R12 = the producer asks every mutator of the pass '
         '(C02.R4); R13 = the command\'s arguments are not parsed as ddSMT '
         'options (C09.R4).')
addendum('C09', 'R7 also covers subprocess.run / check_output.')
addendum('C03', 'R10 also reports a conversion (float/int) used as the '
         'judge of a numeric lexeme.')


# ---- round 10 (DESIGN.md 8.4, "Round 10")
STATELESS = ('the protocol methods of the mutator classes store nothing on '
             'the object, the class or module-level containers except '
             'option values and constants (sa/mutstate.py)')
addendum('C02', 'R14: ' + STATELESS + '; R2: the Producer\'s mutator list '
         'is the list get_pass() delivered.')
addendum('C03', 'R12: ' + STATELESS + '; R13: a mutator class outside the '
         'reviewed list (sa/known_mutators.json) ends the check with exit '
         '2.')
addendum('C15', 'R12: ' + STATELESS + '; R13: record types have no mutable '
         'default value.')
addendum('C16', 'R13: ' + STATELESS + '; R12: operator names select their '
         'rule by equality, not by an unanchored regular expression.')
addendum('C18', 'R6: ' + STATELESS + '; R1 counts set algebra on dict '
         'views as sets.')
addendum('C06', 'R8: the input-file and output-file options are not '
         'reassigned after parsing (no symlink resolution, nothing derived '
         'from the other path).')
addendum('C01', 'R12 = C06.R8.')
addendum('C09', 'R11 = C06.R8.')
addendum('C08', 'R11: every container the reader fills is created inside '
         'the call.')
addendum('C10', 'R10 = no return / break / continue inside a finally block '
         '(C05.R9).')
addendum('C12', 'R1 includes a shape-independent part: whatever measures a '
         'text that is written encoded measures bytes.')


# ---- round 11 (DESIGN.md 8.4, "Round 11")
IDKEY = ('no value of the builtin id() outlives the function that took it '
         '(sa/idkeys.py; fixture fixtures/id_keys.py)')
addendum('C01', 'R13: ' + IDKEY + '.')
addendum('C05', 'R15: ' + IDKEY + '; R13: the input _apply_mutator returns '
         'replaces the current input of ddmin.reduce on every path '
         '(sa/adoptres.py); R14: memoised functions on the candidate path '
         'depend only on their key.')
addendum('C06', 'R9: ' + IDKEY + '; R10 = the echo part of C05.R4 (the '
         'list reported as accepted is the list that was checked); R4 also '
         'scans the launcher scripts under bin/.')
addendum('C18', 'R8: ' + IDKEY + '; R7: hash values are compared, stored '
         'and pickled, never formatted into text, used in arithmetic or to '
         'order values.')
addendum('C02', 'R15 = C15.R3 (every leaf a mutator builds is one token).')
addendum('C07', 'R12 = C15.R3; R13 = the tmpfiles part of C09.R6 (one '
         'candidate file per process and thread).')
addendum('C03', 'R14: self-recursive, non-memoised functions of smtlib.py '
         'make no self-call twice on one path (sa/dupcalls.py); R15: the '
         '"reduced" count of an accepted ddmin result is the plain '
         'difference of one counter.')
addendum('C04', 'R19 = the nullness part of C10.R3; R20: file names '
         'assembled in place consist of counters, ids and paths '
         '(sa/filenames.py); R21: assertions of the tree core test types '
         'and arities, never leaf text (sa/ctortext.py).')
addendum('C08', 'R12: Node.__init__ stores the leaf text it is given; '
         'R13 = C04.R21 (sa/ctortext.py).')
addendum('C09', 'R12: the run record binds out / err / exit to stdout / '
         'stderr / return code by declared field order (sa/streams.py); '
         'R13: SIGCHLD is never touched and nobody waits for any child '
         '(sa/sigchld.py).')
addendum('C10', 'R11 = C09.R12; R12 = C09.R13; R13 = the tmpfiles part of '
         'C09.R6.')
addendum('C11', 'R13 = C13.R2-R4; R14 = C15.R13.')
addendum('C12', 'R10 = the cache part of C05.R4.')
addendum('C13', 'R7: the reader allocates one node object per position '
         '(sa/freshnodes.py).')
addendum('C14', 'R14: must-pass-through - a scheduled mutator is handed on '
         'on every normal path of _apply_mutator and of the loops over a '
         'pass (sa/mustpass.py); R15 = the dfs / contains part of C12.R5.')
addendum('C16', 'R10 also covers memoised helpers in the mutator modules.')


# ---- round 12 (DESIGN.md 8.4, "Round 12")
addendum('C05', 'R9 examines every write_smtlib* function of nodeio.py: a '
         'handler re-raises on every path; R13 also reports a handler around '
         'the call of _apply_mutator that carries on.')
addendum('C01', 'R14 = the writer part of C05.R9.')
addendum('C06', 'R11 = C05.R9.')
addendum('C02', 'R16: memoised functions of the registry / pass builders '
         '(kinds of sa/memo.py, including "shared": a cached mutable '
         'container that a caller modifies, a cached object of a package '
         'class).')
addendum('C14', 'R16: as C02.R16 for mutators / options / the strategies.')
addendum('C10', 'R9 follows aliases of the option namespace.')
addendum('C12', 'R11: the C type of the shared id counter equals the type '
         'of every struct field that carries an id.')
addendum('C04', 'R22: reads of the output path in cli.py are dominated by a '
         'structural comparison of result and input, or an existence test.')
addendum('C07', 'R14: no leaf is made of a literal that is still open at the '
         'end of the text (decision table of the scanner).')
addendum('C11', 'R15: a simplification is applied once (no apply_simp / '
         'substitute in a loop that does not bind it).')
addendum('C16', 'R14: collect_information on every path from the top of '
         'the hierarchical round loop to the Producer; R15: no strip with a '
         'character set containing alphanumerics.')
addendum('C03', 'R16 = C10.R1 (waits bounded by the time limit).')


# ---- round 13 (DESIGN.md 8.4, "Round 13") and the rules of sa/defaultconsts.py
addendum('C03', 'R17: ddSMT\'s own default constants are constants for its '
         'own is_const() - the repository\'s get_default_constants and '
         'predicates are folded on literal sorts (sa/defaultconsts.py, '
         'sa/fold.py; only Node.__init__ / Node.__eq__ are modelled); R18: '
         'BvMergeExtend.filter accepts a term only when outer and inner '
         'extension coincide (truth table of the filter); R14 examines both '
         'orders of a pair of self-calls.')
addendum('C16', 'R16: the sort and bit-width get_sort / get_bv_width infer '
         'for the default constants of sort S are S (same folding).')
addendum('C04', 'R23: a value the function itself compares with None is '
         'not used in arithmetic / ordering where that test does not '
         'dominate (strategies, checker, cli, progress).')
addendum('C08', 'R5 also fixes the codec of the open() that feeds the '
         'reader (default or UTF-8, no error handler).')
addendum('C10', 'R14 = the timeout part of C09.R2 (each command under its '
         'own limit).')
addendum('C14', 'R9 also reports an iteration of the loop over the passes '
         'that leaves the loop without a sweep.')
addendum('C03', 'R19: is_const folded on literal terms holds for the '
         'constants of every theory and for nothing else (sa/probes.py).')
addendum('C15', 'R14: the lexeme-class predicates folded on well-formed '
         'leaves classify them as SMT-LIB does (sa/probes.py).')
addendum('C16', 'R17: get_sort / get_bv_width / get_bv_constant_value '
         'folded on closed literal terms give the standard\'s answer or '
         '"unknown", and only "unknown" for an operand of unknown width '
         '(sa/probes.py).')


# ---- round 14 (DESIGN.md 8.4, "Round 14")
addendum('C04', 'R24: literal string keys read from the record '
         'dictionaries of the bookkeeping are keys the records are created '
         'with; R25: nullable fields of the run record are not formatted '
         'with a format specification outside a None test.')
addendum('C09', 'R6 also requires a stem without "." for the candidate '
         'file name.')
addendum('C06', 'R1 also requires the temporary to be opened truncating '
         'or exclusively.')
addendum('C12', 'R4 also requires the id counter to start at a value >= 0 '
         '(ids are tested for truth).')
addendum('C02', 'R17: get_pass hands out element i and reduce() asks for '
         '0 .. len(passes)-1 in order; R18 = C12.R4 + C12.R11.')
addendum('C13', 'R8 = C12.R4 + C12.R11.')
addendum('C14', 'R17 = C02.R17.')
addendum('C01', 'R15 = C09.R12 (sa/streams.py); R11 takes all of C09.R4.')
addendum('C07', 'R15 = C08.R5.')



# ---- round 15 (DESIGN.md 8.4, "Round 15")
addendum('C02', 'R4 (round 15): must-pass-through - on every complete '
         'iteration of Producer.generate on which the skip guard admits the '
         'node and the abort flag is clear, the CFG path contains the '
         'delegation to __mutate_node (no second condition drops a node).')
addendum('C11', 'R4 (round 15): the structural lookup of substitute counts '
         'only when the path facts guarantee its evaluation (nothing but '
         'emptiness tests of the map may precede it in a conjunction).')
addendum('C16', 'R18 (round 15): an extract operator a mutator puts onto an '
         'operand T has indices L <= H < width(T) - difference-bound '
         'entailment from the CFG guard facts of the construction site over '
         'linear guards (sa/extractbounds.py); R1 also knows the fixed '
         'result sorts of the string / regex / sequence operators.')
