# Executed by tools/gen_manifest.py.  One claim() per property that has a
# running check.  Texts state what exit 0 means and what it does NOT mean.

claim(
    'C09', 'proof',
    'Finite obligation set discharged exhaustively by static extraction: the '
    'decision structure of checker.matches_golden is extracted from the AST '
    'and compared with the documented rule on all 2^9 valuations of its '
    'atoms; the wiring of checker.check (options, golden records, commands, '
    'time limits, conjunction with the cross check) is extracted and compared '
    'on all valuations; golden-record provenance, option declarations, the '
    '--unchecked short cut and the argv shape are structural obligations. '
    'This is the right level because the acceptance decision is a loop-free '
    'Boolean function of about a dozen atoms.',
    'Trusted: CPython ast parser; the extractor /verif/sa/boolfn.py (fails '
    'closed on any statement outside if/return/assign); argparse dest '
    'derivation; RunInfo fields carry the child outcome. Not decided: what '
    'the child does, output decoding.',
    'static extraction of decision structure + exhaustive truth-table '
    'comparison; dominance (must-facts) for --unchecked; who-may-write for '
    'golden records',
    'DESIGN.md §4 C09')

claim(
    'C14', 'proof',
    'Finite obligations over constants of the source, all discharged by '
    'folding (partial evaluation of the registry, option-declaration, '
    'toggle-action, detection and pass-builder code with symbolic option '
    'values, forking on every symbolic condition): registry/class/option/'
    'attribute bijection; one attribute-name derivation at all sites; a '
    'mutator is built iff its own declared toggle is true; both pass builders '
    'schedule every registered mutator under its own toggle on every folded '
    'path (last hierarchical pass unrestricted; ddmin omits only binary '
    'reduction); toggle actions for all 8 groups x both polarities x prior '
    'states; automatic detection writes only False, only for unset groups '
    'without evidence, before the passes are built. Right level: the enabled '
    'set is a function of source constants and three small actions.',
    'Trusted: CPython ast; the folder /verif/sa/fold.py (fails closed outside '
    'its expression language); argparse invokes an action once per option '
    'occurrence in command-line order (order sensitivity and abbreviations '
    'are argparse\'s). Pairs of toggles interacting inside a pass builder are '
    'covered through symbolic guards, not by enumerating 2^53 configurations.',
    'constant folding / partial evaluation with guarded lists; who-may-'
    'instantiate and who-may-write queries; dominance for the enabled-test',
    'DESIGN.md §4 C14')

claim(
    'C12', 'other',
    'Clause-level structural claim, decided statically on nodes.py: the '
    'hand-written pickler and unpickler agree (tag set, struct formats, '
    'header widths computed with struct.calcsize, cursor arithmetic as '
    'linear forms, field order, payload length measured on the encoded '
    'bytes, codec, all slots restored); every way an iteration of the '
    'two-stack equality walk can end is justified by identity or by compared '
    'leaf-ness and text/length, and no "equal" verdict comes from hashes; '
    'hash and id slots have a single provenance and nodes are immutable '
    'outside constructor/unpickler; ids are drawn from the process-shared '
    'counter under its lock; dfs/bfs/count_nodes/count_exprs handle each '
    'popped node exactly once and push children once in the required order. '
    'Exit 0 means these obligations hold on every path of the current '
    'source, not that the behavioural statement was tested on trees.',
    'Partial: the behavioural statement over all pairs of trees and across '
    'real processes is not decided. Trusted: CPython ast, the CFG/path '
    'enumeration of /verif/sa, fork semantics of multiprocessing.Value.',
    'writer/reader table agreement; per-path (CFG path enumeration with guard '
    'facts) obligations; who-may-write on node slots',
    'DESIGN.md §4 C12')

claim(
    'C13', 'other',
    'Structural claim decided statically: (a) interprocedural def-use - every '
    'expression list handed to TaskGenerator/Producer is, on all reaching '
    'definitions through both reduce drivers and cli.ddsmt_main, the result '
    'of nodes.reduplicate or fresh parser output; (b) inside reduplicate '
    'every path that reuses an original object is dominated by the "id not '
    'seen" test and records the id, every other path rebuilds from unchanged '
    'text/children without _id=; (c) fresh ids are unique across processes '
    '(shared counter under lock). These are exactly the conditions under '
    'which an identity-keyed simplification hits one position.',
    'Inputs updated inside one ddmin granularity round are outside the '
    'statement ("round"). Trusted: CPython ast, reaching-definitions and path '
    'enumeration of /verif/sa.',
    'interprocedural reaching definitions (def-use closure, greatest '
    'fixpoint) + per-path dominance of the membership test',
    'DESIGN.md §4 C13')
