# Executed by tools/gen_manifest.py.  One claim() per property that has a
# running check.  Texts state what exit 0 means and what it does NOT mean.

claim(
    'C09', 'proof',
    'Finite obligation set discharged exhaustively by static extraction: the '
    'decision structure of checker.matches_golden is extracted from the AST '
    'and compared with the documented rule on all 2^9 valuations of its '
    'atoms; the wiring of checker.check (options, golden records, commands, '
    'time limits, conjunction with the cross check) is extracted and compared '
    'on all valuations; golden-record provenance, option declarations, the '
    '--unchecked short cut and the argv shape are structural obligations. '
    'This is the right level because the acceptance decision is a loop-free '
    'Boolean function of about a dozen atoms.',
    'Trusted: CPython ast parser; the extractor /verif/sa/boolfn.py (fails '
    'closed on any statement outside if/return/assign); argparse dest '
    'derivation; RunInfo fields carry the child outcome. Not decided: what '
    'the child does, output decoding.',
    'static extraction of decision structure + exhaustive truth-table '
    'comparison; dominance (must-facts) for --unchecked; who-may-write for '
    'golden records',
    'DESIGN.md §4 C09')

claim(
    'C14', 'proof',
    'Finite obligations over constants of the source, all discharged by '
    'folding (partial evaluation of the registry, option-declaration, '
    'toggle-action, detection and pass-builder code with symbolic option '
    'values, forking on every symbolic condition): registry/class/option/'
    'attribute bijection; one attribute-name derivation at all sites; a '
    'mutator is built iff its own declared toggle is true; both pass builders '
    'schedule every registered mutator under its own toggle on every folded '
    'path (last hierarchical pass unrestricted; ddmin omits only binary '
    'reduction); toggle actions for all 8 groups x both polarities x prior '
    'states; automatic detection writes only False, only for unset groups '
    'without evidence, before the passes are built. Right level: the enabled '
    'set is a function of source constants and three small actions.',
    'Trusted: CPython ast; the folder /verif/sa/fold.py (fails closed outside '
    'its expression language); argparse invokes an action once per option '
    'occurrence in command-line order (order sensitivity and abbreviations '
    'are argparse\'s). Pairs of toggles interacting inside a pass builder are '
    'covered through symbolic guards, not by enumerating 2^53 configurations.',
    'constant folding / partial evaluation with guarded lists; who-may-'
    'instantiate and who-may-write queries; dominance for the enabled-test',
    'DESIGN.md §4 C14')
