#!/usr/bin/env python3
"""Which rule has a firing witness?  Reads evidence/<id>.json (rule ids),
seeded/KILL_MATRIX.json, regress/REGRESS_MATRIX.json (if present) and
witness/*/ and prints the rules without any witness."""
import json, os, glob, re
V = os.path.dirname(os.path.dirname(os.path.abspath(__file__)))
rules = set()
for f in glob.glob(os.path.join(V, 'evidence', 'C*.json')):
    d = json.load(open(f))
    txt = json.dumps(d)
    rules |= set(re.findall(r'C\d\d\.R\d+[a-z]?', txt))
fired = set()
km = json.load(open(os.path.join(V, 'seeded', 'KILL_MATRIX.json')))
for v, r in km.items():
    for p, x in r.items():
        if isinstance(x, dict):
            fired |= set(x.get('rules', []))
reg = set()
for f in glob.glob(os.path.join(V, 'regress', '*.json')):
    reg |= set(re.findall(r'C\d\d\.R\d+[a-z]?', open(f).read()))
wit = {os.path.basename(d) for d in glob.glob(os.path.join(V, 'witness', 'C*'))}
print('rules', len(rules), 'fired by seeded', len(rules & fired))
rest = sorted(rules - fired)
print('not fired by seeded:', rest)
print('  of these in regress:', sorted(set(rest) & reg))
print('  of these in witness:', sorted(set(rest) & wit))
print('  none:', sorted(set(rest) - reg - wit))
