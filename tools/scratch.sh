#!/bin/sh
# tools/scratch.sh <patch.diff> : fresh scratch clone of /repo HEAD with the patch applied at /var/tmp/verif-dbg
rm -rf /var/tmp/verif-dbg; git clone -q /repo /var/tmp/verif-dbg && git -C /var/tmp/verif-dbg apply --3way --whitespace=nowarn "$1" 2>/dev/null && echo applied
