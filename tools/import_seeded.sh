#!/bin/sh
# tools/import_seeded.sh <red-team dir, e.g. /tmp/rt/C05/rt_out/C05_1> [<id>]
# Confirms a red-team change against /repo's current HEAD and, if everything
# holds, stores it as /verif/seeded/<id>/ :
#   - the patch applies (3-way) to a scratch clone of /repo HEAD,
#   - the whole test suite still passes with it (117),
#   - the demonstration passes on HEAD and fails with the patch.
# Nothing is ever applied to /repo itself.
src=$1
id=${2:-$(basename "$src")}
d=$(mktemp -d /var/tmp/verif-imp.XXXXXX)
trap 'rm -rf "$d"' EXIT
git clone -q /repo "$d/repo" || exit 2
demo=$(ls "$src"/demo.py "$src"/demo.sh 2>/dev/null | head -1)
[ -n "$demo" ] || { echo "$id: NO-DEMO"; exit 3; }
sid=$(basename "$src")
mkdir -p "$d/repo/rt_out/$sid"
cp "$src"/* "$d/repo/rt_out/$sid/" 2>/dev/null
run_demo() {
  if [ "${demo##*.}" = "py" ]; then (cd "$d/repo" && timeout 600 /venv/bin/python "rt_out/$sid/$(basename "$demo")" >"$d/demo.$1.log" 2>&1)
  else (cd "$d/repo" && timeout 600 sh "rt_out/$sid/$(basename "$demo")" >"$d/demo.$1.log" 2>&1); fi
}
run_demo head; r_head=$?
if ! git -C "$d/repo" apply --3way --whitespace=nowarn "$src/patch.diff" >"$d/apply.log" 2>&1 || grep -rq '^<<<<<<<' "$d/repo/ddsmt" "$d/repo/bin"; then
  echo "$id: PATCH-CONFLICT (needs a hand port)"; exit 4; fi
git -C "$d/repo" diff HEAD -- ddsmt bin > "$d/patch.rebased.diff"
(cd "$d/repo" && /venv/bin/python -m pytest -q -p no:cacheprovider --timeout=900 ddsmt/tests >"$d/tests.log" 2>&1)
npass=$(grep -o '[0-9]* passed' "$d/tests.log" | head -1)
nfail=$(grep -o '[0-9]* failed' "$d/tests.log" | head -1)
run_demo patched; r_patched=$?
echo "$id: demo(HEAD)=$r_head demo(patched)=$r_patched tests='$npass $nfail'"
if [ "$r_head" = 0 ] && [ "$r_patched" != 0 ] && [ "$npass" = "117 passed" ] && [ -z "$nfail" ]; then
  out=/verif/seeded/$id
  mkdir -p "$out"
  cp "$d/patch.rebased.diff" "$out/patch.diff"
  cp "$demo" "$out/"
  cp "$src/meta.json" "$out/meta.redteam.json" 2>/dev/null
  tail -5 "$d/demo.patched.log" > "$out/demo.patched.tail.txt"
  echo "$id: KEPT"
  exit 0
fi
echo "--- demo on HEAD (tail)"; tail -5 "$d/demo.head.log"
echo "--- demo patched (tail)"; tail -5 "$d/demo.patched.log"
echo "$id: NOT-KEPT"
exit 5
