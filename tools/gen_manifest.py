#!/usr/bin/env python3
"""Regenerates /verif/MANIFEST.json from the table below (one place to edit).
Usage: python3 tools/gen_manifest.py [--validate]"""
import json
import os
import sys

HERE = os.path.dirname(os.path.dirname(os.path.abspath(__file__)))

# id -> (category, text, level_note, technique, design_ref)
CLAIMS = {}
NOT_APPLICABLE = {
    'C17':
    'semantic equivalence of replaced and replacing term under all '
    'assignments quantifies over runtime values (widths, indices, constants); '
    'no sound static rule in reach - deciding it needs an evaluator or a '
    'solver, i.e. a different technique family (see DESIGN.md, C17)',
}


def claim(pid, category, text, note, technique, ref):
    CLAIMS[pid] = (category, text, note, technique, ref)


def addendum(pid, text):
    """Rules added in the build rounds (red-team strengthening)."""
    cat, t, note, tech, ref = CLAIMS[pid]
    CLAIMS[pid] = (cat, t + ' Added in the build rounds: ' + text, note,
                   tech, ref)


exec(open(os.path.join(HERE, 'tools', 'claims.py')).read())

ALL = ['C%02d' % i for i in range(1, 19)]


def main():
    checks = []
    for pid in ALL:
        if pid not in CLAIMS:
            continue
        cat, text, note, tech, ref = CLAIMS[pid]
        checks.append({
            'property_id': pid,
            'quick_cmd': f'./check {pid} --tier quick',
            'thorough_cmd': f'./check {pid} --tier thorough',
            'evidence_file': f'/verif/evidence/{pid}.json',
            'replay_cmd_template': f'./check {pid} --replay {{path}}',
            'engine': 'sa',
            'level_claimed': {
                'category': cat,
                'text': text,
                'design_ref': ref
            },
            'level_note': note,
            'technique': tech,
        })
    na = []
    for pid in ALL:
        if pid in CLAIMS:
            continue
        reason = NOT_APPLICABLE.get(
            pid, 'check not built yet in this round (static rules designed '
            'in DESIGN.md, implementation pending); not claimed until it runs')
        na.append({'property_id': pid, 'reason': reason})
    man = {
        'version': 1,
        'setup_cmd':
        'cd /verif && /venv/bin/python -c "import compileall,sys; '
        'sys.exit(0 if compileall.compile_dir(\'sa\', quiet=1, '
        'legacy=False, ddir=\'sa\') else 1)" && rm -rf sa/__pycache__ '
        'sa/rules/__pycache__',
        'hooks': {
            'guard': 'DDSMT_VERIF',
            'enable': 'none needed: the checks parse /repo\'s working tree '
            'statically; no instrumentation exists in /repo',
            'baseline_off_cmd':
            'cd /repo && /venv/bin/python -m pytest -ra -q -p '
            'no:cacheprovider --timeout=900 --continue-on-collection-errors',
            'source_commits': [],
            'add_only': True
        },
        'engines': [{
            'name': 'sa',
            'path': '/verif/sa',
            'serves_properties': sorted(CLAIMS),
            'kind_free_text':
            'repository-specific static analysis over Python ASTs: program '
            'model with star-import resolution, statement CFG with guard '
            'facts, must/may dataflow, constant folding of registries and '
            'option tables, extraction of decision tables compared with '
            'reference tables'
        }],
        'checks': checks,
        'not_applicable': na,
        'notes':
        'All checks are static (no code of /repo is imported or run). Exit '
        '0/1/2 = holds / VIOLATION / ANALYSIS-ERROR (fail closed). Known '
        'findings: /verif/known_findings.json. VERIF_REPO may point the '
        'checks at a scratch copy (used by the self-test variants only).'
    }
    with open(os.path.join(HERE, 'MANIFEST.json'), 'w') as f:
        json.dump(man, f, indent=1)
        f.write('\n')
    if '--validate' in sys.argv:
        import jsonschema
        schema = json.load(open('/root/.vp/MANIFEST.schema.json'))
        jsonschema.validate(man, schema)
        es = json.load(open('/root/.vp/EVIDENCE.schema.json'))
        for c in checks:
            p = c['evidence_file']
            if os.path.exists(p):
                jsonschema.validate(json.load(open(p)), es)
                ev = json.load(open(p))
                assert ev['level'] == c['level_claimed']['category'], p
        print('MANIFEST and evidence files validate;', len(checks),
              'claimed,', len(na), 'not applicable')


if __name__ == '__main__':
    main()
