#!/usr/bin/env python3
"""Runs every check against every neutral refactoring (scratch clones under
/var/tmp).  Any exit 1 is a false alarm of a check; exit 2 is reported too.
Usage: python3 tools/neutral_matrix.py [id ...]"""
import concurrent.futures, json, os, re, shutil, subprocess, sys, tempfile
VERIF = os.path.dirname(os.path.dirname(os.path.abspath(__file__)))
PROPS = ['C01','C02','C03','C04','C05','C06','C07','C08','C09','C10','C11','C12','C13','C14','C15','C16','C18']
def run(vid):
    d = tempfile.mkdtemp(prefix='verif-nm.', dir='/var/tmp')
    try:
        repo = os.path.join(d, 'repo')
        subprocess.check_call(['git','clone','-q','/repo',repo])
        r = subprocess.run(['git','-C',repo,'apply','--3way','--whitespace=nowarn',os.path.join(VERIF,NDIR,vid,'patch.diff')],capture_output=True,text=True)
        if r.returncode != 0: return vid, {'error':'no apply'}
        env = dict(os.environ, VERIF_REPO=repo, VERIF_EVIDENCE_DIR=os.path.join(d,'ev'))
        res = {}
        for p in PROPS:
            c = subprocess.run([os.path.join(VERIF,'check'),p],capture_output=True,text=True,env=env)
            if c.returncode != 0:
                lines = [l.strip()[:260] for l in c.stdout.splitlines() if 'VIOLATED' in l or 'ANALYSIS-ERROR' in l]
                res[p] = {'rc': c.returncode, 'lines': lines[:4]}
        return vid, res
    finally:
        shutil.rmtree(d, ignore_errors=True)
NDIR = 'neutral'
def main():
    global NDIR
    args = sys.argv[1:]
    if len(args) >= 2 and args[0] == '--dir':
        NDIR = args[1]; args = args[2:]
    ndir = os.path.join(VERIF, NDIR)
    vids = args or sorted(x for x in os.listdir(ndir) if os.path.isdir(os.path.join(ndir, x)))
    bad = 0
    with concurrent.futures.ProcessPoolExecutor(16) as ex:
        for vid, res in ex.map(run, vids):
            if res:
                bad += 1
                print(vid, json.dumps(res, indent=1)[:1500])
            else:
                print(vid, 'silent')
    print('variants with alarms/errors:', bad, 'of', len(vids))
if __name__ == '__main__':
    main()
