#!/usr/bin/env python3
"""Reverts each fix: commit of /repo (one at a time, on a scratch clone of
HEAD) and runs all checks: the defect the commit repaired must be reported
again.  Writes regress/MATRIX.json; regress/<commit>/ holds the reverse
patch and the commit subject.  Reverts that no longer apply (a later fix
rewrote the same lines) are listed as such."""
import concurrent.futures
import json
import os
import re
import shutil
import subprocess
import tempfile

VERIF = os.path.dirname(os.path.dirname(os.path.abspath(__file__)))
PROPS = ['C01', 'C02', 'C03', 'C04', 'C05', 'C06', 'C07', 'C08', 'C09',
         'C10', 'C11', 'C12', 'C13', 'C14', 'C15', 'C16', 'C18']


def run(cid):
    d = tempfile.mkdtemp(prefix='verif-rg.', dir='/var/tmp')
    try:
        repo = os.path.join(d, 'repo')
        subprocess.check_call(['git', 'clone', '-q', '/repo', repo])
        patch = os.path.join(VERIF, 'regress', cid, 'patch.diff')
        r = subprocess.run(['git', '-C', repo, 'apply', '--3way',
                            '--whitespace=nowarn', patch],
                           capture_output=True, text=True)
        conflict = subprocess.run(
            ['grep', '-rlq', '^<<<<<<<', os.path.join(repo, 'ddsmt'),
             os.path.join(repo, 'bin')]).returncode == 0
        if r.returncode != 0 or conflict:
            return cid, {'status': 'revert does not apply to HEAD'}
        res = {}
        env = dict(os.environ, VERIF_REPO=repo,
                   VERIF_EVIDENCE_DIR=os.path.join(d, 'ev'))
        for p in PROPS:
            c = subprocess.run([os.path.join(VERIF, 'check'), p],
                               capture_output=True, text=True, env=env)
            if c.returncode != 0:
                res[p] = {'rc': c.returncode, 'rules': sorted(set(re.findall(
                    r'VIOLATED (C\d+\.R\w+)', c.stdout)))}
        return cid, {'status': 'applied', 'reported_by': res}
    finally:
        shutil.rmtree(d, ignore_errors=True)


def main():
    rdir = os.path.join(VERIF, 'regress')
    ids = sorted(x for x in os.listdir(rdir)
                 if os.path.isfile(os.path.join(rdir, x, 'patch.diff')))
    out = {}
    with concurrent.futures.ProcessPoolExecutor(16) as ex:
        for cid, res in ex.map(run, ids):
            out[cid] = res
            note = open(os.path.join(rdir, cid, 'note.txt')).read().strip()
            rb = res.get('reported_by', {})
            print(cid, res['status'], {p: v['rules'] or v['rc']
                                       for p, v in rb.items()}, '|', note[:60])
    json.dump(out, open(os.path.join(rdir, 'MATRIX.json'), 'w'), indent=1,
              sort_keys=True)


if __name__ == '__main__':
    main()
