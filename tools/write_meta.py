#!/usr/bin/env python3
"""(Re)writes seeded/<id>/meta.json from the red-team note
(meta.redteam.json), the confirmation done by tools/import_seeded.sh and
seeded/KILL_MATRIX.json.  Fields "origin" and "confirmed" of an existing
meta.json are kept (hand-ported patches carry their own note there)."""
import json
import os

VERIF = os.path.dirname(os.path.dirname(os.path.abspath(__file__)))
sdir = os.path.join(VERIF, 'seeded')
titles = {}
for line in open(os.path.join(VERIF, 'properties.jsonl')):
    d = json.loads(line)
    titles[d['id']] = d['title']
km = json.load(open(os.path.join(sdir, 'KILL_MATRIX.json')))
n = 0
for vid in sorted(os.listdir(sdir)):
    d = os.path.join(sdir, vid)
    if not os.path.isfile(os.path.join(d, 'patch.diff')):
        continue
    rt = {}
    if os.path.exists(os.path.join(d, 'meta.redteam.json')):
        rt = json.load(open(os.path.join(d, 'meta.redteam.json')))
    old = {}
    if os.path.exists(os.path.join(d, 'meta.json')):
        old = json.load(open(os.path.join(d, 'meta.json')))
    prop = vid.split('_')[0]
    res = km.get(vid, {})
    caught = {p: r['rules'] for p, r in res.items()
              if isinstance(r, dict) and r.get('rc') == 1}
    errs = {p: r.get('error', '') for p, r in res.items()
            if isinstance(r, dict) and r.get('rc') == 2}
    meta = {
        'id': vid,
        'property': prop,
        'property_title': titles.get(prop, ''),
        'summary': rt.get('summary', old.get('summary', '')),
        'needs_to_manifest': rt.get('needs_to_manifest',
                                    old.get('needs_to_manifest', '')),
        'files_touched': rt.get('files_touched',
                                old.get('files_touched', [])),
        'origin': old.get(
            'origin', 'independent sub-agent given only the property text '
            'and a scratch worktree of /repo; patch rebased onto /repo HEAD '
            'by 3-way apply'),
        'confirmed': old.get('confirmed', {
            'how': 'tools/import_seeded.sh: scratch clone of /repo HEAD; '
                   'patch applies; full test suite; demonstration on HEAD '
                   'and with the patch',
            'tests_with_patch': '117 passed',
            'demo_on_head': 'PASS (exit 0)',
            'demo_with_patch': 'FAIL (exit != 0)',
            'demo_file': 'demo.patched.tail.txt',
        }),
        'checks_run': 'all 17 quick checks against a scratch clone with the '
                      'patch applied (tools/kill_matrix.py)',
        'caught_by': caught,
        'analysis_error_in': errs,
        'caught_by_own_property_check': prop in caught,
    }
    json.dump(meta, open(os.path.join(d, 'meta.json'), 'w'), indent=1)
    n += 1
print(f'{n} meta.json written')
