#!/usr/bin/env python3
"""Counts for DESIGN.md 8.4 from seeded/KILL_MATRIX.json."""
import json, os, collections
V = os.path.dirname(os.path.dirname(os.path.abspath(__file__)))
km = json.load(open(os.path.join(V, 'seeded', 'KILL_MATRIX.json')))
ids = sorted(v for v in os.listdir(os.path.join(V, 'seeded'))
             if os.path.isfile(os.path.join(V, 'seeded', v, 'patch.diff')))
own_v, own_e, other, none_ = [], [], [], []
missing = []
for v in ids:
    r = km.get(v)
    if not r or 'error' in r:
        missing.append(v)
        continue
    own = v.split('_')[0]
    o = r.get(own, {})
    if o.get('rc') == 1:
        own_v.append(v)
    elif o.get('rc') == 2:
        own_e.append(v)
    else:
        by = [p for p, x in r.items() if isinstance(x, dict)
              and x.get('rc') == 1]
        (other if by else none_).append((v, by))
print('seeded', len(ids), 'own VIOLATION', len(own_v), 'own exit2',
      len(own_e), 'other property', len(other), 'nobody', len(none_),
      'not in matrix', len(missing))
print('own exit 2:', ' '.join(own_e))
print('left to others:', ' '.join(f'{v}->{"/".join(b)}' for v, b in other))
print('nobody:', ' '.join(v for v, _ in none_))
print('missing:', ' '.join(missing))
per = collections.Counter(v.split('_')[0] for v in ids)
print('per property', dict(per))
