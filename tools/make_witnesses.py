#!/usr/bin/env python3
"""Rule-liveness witnesses: for every rule that no seeded change and no
reverted fix makes fire, a small hand-written edit that contradicts the
rule's statement.  They are NOT confirmed behaviour-breaking changes (no
demonstration is run; several would be caught by the first execution), they
only show that the rule is not vacuous.  Each edit is applied to a scratch
clone of /repo HEAD, the diff is stored as witness/<rule>/patch.diff and the
rule's check is run on the clone: it must report that rule."""
import json
import os
import re
import shutil
import subprocess
import sys
import tempfile

VERIF = os.path.dirname(os.path.dirname(os.path.abspath(__file__)))

EDITS = {
    'C01.R3': ('ddsmt/strategy_ddmin.py',
               "            for result in pool.imap_unordered(_worker, taskgen):\n",
               "            open(options.args().outfile, 'w').close()\n"
               "            for result in pool.imap_unordered(_worker, taskgen):\n",
               'a second writer of the output file'),
    'C03.R3': ('ddsmt/smtlib.py',
               "        bw = get_bv_width(node[1])\n",
               "        bw = get_bv_width(node)\n",
               'recursion on the same node'),
    'C05.R2': ('ddsmt/strategy_ddmin.py',
               "        while start_index >= 0:\n            start_index = -1\n            skip = False\n            for result in pool.imap_unordered(_worker, taskgen):\n",
               "        results = pool.imap_unordered(_worker, taskgen)\n        while start_index >= 0:\n            start_index = -1\n            skip = False\n            for result in results:\n",
               'one imap iterator shared by all batches'),
    'C06.R2': ('ddsmt/cli.py',
               "        # disable unused theories\n",
               "        open(options.args().infile, 'a').close()\n        # disable unused theories\n",
               'the input file is opened for writing'),
    'C07.R5': ('ddsmt/nodeio.py',
               "        elif char not in (' ', '\\t', '\\n', '\\r'):\n",
               "        elif char not in ('\\t', '\\n', '\\r'):\n",
               'the reader no longer skips the separator the writers emit'),
    'C08.R4': ('ddsmt/nodeio.py',
               "                literal.append(char)\n",
               "                literal.append(char)\n                if char == '(':\n                    cur_expr = []\n",
               'a parenthesis inside a literal touches the structure'),
    'C09.R3': ('ddsmt/checker.py',
               "    ri = execute(options.args().cmd, filename, options.args().timeout)\n",
               "    global __GOLDEN\n    ri = execute(options.args().cmd, filename, options.args().timeout)\n    if __GOLDEN is None:\n        __GOLDEN = ri\n",
               'golden record assigned outside do_golden_runs'),
    'C09.R4': ('ddsmt/checker.py',
               "            options.args().match_out,\n            options.args().match_err):\n",
               "            options.args().match_output,\n            options.args().match_err):\n",
               'an undeclared option is read'),
    'C09.R5': ('ddsmt/checker.py',
               "    if options.args().unchecked:\n        return RunInfo(0, \"unchecked\", \"unchecked\", 0)\n    start = time.time()\n",
               "    start = time.time()\n",
               '--unchecked no longer short-cuts the run'),
    'C10.R2': ('ddsmt/checker.py',
               "        proc.kill()\n",
               "        pass\n",
               'the expired child is not killed'),
    'C11.R2': ('ddsmt/nodes.py',
               "    changed = False\n    args = [[]]\n    while visit:\n        expr, visited = visit.pop()\n        assert isinstance(expr, Node)\n\n        didrepl = False\n",
               "    changed = False\n    args = [[]]\n    if not isinstance(exprs, Node):\n        exprs.reverse()\n    while visit:\n        expr, visited = visit.pop()\n        assert isinstance(expr, Node)\n\n        didrepl = False\n",
               'the input list is mutated in place'),
    'C12.R2': ('ddsmt/nodes.py',
               "            if ns.hash != no.hash:\n                return False\n",
               "            if ns.hash != no.hash:\n                return False\n            if ns.hash == no.hash:\n                continue\n",
               'equal hashes count as equal trees'),
    'C12.R3': ('ddsmt/nodes.py',
               "        self.hash = _hash if _hash else hash(self.data)\n",
               "        self.hash = _hash if _hash else hash(self.id)\n",
               'hash derived from the identity'),
    'C13.R4': ('ddsmt/nodes.py',
               "                else:\n                    args[-1].append(expr)\n                    ids.add(expr.id)\n",
               "                else:\n                    args[-1].append(expr)\n",
               'a reused list node is not recorded as seen'),
    'C14.R1': ('ddsmt/mutators_core.py',
               "        'Constants': 'constants',\n",
               "",
               'a protocol class is missing from the registry'),
    'C14.R2': ('ddsmt/mutators.py',
               "    for _, opt in mutators.items():\n        setattr(namespace, f'mutator_{opt.replace(\"-\", \"_\")}', value)\n",
               "    for _, opt in mutators.items():\n        setattr(namespace, f'mutator_{opt.replace(\"-\", \"\")}', value)\n",
               'one site derives the attribute name differently'),
    'C14.R5': ('ddsmt/strategy_ddmin.py',
               "from . import checker\n",
               "from . import checker\nfrom .mutators_core import Constants\n\n__EXTRA = Constants()\n",
               'a mutator class is instantiated outside the gate'),
    'C15.R2': ('ddsmt/mutators_boolean.py',
               "        return [Simplification({node.id: node[1][1]}, [])]\n\n    def __str__(self):\n        return 'eliminate double negation'\n",
               "        return [Simplification({len(node): node[1][1]}, [])]\n\n    def __str__(self):\n        return 'eliminate double negation'\n",
               'a key that is not a node identity'),
    'C16.R4': ('ddsmt/smtlib.py',
               "            if sort.data == 'Float16':\n                ew = 5\n",
               "            if sort.data == 'Float16':\n                ew = 6\n",
               'wrong exponent width for Float16'),
    'C16.R16': ('ddsmt/smtlib.py',
                "            elif sort.data == 'Float32':\n                ew = 8\n                sw = 23\n",
                "            elif sort.data == 'Float32':\n                ew = 8\n                sw = 22\n",
                'a Float32 default constant with a 22-bit significand: its '
                'inferred sort is not Float32'),
    'C16.R10': ('ddsmt/smtlib.py',
                "def is_var(node):\n",
                "import functools\n\n\n@functools.lru_cache(maxsize=None)\ndef is_var(node):\n",
                'is_var memoised although the table of constants is '
                'rebuilt for every input'),
}


def main():
    only = sys.argv[1:]
    res = {}
    for rule, (path, old, new, note) in sorted(EDITS.items()):
        if old is None or (only and rule not in only):
            continue
        d = tempfile.mkdtemp(prefix='verif-wt.', dir='/var/tmp')
        try:
            repo = os.path.join(d, 'repo')
            subprocess.check_call(['git', 'clone', '-q', '/repo', repo])
            fp = os.path.join(repo, path)
            s = open(fp).read()
            if old not in s:
                print(rule, 'ANCHOR-NOT-FOUND')
                continue
            open(fp, 'w').write(s.replace(old, new, 1))
            diff = subprocess.run(['git', '-C', repo, 'diff'],
                                  capture_output=True, text=True).stdout
            prop = rule.split('.')[0]
            env = dict(os.environ, VERIF_REPO=repo,
                       VERIF_EVIDENCE_DIR=os.path.join(d, 'ev'))
            c = subprocess.run([os.path.join(VERIF, 'check'), prop],
                               capture_output=True, text=True, env=env)
            rules = sorted(set(re.findall(r'VIOLATED (C\d+\.R\w+)',
                                          c.stdout)))
            fires = rule in rules
            print(rule, 'FIRES' if fires else f'DOES-NOT-FIRE rc={c.returncode} {rules}',
                  '|', note)
            if not fires:
                m = re.search(r'ANALYSIS-ERROR[^\n]*', c.stdout)
                if m:
                    print('   ', m.group(0)[:200])
            if fires:
                wd = os.path.join(VERIF, 'witness', rule)
                os.makedirs(wd, exist_ok=True)
                open(os.path.join(wd, 'patch.diff'), 'w').write(diff)
                open(os.path.join(wd, 'note.txt'), 'w').write(
                    f'{rule}: {note}\n(rule-liveness witness, not a '
                    'confirmed behaviour-breaking change)\n')
            res[rule] = {'fires': fires, 'rules': rules}
        finally:
            shutil.rmtree(d, ignore_errors=True)
    json.dump(res, open(os.path.join(VERIF, 'witness', 'RESULT.json'), 'w'),
              indent=1, sort_keys=True)


if __name__ == '__main__':
    main()
