#!/bin/sh
# tools/import_neutral.sh <dir with patch.diff note.txt> [<id>]
# Confirms that a behaviour-preserving refactoring applies to /repo HEAD and
# that the full test suite passes with it (scratch clone under /var/tmp),
# then stores it as /verif/neutral/<id>/.
src=$1; id=${2:-$(basename "$src")}
d=$(mktemp -d /var/tmp/verif-nt.XXXXXX); trap 'rm -rf "$d"' EXIT
git clone -q /repo "$d/repo" || exit 2
if ! git -C "$d/repo" apply --3way --whitespace=nowarn "$src/patch.diff" >/dev/null 2>&1 || grep -rq '^<<<<<<<' "$d/repo/ddsmt" "$d/repo/bin"; then echo "$id: PATCH-CONFLICT"; exit 4; fi
git -C "$d/repo" diff HEAD -- ddsmt bin > "$d/p.diff"
[ -s "$d/p.diff" ] || { echo "$id: EMPTY"; exit 4; }
(cd "$d/repo" && /venv/bin/python -m pytest -q -p no:cacheprovider --timeout=900 ddsmt/tests >"$d/t.log" 2>&1)
if grep -q '117 passed' "$d/t.log" && ! grep -q 'failed' "$d/t.log"; then
  mkdir -p /verif/neutral/$id; cp "$d/p.diff" /verif/neutral/$id/patch.diff; cp "$src/note.txt" /verif/neutral/$id/ 2>/dev/null; echo "$id: KEPT"
else echo "$id: TESTS-FAIL"; tail -3 "$d/t.log"; exit 5; fi
