#!/bin/sh
# tools/try_patch.sh <patch.diff> <prop> [<prop>...]
# Applies the patch to a scratch copy of /repo's working tree (under
# /var/tmp, removed afterwards) and runs the given checks against it.
patch=$1; shift
d=$(mktemp -d /var/tmp/verif-try.XXXXXX)
mkdir -p "$d/repo"
(cd /repo && git ls-files -z | xargs -0 cp --parents -t "$d/repo") 
if ! (cd "$d/repo" && git init -q . 2>/dev/null; git -C "$d/repo" apply --whitespace=nowarn "$patch" 2>&1 || patch -p1 -s -d "$d/repo" < "$patch"); then echo "PATCH-DOES-NOT-APPLY $patch"; rm -rf "$d"; exit 3; fi
rc=0
for p in "$@"; do
  VERIF_REPO="$d/repo" VERIF_EVIDENCE_DIR="$d/ev" /verif/check "$p" > "$d/out.$p" 2>&1; r=$?
  echo "== $p rc=$r"; grep -E "VIOLATED|VIOLATION|ANALYSIS-ERROR|KNOWN-FINDING|construct:" "$d/out.$p" | head -${TRY_LINES:-12}
  [ $r -gt $rc ] && rc=$r
done
rm -rf "$d"
exit $rc
