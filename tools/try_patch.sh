#!/bin/sh
# tools/try_patch.sh <patch.diff> <prop> [<prop>...]
# Applies the patch (3-way, so patches made against the pinned commit still
# apply after the fix: commits) to a scratch clone of /repo under /var/tmp
# (removed afterwards) and runs the given checks against it via VERIF_REPO.
patch=$1; shift
d=$(mktemp -d /var/tmp/verif-try.XXXXXX)
git clone -q /repo "$d/repo" 2>/dev/null
# carry over uncommitted changes of /repo's working tree, if any
(cd /repo && git diff HEAD) > "$d/wt.diff"
[ -s "$d/wt.diff" ] && git -C "$d/repo" apply "$d/wt.diff"
if ! git -C "$d/repo" apply --3way --whitespace=nowarn "$patch" >"$d/apply.log" 2>&1; then
  echo "PATCH-DOES-NOT-APPLY $patch"; grep -m3 -i "conflict\|error" "$d/apply.log"; rm -rf "$d"; exit 3; fi
if grep -rq '^<<<<<<<' "$d/repo/ddsmt" "$d/repo/bin" 2>/dev/null; then echo "PATCH-CONFLICT $patch"; rm -rf "$d"; exit 3; fi
rc=0
for p in "$@"; do
  VERIF_REPO="$d/repo" VERIF_EVIDENCE_DIR="$d/ev" /verif/check "$p" > "$d/out.$p" 2>&1; r=$?
  echo "== $p rc=$r"; grep -E "VIOLATED|VIOLATION|ANALYSIS-ERROR|KNOWN-FINDING|construct:" "$d/out.$p" | head -${TRY_LINES:-12}
  [ $r -gt $rc ] && rc=$r
done
rm -rf "$d"
exit $rc
