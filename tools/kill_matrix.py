#!/usr/bin/env python3
"""Runs every check against every seeded change (each applied to its own
scratch clone of /repo HEAD under /var/tmp, removed afterwards) and writes
/verif/seeded/KILL_MATRIX.json plus seeded/<id>/meta.json.

Usage: python3 tools/kill_matrix.py [--jobs N] [id ...]
"""
import concurrent.futures
import json
import os
import re
import shutil
import subprocess
import sys
import tempfile

VERIF = os.path.dirname(os.path.dirname(os.path.abspath(__file__)))
PROPS = ['C01', 'C02', 'C03', 'C04', 'C05', 'C06', 'C07', 'C08', 'C09',
         'C10', 'C11', 'C12', 'C13', 'C14', 'C15', 'C16', 'C18']


def run_variant(vid):
    d = tempfile.mkdtemp(prefix='verif-km.', dir='/var/tmp')
    try:
        repo = os.path.join(d, 'repo')
        subprocess.check_call(['git', 'clone', '-q', '/repo', repo])
        patch = os.path.join(VERIF, 'seeded', vid, 'patch.diff')
        r = subprocess.run(['git', '-C', repo, 'apply', '--whitespace=nowarn',
                            patch], capture_output=True, text=True)
        if r.returncode != 0:
            return vid, {'error': 'patch does not apply: ' + r.stderr[:200]}
        res = {}
        env = dict(os.environ, VERIF_REPO=repo,
                   VERIF_EVIDENCE_DIR=os.path.join(d, 'ev'))
        for p in PROPS:
            r = subprocess.run([os.path.join(VERIF, 'check'), p],
                               capture_output=True, text=True, env=env)
            rules = sorted(set(re.findall(r'VIOLATED (C\d+\.R\w+)',
                                          r.stdout)))
            res[p] = {'rc': r.returncode, 'rules': rules}
            if r.returncode == 2:
                m = re.search(r'ANALYSIS-ERROR[^\n]*', r.stdout)
                res[p]['error'] = m.group(0)[:200] if m else ''
        return vid, res
    finally:
        shutil.rmtree(d, ignore_errors=True)


def main():
    args = [a for a in sys.argv[1:] if not a.startswith('--')]
    jobs = 16
    if '--jobs' in sys.argv:
        jobs = int(sys.argv[sys.argv.index('--jobs') + 1])
        args = [a for a in args if a != str(jobs)]
    sdir = os.path.join(VERIF, 'seeded')
    vids = args or sorted(v for v in os.listdir(sdir)
                          if os.path.isfile(os.path.join(sdir, v,
                                                         'patch.diff')))
    matrix = {}
    with concurrent.futures.ProcessPoolExecutor(jobs) as ex:
        for vid, res in ex.map(run_variant, vids):
            matrix[vid] = res
            own = vid.split('_')[0]
            if 'error' in res:
                print(vid, 'ERROR', res['error'])
                continue
            caught = [p for p in PROPS if res[p]['rc'] == 1]
            errs = [p for p in PROPS if res[p]['rc'] == 2]
            print(f'{vid}: own={own} '
                  f'{"CAUGHT" if own in caught else "MISSED"} '
                  f'by={caught} errors={errs}')
    out = os.path.join(sdir, 'KILL_MATRIX.json')
    old = {}
    if os.path.exists(out) and args:
        old = json.load(open(out))
    old.update(matrix)
    with open(out, 'w') as f:
        json.dump(old, f, indent=1, sort_keys=True)
    return 0


if __name__ == '__main__':
    sys.exit(main())
