(assert (> x147__fresh))
