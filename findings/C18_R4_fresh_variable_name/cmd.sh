#!/bin/sh
python3 -c "import random,time; time.sleep(random.random()*0.05)"
if grep -q "assert (> [(x]" "$1"; then exit 7; fi
exit 0
