(assert (> x145__fresh))
