"""Memoising decorators: does the cached value depend only on the key?

``functools.cache`` / ``functools.lru_cache`` / ``cached_property`` turn a
function into a table keyed by the hash/equality of its arguments.  The
table is right only while everything the body reads is determined by that
key.  This module lists, for every function of the package that carries
such a decorator, the reads that are NOT determined by the key:

``identity``    os.getpid(), threading.get_ident(), current_process(), ...
                (the table is copied into forked workers / shared by threads)
``clock``       time.*, random.*
``option``      ``options.args().X`` where X is assigned somewhere in the
                package after parsing (e.g. the automatic timeout)
``global``      a module global that some function of the package rebinds
                (``global G``) or mutates, when that function is reachable
                from a strategy's ``reduce`` or from the checker's entry
                points, i.e. it changes while the table lives
``shared``      the function returns a mutable container (dict / list / set
                display) and some caller in the package modifies the value it
                got (``f()[k].pop(..)``, ``x = f(); x[k] = v``): the table
                hands the modified object to every later caller
``structural``  a parameter whose class defines ``__eq__`` (equal keys for
                distinct objects) while the body reads ``.id`` of it or of
                something reached from it

Callees inside the package are followed (depth 3).  The rules of the
individual properties decide which findings concern them.
"""
import ast

from .loader import AnalysisError, unparse
from .astutil import call_name, walk_no_nested

MEMO_DECOS = ('functools.cache', 'functools.lru_cache', 'cache', 'lru_cache',
              'functools.cached_property', 'cached_property')
IDENTITY = ('os.getpid', 'os.getppid', 'threading.get_ident',
            'threading.get_native_id', 'threading.current_thread',
            'multiprocessing.current_process', 'os.getpgrp', 'os.getpgid')
CLOCK_PREFIX = ('time.', 'random.', 'datetime.', 'uuid.')
MUTATORS = ('append', 'extend', 'add', 'update', 'clear', 'pop', 'remove',
            'discard', 'insert', 'setdefault', 'popitem', 'sort')


class Finding:

    def __init__(self, mod, qual, func, deco, kind, detail, node, via):
        self.mod, self.qual, self.func, self.deco = mod, qual, func, deco
        self.kind, self.detail, self.node, self.via = kind, detail, node, via

    def text(self):
        v = f' (through {" -> ".join(self.via)})' if self.via else ''
        return f'{self.kind}: {self.detail}{v}'


def memo_deco(f):
    for d in getattr(f, 'decorator_list', []):
        e = d.func if isinstance(d, ast.Call) else d
        try:
            nm = unparse(e)
        except Exception:
            continue
        if nm in MEMO_DECOS:
            return nm
    return None


def memoised_functions(prog):
    for m in prog.pkg_modules():
        for q, f in m.funcs.items():
            d = memo_deco(f)
            if d:
                yield m, q, f, d


def _written_options(prog):
    """option names assigned as ``options.args().X = ..`` / ``args.X = ..``
    with args bound to options.args() anywhere outside options.py"""
    res = {}
    for m in prog.pkg_modules():
        if m.name == 'options':
            continue
        for st in ast.walk(m.tree):
            tg = []
            if isinstance(st, ast.Assign):
                tg = st.targets
            elif isinstance(st, ast.AugAssign):
                tg = [st.target]
            for t in tg:
                if isinstance(t, ast.Attribute) and isinstance(
                        t.value, ast.Call) and (call_name(t.value) or ''
                                                ).endswith('options.args'):
                    res.setdefault(t.attr, []).append((m, st))
    return res


def _runtime_written_globals(prog):
    """(module name, global) -> writer qualnames, for globals rebound or
    mutated by a function that runs while a reduction is in progress"""
    from .callgraph import CallGraph
    cg = CallGraph(prog)
    roots = [k for k in cg.funcs if (k[0].startswith('strategy_')
                                     and k[1].split('.')[-1] in (
                                         'reduce', 'run', 'check',
                                         'generate'))
             or (k[0] == 'checker' and k[1] in ('check', 'check_exprs'))]
    reach, _ = cg.reachable(roots)
    res = {}
    for (mn, q) in reach:
        m, f = cg.funcs[(mn, q)]
        decl = {n for x in walk_no_nested(f) if isinstance(x, ast.Global)
                for n in x.names}
        for st in walk_no_nested(f):
            tg = []
            if isinstance(st, ast.Assign):
                tg = st.targets
            elif isinstance(st, ast.AugAssign):
                tg = [st.target]
            for t in tg:
                if isinstance(t, ast.Name) and t.id in decl:
                    res.setdefault((mn, t.id), set()).add(q)
                if isinstance(t, ast.Subscript) and isinstance(
                        t.value, ast.Name) and t.value.id in m.globals:
                    res.setdefault((mn, t.value.id), set()).add(q)
            if isinstance(st, ast.Expr) and isinstance(
                    st.value, ast.Call) and isinstance(
                        st.value.func, ast.Attribute) and \
                    st.value.func.attr in MUTATORS and isinstance(
                        st.value.func.value, ast.Name) and \
                    st.value.func.value.id in m.globals:
                res.setdefault((mn, st.value.func.value.id), set()).add(q)
    return res


def _mutable_result(f):
    for r in walk_no_nested(f):
        if isinstance(r, ast.Return) and r.value is not None:
            v = r.value
            if isinstance(v, (ast.Dict, ast.List, ast.Set, ast.DictComp,
                              ast.ListComp, ast.SetComp)) or (
                    isinstance(v, ast.Call) and (call_name(v) or '') in (
                        'dict', 'list', 'set', 'collections.OrderedDict',
                        'collections.defaultdict')):
                return True
            if isinstance(v, ast.Name):
                for st in walk_no_nested(f):
                    if isinstance(st, ast.Assign) and any(
                            isinstance(t, ast.Name) and t.id == v.id
                            for t in st.targets) and isinstance(
                                st.value, (ast.Dict, ast.List, ast.Set,
                                           ast.DictComp, ast.ListComp,
                                           ast.SetComp)):
                        return True
    return False


def _chain_root(e):
    while isinstance(e, (ast.Attribute, ast.Subscript)):
        e = e.value
    return e


def _result_mutations(prog, m, f):
    """(module, function, node, text) for every place where a caller
    modifies the value a call of f returned"""
    if not _mutable_result(f):
        return []
    out = []
    fname = f.name
    for cm in prog.pkg_modules():
        for q2, g in cm.funcs.items():
            holders = set()
            for st in walk_no_nested(g):
                if isinstance(st, ast.Assign) and isinstance(
                        st.value, ast.Call):
                    fn = st.value.func
                    nm = fn.id if isinstance(fn, ast.Name) else (
                        fn.attr if isinstance(fn, ast.Attribute) else None)
                    if nm == fname:
                        for t in st.targets:
                            if isinstance(t, ast.Name):
                                holders.add(t.id)

            def is_result(root):
                if isinstance(root, ast.Call):
                    fn = root.func
                    nm = fn.id if isinstance(fn, ast.Name) else (
                        fn.attr if isinstance(fn, ast.Attribute) else None)
                    return nm == fname
                return isinstance(root, ast.Name) and root.id in holders

            for x in walk_no_nested(g):
                if isinstance(x, ast.Call) and isinstance(
                        x.func, ast.Attribute) and x.func.attr in MUTATORS \
                        and is_result(_chain_root(x.func.value)):
                    out.append((cm, g, x, f'"{unparse(x)[:50]}"'))
                tg = []
                if isinstance(x, ast.Assign):
                    tg = x.targets
                elif isinstance(x, ast.AugAssign):
                    tg = [x.target]
                elif isinstance(x, ast.Delete):
                    tg = x.targets
                for t in tg:
                    if isinstance(t, ast.Subscript) and is_result(
                            _chain_root(t)):
                        out.append((cm, g, x, f'"{unparse(x)[:50]}"'))
    return out


def _class_has_eq(prog, m, f):
    cls = getattr(f, '_class', None)
    if cls is None:
        return False
    return any(isinstance(x, ast.FunctionDef) and x.name == '__eq__'
               for x in cls.body)


def findings(prog, only=None, wopts=None, wglob=None):
    if wopts is None:
        wopts = _written_options(prog)
    if wglob is None:
        try:
            wglob = _runtime_written_globals(prog)
        except AnalysisError:
            wglob = {}
    out = []
    todo = list(memoised_functions(prog)) if only is None else [
        (only, q, f, memo_deco(f)) for q, f in only.funcs.items()
        if memo_deco(f)]
    for m, q, f, deco in todo:
        seen = set()

        def scan(mm, ff, via, depth):
            if id(ff) in seen:
                return
            seen.add(id(ff))
            local = {a.arg for a in ff.args.args + ff.args.kwonlyargs}
            for x in walk_no_nested(ff):
                if isinstance(x, ast.Name) and isinstance(
                        x.ctx, ast.Store):
                    local.add(x.id)
            # local names bound to the option namespace
            optalias = {t.id for st in walk_no_nested(ff)
                        if isinstance(st, ast.Assign) and isinstance(
                            st.value, ast.Call) and (call_name(st.value)
                                                     or '').endswith(
                                                         'options.args')
                        for t in st.targets if isinstance(t, ast.Name)}
            for x in walk_no_nested(ff):
                if isinstance(x, ast.Call):
                    nm = call_name(x) or ''
                    if nm in IDENTITY:
                        out.append(Finding(m, q, f, deco, 'identity',
                                           f'{nm}()', x, via))
                    elif nm.startswith(CLOCK_PREFIX):
                        out.append(Finding(m, q, f, deco, 'clock',
                                           f'{nm}()', x, via))
                    elif depth < 3 and isinstance(x.func, (ast.Name,
                                                           ast.Attribute)):
                        try:
                            r = prog.resolve_expr(mm, x.func)
                        except Exception:
                            r = None
                        if r and r[0] == 'func' and (r[1].name,
                                                      r[2]) == ('options',
                                                                'args'):
                            r = None  # the accessor; see kind "option"
                        if r and r[0] == 'func':
                            g = r[1].funcs.get(r[2])
                            if g is not None and not memo_deco(g):
                                scan(r[1], g, via + [f'{r[1].name}.{r[2]}'],
                                     depth + 1)
                alias = isinstance(x, ast.Attribute) and isinstance(
                    x.value, ast.Name) and x.value.id in optalias
                if isinstance(x, ast.Attribute) and (alias or (isinstance(
                        x.value, ast.Call) and (call_name(x.value) or ''
                                                ).endswith('options.args'))) \
                        and isinstance(x.ctx, ast.Load) and x.attr in wopts:
                    wm, wst = wopts[x.attr][0]
                    out.append(Finding(
                        m, q, f, deco, 'option',
                        f'options.args().{x.attr} (assigned at '
                        f'{wm.loc(wst)})', x, via))
                if isinstance(x, ast.Name) and isinstance(
                        x.ctx, ast.Load) and x.id not in local and (
                            mm.name, x.id) in wglob:
                    out.append(Finding(
                        m, q, f, deco, 'global',
                        f'{mm.name}.{x.id} (rewritten by '
                        f'{sorted(wglob[(mm.name, x.id)])[0]})', x, via))

        scan(m, f, [], 0)
        # the cached value is a mutable container and a caller modifies it:
        # every later caller gets the modified object
        for (cm, cf, node, how) in _result_mutations(prog, m, f) \
                if only is None else []:
            out.append(Finding(
                m, q, f, deco, 'shared',
                f'the cached container is modified by a caller ({how} at '
                f'{cm.loc(node)}): all later callers see the change',
                node, []))
        # the cached value is (or contains) a newly built object of a class
        # of the package, or of a class chosen dynamically: one instance for
        # all callers
        if only is None:
            for r in walk_no_nested(f):
                if not (isinstance(r, ast.Return) and r.value is not None):
                    continue
                for c in ast.walk(r.value):
                    if not isinstance(c, ast.Call):
                        continue
                    dyn = isinstance(c.func, ast.Call) and (
                        call_name(c.func) or '') == 'getattr'
                    cls_ = False
                    if isinstance(c.func, ast.Name):
                        try:
                            rr = prog.resolve_name(m, c.func.id)
                        except Exception:
                            rr = None
                        cls_ = bool(rr and rr[0] == 'class')
                    if dyn or cls_:
                        out.append(Finding(
                            m, q, f, deco, 'shared',
                            f'"{unparse(c)[:40]}" builds an object that the '
                            'table hands to every caller: what one caller '
                            'sets on it (a mutator configured for one pass) '
                            'is seen by all others', c, []))
        # structural key vs identity read
        if _class_has_eq(prog, m, f) and f.args.args and deco not in (
                'functools.cached_property', 'cached_property'):
            ids = [x for x in walk_no_nested(f) if isinstance(
                x, ast.Attribute) and x.attr == 'id' and isinstance(
                    x.ctx, ast.Load)]
            if ids:
                out.append(Finding(
                    m, q, f, deco, 'structural',
                    f'the key compares with {f._class.name}.__eq__ '
                    'while the value contains .id', ids[0], []))
    return out


def report(chk, prog, rule_id, what, keep, consequence):
    """Shared rule body: every memoised function selected by ``keep(m, q)``
    depends only on its key.  Counts the memoised functions seen so that the
    rule is not vacuous by accident (0 is the confirmed count on the pinned
    tree: the positive example is the fixture)."""
    _self_check(prog)
    fs = findings(prog)
    n = 0
    for m, q, f, deco in memoised_functions(prog):
        if not keep(m, q):
            continue
        n += 1
        mine = [x for x in fs if x.func is f]
        chk.check(rule_id, f'{m.name}.{q}', f'@{deco} on {q}', not mine,
                  f'{q} is memoised with @{deco} but its value is not '
                  'determined by the cache key: '
                  + '; '.join(sorted({x.text() for x in mine}))[:400]
                  + f' -- {consequence}', loc=m.loc(f), nontrivial=True)
    chk.instance(rule_id, 'scope', f'{n} memoised function(s) in scope of '
                 f'{what}; fixture: 4 planted impure memoisations detected, '
                 '3 pure ones accepted', True,
                 'zero-count rule with positive example')
    return n


def _self_check(prog):
    import os
    from .loader import Module
    fx = os.path.join(os.path.dirname(os.path.dirname(os.path.abspath(
        __file__))), 'fixtures', 'memo_purity.py')
    if not os.path.isfile(fx):
        raise AnalysisError('fixture fixtures/memo_purity.py missing')
    fm = Module('fixture', fx, open(fx).read())

    class W:
        def loc(self, st):
            return 'fixture'

    got = {}
    for x in findings(prog, only=fm, wopts={'timeout': [(W(), None)],
                                           'timeout_cc': [(W(), None)]},
                      wglob={}):
        got.setdefault(x.qual, set()).add(x.kind)
    want = {'bad_pid_name': {'identity'}, 'bad_option': {'option'},
            'bad_clock_through_helper': {'clock'},
            'Thing.bad_structural': {'structural'}}
    if got != want:
        raise AnalysisError(f'memoisation self-check: fixture judged {got}')
