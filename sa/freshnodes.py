"""The reader allocates one node object per position.

The first input handed to a strategy comes straight from the parser;
nothing re-duplicates it before the first round.  A node object that the
parser creates once and places at several positions (a shared ``()``, an
interned leaf, a module-level constant) gives those positions the same
identity: an identity-keyed simplification aimed at one of them rewrites the
first in pre-order.

Checked in nodeio.parse_smtlib (after normalisation): every name that holds
the result of a ``Node(..)`` construction and is read inside the scanning
loop is also bound inside that loop (so every iteration creates its own
object); no module-level ``Node(..)`` constant is read by the parser; no
memoising decorator / dict cache returns node objects there.
"""
import ast

from .astutil import call_name, walk_no_nested
from .loader import AnalysisError, unparse


def _has_node_ctor(e):
    return any(isinstance(x, ast.Call) and (call_name(x) or '').split('.')[-1]
               == 'Node' for x in ast.walk(e))


def findings(prog, modname='nodeio', fname='parse_smtlib'):
    m = prog.mod(modname)
    f = m.func(fname)
    loops = [x for x in walk_no_nested(f) if isinstance(x, (ast.While,
                                                            ast.For))]
    if not loops:
        raise AnalysisError(f'{modname}.{fname}: no scanning loop found')
    inloop = set()
    for lp in loops:
        for x in ast.walk(lp):
            inloop.add(id(x))
    out = []
    nctor = sum(1 for x in ast.walk(f) if isinstance(x, ast.Call) and (
        call_name(x) or '').split('.')[-1] == 'Node')
    # names bound to a node construction
    binds = {}
    for st in walk_no_nested(f):
        if isinstance(st, ast.Assign) and _has_node_ctor(st.value):
            for t in st.targets:
                if isinstance(t, ast.Name):
                    binds.setdefault(t.id, []).append(st)
    for name, sts in binds.items():
        outside = [s for s in sts if id(s) not in inloop]
        if not outside:
            continue
        reads = [x for lp in loops for x in ast.walk(lp)
                 if isinstance(x, ast.Name) and x.id == name
                 and isinstance(x.ctx, ast.Load)]
        if reads:
            out.append((m, f, outside[0],
                        f'"{unparse(outside[0])[:50]}" creates one node '
                        f'before the scanning loop and "{name}" is placed '
                        f'into the result inside it (line {reads[0].lineno})'
                        ': every such position is the same object with the '
                        'same id'))
    # module-level node constants read by the parser
    for x in walk_no_nested(f):
        if isinstance(x, ast.Name) and isinstance(x.ctx, ast.Load) and \
                x.id in m.globals and x.id not in binds:
            vals = m.globals[x.id]
            if any(isinstance(v, ast.AST) and _has_node_ctor(v)
                   for v in vals):
                out.append((m, f, x,
                            f'the module-level node "{x.id}" is placed into '
                            'the parsed input: every such position is the '
                            'same object with the same id'))
    return out, nctor


def report(chk, prog, rule_id, title, consequence):
    chk.rule(rule_id, title)
    fs, n = findings(prog)
    for (m, f, st, text) in fs:
        chk.check(rule_id, f'{m.name}.{f.name}', st, False,
                  text + ' -- ' + consequence, loc=m.loc(st),
                  nontrivial=True)
    from . import memo
    for mm, q, g, deco in memo.memoised_functions(prog):
        if mm.name in ('nodes', 'nodeio') and any(
                isinstance(r, ast.Return) and r.value is not None
                and _has_node_ctor(r.value) for r in ast.walk(g)):
            chk.check(rule_id, f'{mm.name}.{q}', f'@{deco}', False,
                      f'{q} returns a node and is memoised with @{deco}: '
                      'equal arguments give the same object, hence the same '
                      'id at several positions -- ' + consequence,
                      loc=mm.loc(g), nontrivial=True)
    chk.instance(rule_id, 'nodeio.parse_smtlib', f'{n} node constructions '
                 'of the reader examined', not fs, 'each is evaluated per '
                 'position', nontrivial=True)
    if n < 2:
        raise AnalysisError(f'{rule_id}: only {n} node constructions found '
                            'in the reader')
