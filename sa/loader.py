"""E1: loader / program model.

Parses every non-test module of the ddSMT working tree (never imports it)
and offers name resolution the way Python would do it for this repository's
import idioms (module aliases, from-imports, ``from .smtlib import *``).
"""
import ast
import builtins
import configparser
import os

REPO = os.environ.get('VERIF_REPO', '/repo')


class AnalysisError(Exception):
    """The analysis cannot give a verdict (anchor vanished, construct outside
    the modelled idioms, instance floor not reached).  Mapped to exit 2."""


BUILTINS = set(dir(builtins))


def unparse(node):
    if node is None:
        return 'None'
    return ast.unparse(node)


class Module:

    def __init__(self, name, path, src, records=None, tree=None):
        self.name = name  # 'nodes', 'smtlib', 'bin/ddsmt'
        self.path = path
        self.src = src
        self.lines = src.splitlines()
        if tree is not None:
            self.tree = tree
        else:
            try:
                self.tree = ast.parse(src, filename=path)
            except SyntaxError as e:
                raise AnalysisError(f'{path} does not parse: {e}')
        # calls of private helpers that did not exist on the pinned tree
        # are replaced by the helper's body (sa/inline.py)
        self.inline_notes = []
        if not name.startswith(('bin/', 'tests')) and not os.environ.get(
                'VERIF_NO_INLINE'):
            from .inline import inline_new_helpers
            self.tree, self.inline_notes = inline_new_helpers(
                self.tree, name, records)
        # parent links
        for parent in ast.walk(self.tree):
            for child in ast.iter_child_nodes(parent):
                child._parent = parent
        self.tree._parent = None
        self.funcs = {}  # qualname -> FunctionDef
        self.classes = {}  # name -> ClassDef
        self.imports = {}  # local name -> ('module', dotted) | ('symbol', dotted_module, name)
        self.star = []  # dotted module names star-imported
        self.globals = {}  # top-level assigned names -> list of value nodes
        self._index()

    def rel(self):
        return os.path.relpath(self.path, REPO)

    def loc(self, node):
        return f'{self.rel()}:{getattr(node, "lineno", 0)}'

    def _index(self):
        pkg = 'ddsmt'

        def absmod(level, module):
            if level == 0:
                return module or ''
            base = pkg
            if module:
                return f'{base}.{module}'
            return base

        def visit_body(body, prefix, cls):
            for st in body:
                if isinstance(st, (ast.FunctionDef, ast.AsyncFunctionDef)):
                    q = f'{prefix}{st.name}'
                    self.funcs[q] = st
                    st._qualname = q
                    st._class = cls
                    st._module = self
                    visit_body(st.body, q + '.<locals>.', None)
                elif isinstance(st, ast.ClassDef):
                    if not prefix:
                        self.classes[st.name] = st
                    st._module = self
                    visit_body(st.body, f'{prefix}{st.name}.', st)
                elif isinstance(st, (ast.If, ast.Try, ast.With, ast.For,
                                     ast.While)):
                    for fld in ('body', 'orelse', 'finalbody'):
                        visit_body(getattr(st, fld, []) or [], prefix, cls)
                    for h in getattr(st, 'handlers', []) or []:
                        visit_body(h.body, prefix, cls)

        visit_body(self.tree.body, '', None)

        def top_stmts(body):
            for st in body:
                yield st
                if isinstance(st, (ast.If, ast.Try, ast.With)):
                    for fld in ('body', 'orelse', 'finalbody'):
                        yield from top_stmts(getattr(st, fld, []) or [])
                    for h in getattr(st, 'handlers', []) or []:
                        yield from top_stmts(h.body)

        for st in top_stmts(self.tree.body):
            if isinstance(st, ast.Import):
                for a in st.names:
                    local = a.asname or a.name.split('.')[0]
                    target = a.name if a.asname else a.name.split('.')[0]
                    self.imports[local] = ('module', target)
            elif isinstance(st, ast.ImportFrom):
                m = absmod(st.level, st.module)
                for a in st.names:
                    if a.name == '*':
                        self.star.append(m)
                        continue
                    local = a.asname or a.name
                    self.imports[local] = ('from', m, a.name)
            elif isinstance(st, ast.Assign):
                for t in st.targets:
                    for n in ast.walk(t):
                        if isinstance(n, ast.Name):
                            self.globals.setdefault(n.id, []).append(st.value)
            elif isinstance(st, ast.AugAssign):
                if isinstance(st.target, ast.Name):
                    self.globals.setdefault(st.target.id, []).append(st.value)

    def func(self, qualname):
        if qualname not in self.funcs:
            raise AnalysisError(
                f'anchor vanished: function {self.name}.{qualname} not found '
                f'in {self.rel()}')
        return self.funcs[qualname]

    def cls(self, name):
        if name not in self.classes:
            raise AnalysisError(
                f'anchor vanished: class {self.name}.{name} not found in '
                f'{self.rel()}')
        return self.classes[name]

    def public_names(self):
        """Names exported by ``from <self> import *`` (no __all__ in repo)."""
        if '__all__' in self.globals:
            raise AnalysisError(f'{self.rel()} defines __all__: star-import '
                                'model needs an update')
        names = set()
        for q in self.funcs:
            if '.' not in q:
                names.add(q)
        names.update(self.classes)
        names.update(self.globals)
        names.update(self.imports)
        return {n for n in names if not n.startswith('_')}

    def methods(self, clsname):
        pre = clsname + '.'
        return {
            q[len(pre):]: f
            for q, f in self.funcs.items()
            if q.startswith(pre) and '.' not in q[len(pre):]
        }


PINNED_MODULES = {
    '__init__', '__main__', 'argparsemod', 'checker', 'cli', 'debug_utils',
    'mutator_utils', 'mutators', 'mutators_arithmetic', 'mutators_boolean',
    'mutators_bv', 'mutators_core', 'mutators_datatypes', 'mutators_fp',
    'mutators_smtlib', 'mutators_strings', 'nodeio', 'nodes', 'options',
    'progress', 'smtlib', 'strategy_ddmin', 'strategy_hierarchical',
    'tmpfiles', 'version'}


class Program:

    PKG_FILES_MIN = 20

    def __init__(self, root=None):
        self.root = root or REPO
        self.modules = {}
        pkgdir = os.path.join(self.root, 'ddsmt')
        if not os.path.isdir(pkgdir):
            raise AnalysisError(f'{pkgdir} is not a directory')
        srcs = {}
        for fn in sorted(os.listdir(pkgdir)):
            if fn.endswith('.py'):
                srcs[fn] = open(os.path.join(pkgdir, fn)).read()
        records = None
        if not os.environ.get('VERIF_NO_INLINE'):
            from .inline import new_records
            records = new_records(list(srcs.values()))
        self.new_records = records or {}
        # private modules that did not exist on the pinned tree and are
        # imported back by name (``from ._consts import is_int_const, ..``):
        # their top-level statements are spliced in where the import stands,
        # so that a function that merely moved is analysed where it was
        trees = {}
        for fn in sorted(srcs):
            try:
                trees[fn[:-3]] = ast.parse(srcs[fn], filename=os.path.join(
                    pkgdir, fn))
            except SyntaxError as e:
                raise AnalysisError(f'{fn} does not parse: {e}')
        self.spliced = {}
        if not os.environ.get('VERIF_NO_INLINE'):
            newmods = {n for n in trees if n.startswith('_')
                       and not n.startswith('__') and n not in PINNED_MODULES}
            for name, t in trees.items():
                if name in newmods:
                    continue
                i = 0
                while i < len(t.body):
                    st = t.body[i]
                    if isinstance(st, ast.ImportFrom) and st.level == 1 and \
                            st.module in newmods and not any(
                                a.asname for a in st.names):
                        import copy
                        body = [copy.deepcopy(x) for x in trees[
                            st.module].body if not (
                                isinstance(x, ast.Expr) and isinstance(
                                    x.value, ast.Constant))
                            and not (isinstance(x, ast.ImportFrom)
                                     and x.level == 1
                                     and x.module == name)]
                        t.body[i:i + 1] = body
                        self.spliced.setdefault(name, []).append(st.module)
                        i += len(body)
                        continue
                    i += 1
        for fn in sorted(srcs):
            p = os.path.join(pkgdir, fn)
            name = fn[:-3]
            self.modules[name] = Module(name, p, srcs[fn], records,
                                        tree=trees[name])
        for fn in ('ddsmt', 'ddsmt-profile', 'smt2info'):
            p = os.path.join(self.root, 'bin', fn)
            if os.path.isfile(p):
                self.modules['bin/' + fn] = Module('bin/' + fn, p,
                                                   open(p).read())
        if len(self.modules) < self.PKG_FILES_MIN:
            raise AnalysisError(
                f'only {len(self.modules)} modules found under {self.root}')
        self.entry_points = self._entry_points()

    def _entry_points(self):
        cfg = configparser.ConfigParser()
        p = os.path.join(self.root, 'setup.cfg')
        res = {'console_scripts': {}, 'scripts': []}
        if os.path.isfile(p):
            cfg.read(p)
            if cfg.has_option('options.entry_points', 'console_scripts'):
                for line in cfg.get('options.entry_points',
                                    'console_scripts').splitlines():
                    if '=' in line:
                        k, v = line.split('=', 1)
                        res['console_scripts'][k.strip()] = v.strip()
            if cfg.has_option('options', 'scripts'):
                res['scripts'] = [
                    s.strip()
                    for s in cfg.get('options', 'scripts').splitlines()
                    if s.strip()
                ]
        return res

    def mod(self, name):
        if name not in self.modules:
            raise AnalysisError(f'anchor vanished: module {name} not found')
        return self.modules[name]

    def pkg_modules(self):
        return [m for n, m in self.modules.items() if not n.startswith('bin/')]

    def _mod_from_dotted(self, dotted):
        if dotted == 'ddsmt':
            return 'pkg'
        if dotted.startswith('ddsmt.'):
            n = dotted[len('ddsmt.'):]
            if n in self.modules:
                return self.modules[n]
        return None

    # ----------------------------------------------------------------- names
    def resolve_name(self, mod, name, _seen=None):
        """Resolve a bare name used in ``mod`` at module scope.

        Returns one of
          ('func', Module, qualname) ('class', Module, name)
          ('global', Module, name)   ('module', Module)
          ('ext', dotted)            ('builtin', name)   None
        """
        _seen = _seen or set()
        key = (mod.name, name)
        if key in _seen:
            return None
        _seen.add(key)
        if name in mod.funcs:
            return ('func', mod, name)
        if name in mod.classes:
            return ('class', mod, name)
        if name in mod.imports:
            imp = mod.imports[name]
            if imp[0] == 'module':
                m = self._mod_from_dotted(imp[1])
                if isinstance(m, Module):
                    return ('module', m)
                return ('ext', imp[1])
            _, dotted, sym = imp
            if dotted == 'ddsmt':
                if sym in self.modules:
                    return ('module', self.modules[sym])
                return None
            m = self._mod_from_dotted(dotted)
            if isinstance(m, Module):
                return self.resolve_name(m, sym, _seen)
            return ('ext', f'{dotted}.{sym}')
        if name in mod.globals:
            return ('global', mod, name)
        for dotted in mod.star:
            m = self._mod_from_dotted(dotted)
            if isinstance(m, Module) and name in m.public_names():
                r = self.resolve_name(m, name, _seen)
                if r:
                    return r
        if name in BUILTINS:
            return ('builtin', name)
        return None

    def resolve_expr(self, mod, expr):
        """Resolve a Name / dotted Attribute chain at module scope."""
        if isinstance(expr, ast.Name):
            return self.resolve_name(mod, expr.id)
        if isinstance(expr, ast.Attribute):
            base = self.resolve_expr(mod, expr.value)
            if base is None:
                return None
            if base[0] == 'module':
                m = base[1]
                # attribute of one of our modules: a top-level binding
                r = self.resolve_name(m, expr.attr)
                return r
            if base[0] == 'ext':
                return ('ext', f'{base[1]}.{expr.attr}')
            if base[0] == 'class':
                m, c = base[1], base[2]
                q = f'{c}.{expr.attr}'
                if q in m.funcs:
                    return ('func', m, q)
                return ('classattr', m, c, expr.attr)
        return None


def enclosing_function(node):
    n = getattr(node, '_parent', None)
    while n is not None:
        if isinstance(n, (ast.FunctionDef, ast.AsyncFunctionDef, ast.Lambda)):
            return n
        n = getattr(n, '_parent', None)
    return None


def enclosing_class(node):
    n = getattr(node, '_parent', None)
    while n is not None:
        if isinstance(n, ast.ClassDef):
            return n
        n = getattr(n, '_parent', None)
    return None


def enclosing_stmt(node):
    n = node
    while n is not None and not isinstance(n, ast.stmt):
        n = getattr(n, '_parent', None)
    return n


def ancestors(node):
    n = getattr(node, '_parent', None)
    while n is not None:
        yield n
        n = getattr(n, '_parent', None)


def mangle(clsname, attr):
    """Python's private name mangling."""
    if attr.startswith('__') and not attr.endswith('__'):
        return f'_{clsname.lstrip("_")}{attr}'
    return attr
