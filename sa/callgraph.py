"""E2: resolved call graph with the repository-specific dynamic idioms.

Edges carry the call site.  Resolution: names / module attributes through
the loader; self.m(); constructor calls (-> __init__); methods on locals
whose class is known from a constructor assignment; class-hierarchy
analysis by method name as fall-back (flagged approximate); and three
repository idioms: registry dispatch (theory.is_relevant / protocol methods
on pass elements), pool dispatch (imap_unordered(f, it): f runs in a child,
``it.__next__`` / the generator body runs in the parent), iteration over a
TaskGenerator.
"""
import ast

from .astutil import call_name, walk_no_nested
from .loader import unparse

PROTOCOL = ('filter', 'mutations', 'global_mutations')


class Edge:
    __slots__ = ('caller', 'callee', 'call', 'mod', 'kind', 'guarded')

    def __init__(self, caller, callee, call, mod, kind, guarded):
        self.caller = caller  # (modname, qualname)
        self.callee = callee
        self.call = call
        self.mod = mod
        self.kind = kind  # direct method ctor cha registry pool iter
        self.guarded = guarded  # inside try/except Exception in the caller


def in_guarded_try(node, func):
    """Is ``node`` lexically inside the body of a try statement of ``func``
    that has a handler for Exception / BaseException / everything which does
    not re-raise or exit?"""
    child = node
    p = getattr(node, '_parent', None)
    while p is not None and p is not func:
        if isinstance(p, ast.Try) and any(child is s or child in list(
                ast.walk(s)) for s in p.body):
            for h in p.handlers:
                if catches_all(h) and not handler_escapes(h):
                    return True
        child = p
        p = getattr(p, '_parent', None)
    return False


def catches_all(h):
    if h.type is None:
        return True
    names = [x.id for x in ast.walk(h.type) if isinstance(x, ast.Name)]
    return any(n in ('Exception', 'BaseException') for n in names)


def handler_escapes(h):
    for s in ast.walk(h):
        if isinstance(s, ast.Raise):
            return True
        if isinstance(s, ast.Call) and call_name(s) in ('sys.exit', 'exit',
                                                        'os._exit', 'quit'):
            return True
    return False


class CallGraph:

    def __init__(self, prog):
        self.prog = prog
        self.funcs = {}
        for m in prog.pkg_modules():
            for q, f in m.funcs.items():
                if '<locals>' in q:
                    continue
                self.funcs[(m.name, q)] = (m, f)
        self.by_method = {}
        for (mn, q), (m, f) in self.funcs.items():
            if '.' in q:
                self.by_method.setdefault(q.split('.')[-1], []).append(
                    (mn, q))
        self.edges = []
        self.out = {}
        self.unresolved = []
        self.resolved = 0
        self._build()

    def _add(self, caller, callee, call, mod, kind, func):
        if callee not in self.funcs:
            return
        e = Edge(caller, callee, call, mod, kind,
                 in_guarded_try(call, func))
        self.edges.append(e)
        self.out.setdefault(caller, []).append(e)

    def _local_types(self, m, f):
        """local name -> (modname, classname) from ``x = Class(...)``"""
        res = {}
        for st in walk_no_nested(f):
            if isinstance(st, ast.Assign) and isinstance(
                    st.value, ast.Call) and isinstance(
                        st.value.func, (ast.Name, ast.Attribute)):
                r = None
                try:
                    r = self.prog.resolve_expr(m, st.value.func)
                except Exception:
                    pass
                if r and r[0] == 'class':
                    for t in st.targets:
                        if isinstance(t, ast.Name):
                            res[t.id] = (r[1].name, r[2])
        return res

    def _build(self):
        prog = self.prog
        for (mn, q), (m, f) in self.funcs.items():
            caller = (mn, q)
            cls = f._class.name if getattr(f, '_class', None) else None
            ltypes = self._local_types(m, f)
            fvars = {}
            for st in walk_no_nested(f):
                if isinstance(st, ast.Assign) and len(
                        st.targets) == 1 and isinstance(
                            st.targets[0], ast.Name):
                    v = st.value
                    alts = [v.body, v.orelse] if isinstance(
                        v, ast.IfExp) else [v]
                    tg = []
                    for a in alts:
                        if isinstance(a, (ast.Name, ast.Attribute)):
                            try:
                                ra = prog.resolve_expr(m, a)
                            except Exception:
                                ra = None
                            if ra and ra[0] == 'func':
                                tg.append((ra[1].name, ra[2]))
                    if tg and len(tg) == len(alts):
                        fvars[st.targets[0].id] = tg
            for c in walk_no_nested(f):
                # iteration over a TaskGenerator instance
                if isinstance(c, ast.For) and isinstance(c.iter, ast.Name):
                    t = ltypes.get(c.iter.id)
                    if t is None and c.iter.id == 'taskgen':
                        t = ('strategy_ddmin', 'TaskGenerator')
                    if t:
                        self._add(caller, (t[0], f'{t[1]}.__next__'), c, m,
                                  'iter', f)
                if not isinstance(c, ast.Call):
                    continue
                fn = c.func
                done = False
                # function references passed as arguments (map(f, xs),
                # nodes.contains(node, is_bv_sort), filter(lambda ...))
                for a in list(c.args) + [k.value for k in c.keywords]:
                    if isinstance(a, (ast.Name, ast.Attribute)):
                        try:
                            ra = prog.resolve_expr(m, a)
                        except Exception:
                            ra = None
                        if ra and ra[0] == 'func':
                            self._add(caller, (ra[1].name, ra[2]), c, m,
                                      'ref', f)
                # call through a local bound to function names
                if isinstance(fn, ast.Name) and fn.id in fvars:
                    for tgt in fvars[fn.id]:
                        self._add(caller, tgt, c, m, 'direct', f)
                    self.resolved += 1
                    continue
                if isinstance(fn, ast.Name) or (isinstance(fn, ast.Attribute)
                                                and not (isinstance(
                                                    fn.value, ast.Name) and
                                                    fn.value.id == 'self')):
                    r = None
                    try:
                        r = prog.resolve_expr(m, fn)
                    except Exception:
                        r = None
                    if r and r[0] == 'func':
                        self._add(caller, (r[1].name, r[2]), c, m, 'direct',
                                  f)
                        done = True
                    elif r and r[0] == 'class':
                        self._add(caller, (r[1].name, f'{r[2]}.__init__'), c,
                                  m, 'ctor', f)
                        done = True
                    elif r and r[0] in ('ext', 'builtin'):
                        done = True
                        nm = call_name(c) or ''
                        # pool dispatch
                        if isinstance(fn, ast.Attribute) and fn.attr in (
                                'imap_unordered', 'imap', 'map') and len(
                                    c.args) == 2:
                            self._pool(caller, c, m, f, ltypes, cls)
                if done:
                    self.resolved += 1
                    continue
                if isinstance(fn, ast.Attribute):
                    if isinstance(fn.value, ast.Name) and \
                            fn.value.id == 'self' and cls:
                        tq = f'{cls}.{fn.attr}'
                        if (mn, tq) in self.funcs:
                            self._add(caller, (mn, tq), c, m, 'method', f)
                            self.resolved += 1
                            continue
                    if fn.attr in ('imap_unordered', 'imap') and len(
                            c.args) == 2:
                        self._pool(caller, c, m, f, ltypes, cls)
                        self.resolved += 1
                        continue
                    if isinstance(fn.value, ast.Name) and \
                            fn.value.id in ltypes:
                        t = ltypes[fn.value.id]
                        if (t[0], f'{t[1]}.{fn.attr}') in self.funcs:
                            self._add(caller, (t[0], f'{t[1]}.{fn.attr}'),
                                      c, m, 'method', f)
                            self.resolved += 1
                            continue
                    # registry dispatch
                    if fn.attr == 'is_relevant':
                        for om in prog.pkg_modules():
                            if om.name.startswith('mutators_') and \
                                    'is_relevant' in om.funcs:
                                self._add(caller, (om.name, 'is_relevant'),
                                          c, m, 'registry', f)
                        self.resolved += 1
                        continue
                    if fn.attr in PROTOCOL:
                        for (tm, tq) in self.by_method.get(fn.attr, []):
                            if tm.startswith('mutators_'):
                                self._add(caller, (tm, tq), c, m, 'registry',
                                          f)
                        self.resolved += 1
                        continue
                    # CHA fall-back on program classes
                    cands = self.by_method.get(fn.attr, [])
                    if cands and fn.attr not in (
                            'append', 'extend', 'pop', 'add', 'update',
                            'get', 'items', 'values', 'keys', 'join',
                            'format', 'replace', 'startswith', 'endswith',
                            'write', 'read', 'set', 'clear', 'is_set',
                            'copy', 'index', 'insert', 'setdefault',
                            'split', 'strip', 'encode', 'decode', 'print',
                            'start', 'close', 'kill', 'communicate'):
                        for t in cands:
                            self._add(caller, t, c, m, 'cha', f)
                        self.resolved += 1
                        continue
                    if cands and fn.attr in ('update', 'start', 'print',
                                             'add', 'check'):
                        # taskgen.update / stats.add ... : receiver hints
                        recv = unparse(fn.value)
                        for t in cands:
                            cn = t[1].split('.')[0].lower()
                            if cn.startswith(recv.lower()[:4]) or \
                                    recv.lower()[:4] in cn:
                                self._add(caller, t, c, m, 'cha', f)
                        self.resolved += 1
                        continue
                self.unresolved.append((m, c))

    def _pool(self, caller, c, m, f, ltypes, cls):
        """pool.imap_unordered(fn, it): ``it`` is consumed in the parent."""
        fnarg, it = c.args
        # worker side: not part of the main-process zone
        # parent side: the iterable
        if isinstance(it, ast.Name):
            t = ltypes.get(it.id)
            if t is None and it.id == 'taskgen':
                t = ('strategy_ddmin', 'TaskGenerator')
            if t:
                self._add(caller, (t[0], f'{t[1]}.__next__'), c, m, 'pool',
                          f)
        elif isinstance(it, ast.Call) and isinstance(
                it.func, ast.Attribute) and isinstance(
                    it.func.value, ast.Name):
            t = ltypes.get(it.func.value.id)
            if t:
                self._add(caller, (t[0], f'{t[1]}.{it.func.attr}'), c, m,
                          'pool', f)

    def reachable(self, roots, follow=lambda e: True):
        seen = set(roots)
        stack = list(roots)
        via = {}
        while stack:
            n = stack.pop()
            for e in self.out.get(n, []):
                if not follow(e):
                    continue
                if e.callee not in seen:
                    seen.add(e.callee)
                    via[e.callee] = e
                    stack.append(e.callee)
        return seen, via
