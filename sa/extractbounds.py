"""Index bounds of ``extract`` operators a mutator puts onto another operand.

``((_ extract i j) t)`` is well-sorted only when ``j <= i < width(t)``.  A
mutator that re-targets an extract operator (re-uses the operator node of the
matched application on a different operand, or builds a new
``('_', 'extract', str(H), str(L))`` operator) therefore owes, at the
construction site, the facts ``H < width(T)`` and ``L <= H``.

The obligation is discharged from the *guard facts* of the site (CFG must-
facts, ``sa/cfg.facts_at``) by a difference-bound argument over linear
integer polynomials: every guard ``a < b`` / ``a <= b`` / ... between
polynomial expressions is a fact ``p >= 0``; the obligation ``q >= 0`` holds
when ``q`` minus a sum of at most two facts is a non-negative constant.
Symbols are ``width(T)`` (``get_bv_width(T)``), ``hi(X)`` / ``lo(X)``
(``get_indices(X, 'extract', 2)``) and opaque names; single-assignment
locals are expanded, so ``zpos = upper - bw; if zpos < 0`` is the same guard
as ``if upper < bw``.  Nothing is executed; no value is enumerated.

A guard the analysis cannot read (non-polynomial comparison) is dropped; if
an obligation then stays open the run ends in ANALYSIS-ERROR rather than in
a VIOLATION, because the dropped guard might have been the missing fact.
"""
import ast

from .astutil import call_name
from .cfg import facts_at
from .loader import AnalysisError, unparse, enclosing_function


def _single_defs(f):
    """name -> value expression, for names bound exactly once in f (plain
    assignment or tuple unpacking of get_indices)."""
    cnt, val = {}, {}
    for st in ast.walk(f):
        tgts = []
        if isinstance(st, ast.Assign):
            for t in st.targets:
                if isinstance(t, ast.Name):
                    tgts.append((t.id, st.value))
                elif isinstance(t, (ast.Tuple, ast.List)):
                    for i, e in enumerate(t.elts):
                        if isinstance(e, ast.Name):
                            tgts.append((e.id, ast.Subscript(
                                value=st.value,
                                slice=ast.Constant(value=i),
                                ctx=ast.Load())))
        elif isinstance(st, (ast.AugAssign, ast.AnnAssign)) and isinstance(
                st.target, ast.Name):
            tgts.append((st.target.id, None))
        elif isinstance(st, (ast.For, ast.comprehension)):
            for e in ast.walk(st.target):
                if isinstance(e, ast.Name):
                    tgts.append((e.id, None))
        elif isinstance(st, ast.NamedExpr):
            tgts.append((st.target.id, None))
        for n, v in tgts:
            cnt[n] = cnt.get(n, 0) + 1
            val[n] = v
    for a in f.args.args + f.args.kwonlyargs:
        cnt[a.arg] = cnt.get(a.arg, 0) + 2
    return {n: v for n, v in val.items() if cnt[n] == 1 and v is not None}


class _Expand(ast.NodeTransformer):
    def __init__(self, defs):
        self.defs = defs
        self.depth = 0

    def visit_Name(self, node):
        if isinstance(node.ctx, ast.Load) and node.id in self.defs \
                and self.depth < 8:
            self.depth += 1
            import copy
            r = self.visit(copy.deepcopy(self.defs[node.id]))
            self.depth -= 1
            return r
        return node


def _expand(e, defs):
    import copy
    return _Expand(defs).visit(copy.deepcopy(e))


def _sym(e):
    """Symbol of an (expanded) atom, or None."""
    if isinstance(e, ast.Call) and call_name(e) == 'get_bv_width' and len(
            e.args) == 1:
        return f'width({unparse(e.args[0])})'
    if isinstance(e, ast.Subscript) and isinstance(e.value, ast.Call) and \
            call_name(e.value) == 'get_indices' and len(
                e.value.args) >= 2 and isinstance(
                    e.value.args[1], ast.Constant) and \
            e.value.args[1].value == 'extract' and isinstance(
                e.slice, ast.Constant) and e.slice.value in (0, 1):
        return ('hi' if e.slice.value == 0 else 'lo') + \
            f'({unparse(e.value.args[0])})'
    if isinstance(e, ast.Name):
        return e.id
    if isinstance(e, (ast.Attribute, ast.Subscript, ast.Call)):
        return f'<{unparse(e)}>'
    return None


def _poly(e):
    if isinstance(e, ast.Constant) and isinstance(e.value, int) and \
            not isinstance(e.value, bool):
        return {(): e.value}
    if isinstance(e, ast.Call) and call_name(e) in ('int', 'str') and len(
            e.args) == 1:
        return _poly(e.args[0])
    if isinstance(e, ast.UnaryOp) and isinstance(e.op, ast.USub):
        return {k: -v for k, v in _poly(e.operand).items()}
    if isinstance(e, ast.BinOp) and isinstance(e.op, (ast.Add, ast.Sub)):
        a, b = _poly(e.left), _poly(e.right)
        sg = 1 if isinstance(e.op, ast.Add) else -1
        r = dict(a)
        for k, v in b.items():
            r[k] = r.get(k, 0) + sg * v
        return {k: v for k, v in r.items() if v}
    if isinstance(e, ast.BinOp) and isinstance(e.op, ast.Mult):
        a, b = _poly(e.left), _poly(e.right)
        r = {}
        for k1, v1 in a.items():
            for k2, v2 in b.items():
                k = tuple(sorted(k1 + k2))
                r[k] = r.get(k, 0) + v1 * v2
        return {k: v for k, v in r.items() if v}
    s = _sym(e)
    if s is None:
        raise ValueError(unparse(e))
    return {(s, ): 1}


def _sub(a, b, c=0):
    r = dict(a)
    for k, v in b.items():
        r[k] = r.get(k, 0) - v
    r[()] = r.get((), 0) + c
    return {k: v for k, v in r.items() if v}


def _pstr(p):
    if not p:
        return '0'
    return ' + '.join(
        (str(c) if not k else ('' if c == 1 else f'{c}*') + '*'.join(k))
        for k, c in sorted(p.items(), key=lambda kv: (len(kv[0]), kv[0])))


def _facts_of_test(t, pol, defs, out, dropped):
    """Append polynomials p (meaning p >= 0) implied by test t == pol."""
    if isinstance(t, ast.UnaryOp) and isinstance(t.op, ast.Not):
        return _facts_of_test(t.operand, not pol, defs, out, dropped)
    if isinstance(t, ast.BoolOp):
        if isinstance(t.op, ast.And) == pol:
            for v in t.values:
                _facts_of_test(v, pol, defs, out, dropped)
        return
    if not (isinstance(t, ast.Compare) and len(t.ops) == 1):
        return
    op = type(t.ops[0])
    if op not in (ast.Lt, ast.LtE, ast.Gt, ast.GtE, ast.Eq, ast.NotEq):
        return
    try:
        a = _poly(_expand(t.left, defs))
        b = _poly(_expand(t.comparators[0], defs))
    except ValueError:
        dropped.append(unparse(t))
        return
    if not pol:
        op = {ast.Lt: ast.GtE, ast.LtE: ast.Gt, ast.Gt: ast.LtE,
              ast.GtE: ast.Lt, ast.Eq: ast.NotEq, ast.NotEq: ast.Eq}[op]
    if op is ast.Lt:
        out.append(_sub(b, a, -1))
    elif op is ast.LtE:
        out.append(_sub(b, a))
    elif op is ast.Gt:
        out.append(_sub(a, b, -1))
    elif op is ast.GtE:
        out.append(_sub(a, b))
    elif op is ast.Eq:
        out.append(_sub(a, b))
        out.append(_sub(b, a))


def _entailed(q, facts):
    def nonneg_const(p):
        return all(k == () for k in p) and p.get((), 0) >= 0
    if nonneg_const(q):
        return True
    for i, p in enumerate(facts):
        r = _sub(q, p)
        if nonneg_const(r):
            return True
        for p2 in facts[i:]:
            if nonneg_const(_sub(r, p2)):
                return True
    return False


def _extract_sites(f, defs):
    """(site, hi-poly, lo-poly, operand expr, built?) for every pair
    (extract operator, operand) constructed in f."""
    idx_ops = set()
    for c in ast.walk(f):
        if isinstance(c, ast.Call) and call_name(c) == 'get_indices' and len(
                c.args) >= 2 and isinstance(c.args[1], ast.Constant) and \
                c.args[1].value == 'extract':
            idx_ops.add(unparse(_expand(c.args[0], defs)))
    pairs = []
    for c in ast.walk(f):
        if isinstance(c, ast.Call) and call_name(c) == 'Node' and len(
                c.args) == 2 and not c.keywords:
            pairs.append((c, c.args[0], c.args[1]))
        elif isinstance(c, (ast.Tuple, ast.List)) and len(c.elts) == 2:
            pairs.append((c, c.elts[0], c.elts[1]))
    for site, op, operand in pairs:
        xo = _expand(op, defs)
        if isinstance(xo, ast.Call) and call_name(xo) == 'Node' and \
                not xo.keywords:
            xo = ast.Tuple(elts=list(xo.args), ctx=ast.Load())
        if isinstance(xo, (ast.Tuple, ast.List)) and len(xo.elts) == 4 and \
                isinstance(xo.elts[1], ast.Constant) and \
                xo.elts[1].value == 'extract':
            try:
                hi, lo = _poly(xo.elts[2]), _poly(xo.elts[3])
            except ValueError as e:
                raise AnalysisError(
                    f'extract index not polynomial: {e}') from None
            yield site, hi, lo, _expand(operand, defs), True
        elif unparse(xo) in idx_ops:
            t = unparse(xo)
            yield (site, {(f'hi({t})', ): 1}, {(f'lo({t})', ): 1},
                   _expand(operand, defs), False)


def report(chk, prog, rid, title, consequence, floor=2):
    chk.rule(rid, title)
    n = 0
    for m in prog.pkg_modules():
        if not m.name.startswith('mutators'):
            continue
        for f in ast.walk(m.tree):
            if not isinstance(f, ast.FunctionDef):
                continue
            if not any(isinstance(c, ast.Constant) and c.value == 'extract'
                       for c in ast.walk(f)):
                continue
            defs = _single_defs(f)
            for site, hi, lo, operand, built in _extract_sites(f, defs):
                if enclosing_function(site) is not f:
                    continue
                n += 1
                w = {(f'width({unparse(operand)})', ): 1}
                facts, dropped = [], []
                for text, pol in facts_at(f, site):
                    try:
                        t = ast.parse(text, mode='eval').body
                    except SyntaxError:
                        continue
                    _facts_of_test(t, pol, defs, facts, dropped)
                if not built:
                    # the matched application is well-sorted: lo <= hi, 0 <= lo
                    facts.append(_sub(hi, lo))
                    facts.append(dict(lo))
                obls = [(f'{_pstr(hi)} < {_pstr(w)}', _sub(w, hi, -1))]
                if built:
                    obls.append((f'{_pstr(lo)} <= {_pstr(hi)}',
                                 _sub(hi, lo)))
                for what, q in obls:
                    ok = _entailed(q, facts)
                    if not ok and dropped:
                        raise AnalysisError(
                            f'{rid}: {m.loc(site)}: cannot decide {what}: '
                            f'guards not read: {dropped}')
                    chk.check(
                        rid, f'{m.name}.{f.name}',
                        f'extract on {unparse(operand)}: {what}', ok,
                        f'the extract operator put onto {unparse(operand)} '
                        f'needs {what}, which the guards of this site '
                        f'({", ".join(_pstr(p) + " >= 0" for p in facts) or "none"}) '
                        f'do not establish: {consequence}',
                        loc=m.loc(site), nontrivial=True)
    if n < floor:
        raise AnalysisError(
            f'{rid}: only {n} extract construction sites found in the '
            f'mutators (confirmed by hand: {floor}); the rule would pass '
            'vacuously')
    chk.instance(rid, 'mutators', f'{n} (extract operator, operand) '
                 'construction sites examined', True, '')
