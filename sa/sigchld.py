"""The exit status of the command must reach ddSMT.

``subprocess.Popen.wait()/communicate()`` obtain the exit status with
``waitpid``.  If SIGCHLD is ignored (``signal.signal(SIGCHLD, SIG_IGN)``) the
kernel reaps children by itself, ``waitpid`` fails with ECHILD and the
subprocess module reports return code 0 for every run: crashes, aborts under
the memory limit and kills are all "exit 0".  A handler for SIGCHLD that
calls ``os.wait*`` has the same effect (it steals the status).  Neither the
main process nor the pool workers (pool initialisers included) may change
the disposition.
"""
import ast

from .astutil import call_name
from .loader import AnalysisError, unparse

FIXTURE = '''
import signal, os
def init_worker():
    signal.signal(signal.SIGINT, signal.SIG_IGN)
    signal.signal(signal.SIGCHLD, signal.SIG_IGN)
def other():
    signal.signal(signal.SIGTERM, handler)
def reaper(signum, frame):
    os.waitpid(-1, os.WNOHANG)
'''


def _scan(tree):
    out = []
    for c in ast.walk(tree):
        if not isinstance(c, ast.Call):
            continue
        nm = call_name(c) or ''
        if nm.split('.')[-1] in ('signal', 'sigaction', 'set_wakeup_fd',
                                 'pthread_sigmask') and c.args:
            if any(isinstance(x, ast.Attribute) and x.attr in (
                    'SIGCHLD', 'SIGCLD') or isinstance(x, ast.Name)
                   and x.id in ('SIGCHLD', 'SIGCLD')
                   for a in c.args for x in ast.walk(a)):
                out.append((c, f'"{unparse(c)[:60]}" changes the '
                            'disposition of SIGCHLD'))
        if nm in ('os.wait', 'os.wait3', 'os.wait4') or (
                nm in ('os.waitpid', 'os.waitid') and c.args and unparse(
                    c.args[0]).replace(' ', '') in ('-1', '0', 'os.P_ALL')):
            out.append((c, f'"{unparse(c)[:60]}" reaps whichever child has '
                        'ended, the running command included'))
    return out


def report(chk, prog, rule_id, title, consequence):
    chk.rule(rule_id, title)
    if len(_scan(ast.parse(FIXTURE))) != 2:
        raise AnalysisError(f'{rule_id}: self-check on the built-in example '
                            'failed')
    n = 0
    for m in prog.modules.values():
        n += 1
        for (c, text) in _scan(m.tree):
            chk.check(rule_id, m.name, c, False,
                      text + ': waitpid() of the subprocess module then '
                      'fails with ECHILD and every run is recorded with '
                      'return code 0 -- ' + consequence, loc=m.loc(c),
                      nontrivial=True)
    chk.instance(rule_id, 'scope', f'{n} modules examined; built-in example: '
                 '2 planted changes detected, SIGINT/SIGTERM ones accepted',
                 True, 'zero-count rule with positive example')
