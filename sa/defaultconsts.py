"""What ddSMT's own default constants look like to ddSMT's own predicates.

``get_default_constants(sort)`` builds terms; ``is_const``, ``get_sort`` and
``get_bv_width`` judge terms.  Three agreements between them are relied upon:

* every default constant of Bool / Int / Real / a bit-vector sort / a
  floating-point sort **is a constant** (``is_const``): ``ReplaceByVariable``
  and ``IntroduceFreshVariable`` leave constants alone, ``Constants`` turns
  variables into default constants - if the default constants do not count as
  constants the two rewrite each other's results for ever (C03);
* the sort ddSMT **infers** for a default constant of sort S is S (C16:
  "replacements by default constants of the same sort are well-sorted" -
  and a constant whose inferred sort differs is replaced again);
* the width inferred for a bit-vector default constant is the width of S.

The check *folds* the repository's own source (sa/fold.py: a partial
evaluator over the syntax tree, no code of /repo is imported or run): the
expression ``[is_const(c) for c in get_default_constants(S)]`` is evaluated
on literal sorts S with the functions of smtlib.py and the accessors of
nodes.py as they are written in the current tree.  Only ``Node.__init__``
and ``Node.__eq__`` are modelled (fresh identity per construction,
structural equality - what C12 establishes for the real ones); everything
else, including every regular expression, is the repository's text.
"""
import ast

from .fold import Folder, Inst
from .loader import AnalysisError

FP_LONG = {'Float16': ('5', '11'), 'Float32': ('8', '24'),
           'Float64': ('11', '53'), 'Float128': ('15', '113')}
SORTS = [
    ("Node('Bool')", 'Bool', None),
    ("Node('Int')", 'Int', None),
    ("Node('Real')", 'Real', None),
    ("Node('_', 'BitVec', '1')", ('_', 'BitVec', '1'), 1),
    ("Node('_', 'BitVec', '8')", ('_', 'BitVec', '8'), 8),
    ("Node('_', 'BitVec', '64')", ('_', 'BitVec', '64'), 64),
    ("Node('_', 'FloatingPoint', '8', '24')",
     ('_', 'FloatingPoint', '8', '24'), None),
    ("Node('_', 'FloatingPoint', '11', '53')",
     ('_', 'FloatingPoint', '11', '53'), None),
] + [(f"Node('{k}')", ('_', 'FloatingPoint') + v, None)
     for k, v in FP_LONG.items()]


def canon(n):
    if isinstance(n, Inst):
        d = n.attrs.get('data')
        return d if isinstance(d, str) else tuple(canon(x) for x in d)
    if isinstance(n, (tuple, list)):
        return tuple(canon(x) for x in n)
    if isinstance(n, bool) or n is None:
        return n
    return str(n) if isinstance(n, int) else n


def _folder(prog):
    ctr = [0]

    def node_init(folder, args, kwargs):
        inst, rest = args[0], args[1:]
        if kwargs:
            raise AnalysisError('default constants: Node(..) with keyword '
                                'arguments')

        def conv(a):
            if isinstance(a, Inst):
                return a
            n = Inst(inst.cls)
            fill(n, [a] if isinstance(a, (str, int)) else list(a))
            return n

        def fill(n, rest_):
            if len(rest_) == 1 and isinstance(rest_[0], (str, int)) and \
                    not isinstance(rest_[0], bool):
                n.attrs['data'] = str(rest_[0])
            else:
                n.attrs['data'] = tuple(conv(a) for a in rest_)
            ctr[0] += 1
            n.attrs['id'] = ctr[0]
            n.attrs['hash'] = hash(canon(n))

        fill(inst, list(rest))
        return None

    def node_eq(folder, args, kwargs):
        a, b = args
        if b is None:
            return False
        return canon(a) == canon(b)

    return Folder(prog, summaries={('nodes', 'Node.__init__'): node_init,
                                   ('nodes', 'Node.__eq__'): node_eq})


def evaluate(prog, src):
    m = prog.mod('smtlib')
    e = ast.parse(src, mode='eval').body
    fo = _folder(prog)
    out = []
    for dec, res, f in fo.paths(lambda f: f.expr(e, {}, m, 0)):
        out.append((dec, res))
    if len(out) != 1 or out[0][0]:
        raise AnalysisError(f'default constants: "{src[:60]}" does not fold '
                            f'to one value ({len(out)} paths)')
    return out[0][1]


def report_are_constants(chk, prog, rule_id, title, consequence):
    chk.rule(rule_id, title)
    m = prog.mod('smtlib')
    f = m.func('get_default_constants')
    n = 0
    for (src, want, width) in SORTS:
        res = evaluate(prog, f'[is_const(c) for c in '
                       f'get_default_constants({src})]')
        if not isinstance(res, list) or not res:
            raise AnalysisError(f'{rule_id}: no default constants for {src}')
        n += len(res)
        bad = [i for i, r in enumerate(res) if r is not True]
        chk.check(rule_id, 'smtlib.get_default_constants / is_const',
                  f'{src}: {len(res)} constants', not bad,
                  f'default constant(s) #{bad} of sort {src} are not '
                  'constants for is_const(): Constants replaces a variable '
                  'by such a term, ReplaceByVariable / IntroduceFreshVariable '
                  '(which skip constants only) turn it back into a variable '
                  '-- ' + consequence, loc=m.loc(f), nontrivial=True)
    chk.floor(rule_id, 'default constants judged by is_const', n, 30)


def report_sorts(chk, prog, rule_id, title, consequence):
    chk.rule(rule_id, title)
    m = prog.mod('smtlib')
    f = m.func('get_default_constants')
    n = 0
    for (src, want, width) in SORTS:
        res = evaluate(prog, f'[get_sort(c) for c in '
                       f'get_default_constants({src})]')
        got = [canon(x) for x in res]
        # a short floating-point name and its long form are one sort
        norm = [(('_', 'FloatingPoint') + FP_LONG[g]) if g in FP_LONG else g
                for g in got]
        n += len(got)
        bad = [(i, g) for i, g in enumerate(norm) if g != want]
        chk.check(rule_id, 'smtlib.get_default_constants / get_sort',
                  f'{src}: inferred sorts', not bad,
                  f'the sort inferred for default constant(s) of {src} is '
                  f'{bad[:2]}, not the sort asked for -- ' + consequence,
                  loc=m.loc(f), nontrivial=True)
        if width is not None:
            ws = evaluate(prog, f'[get_bv_width(c) for c in '
                          f'get_default_constants({src})]')
            chk.check(rule_id, 'smtlib.get_default_constants / '
                      'get_bv_width', f'{src}: inferred widths',
                      all(w == width for w in ws),
                      f'the widths inferred for the default constants of '
                      f'{src} are {ws} -- ' + consequence, loc=m.loc(f),
                      nontrivial=True)
    chk.floor(rule_id, 'default constants whose sort is inferred', n, 30)
