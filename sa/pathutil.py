"""Helpers for per-path rules (events along an enumerated CFG path)."""
import ast

from .astutil import call_name, dotted
from .cfg import node_exprs
from .loader import unparse


def node_calls(n):
    res = []
    for e in node_exprs(n):
        for c in ast.walk(e):
            if isinstance(c, ast.Call):
                res.append(c)
    return res


def node_yields(n):
    res = []
    for e in node_exprs(n):
        for c in ast.walk(e):
            if isinstance(c, (ast.Yield, ast.YieldFrom)):
                res.append(c)
    return res


def method_calls(n, recv=None, attr=None):
    """Calls ``<recv>.<attr>(...)`` evaluated by node n (recv: text)."""
    res = []
    for c in node_calls(n):
        if isinstance(c.func, ast.Attribute):
            if attr is not None and c.func.attr != attr:
                continue
            if recv is not None and unparse(c.func.value) != recv:
                continue
            res.append(c)
    return res


def path_method_calls(path, recv=None, attr=None):
    """[(index in path, node, call)] along the path (end node excluded when
    it is a loop head / exit)."""
    res = []
    for i, n in enumerate(path.nodes[:-1] if len(path.nodes) > 1 else
                          path.nodes):
        for c in method_calls(n, recv, attr):
            res.append((i, n, c))
    return res


def facts_before(path, idx):
    """Guard facts established on the path before node index idx."""
    res = []
    for k in range(min(idx, len(path.steps))):
        res.extend(path.steps[k])
    return res


def describe_path(path, mod=None, limit=6):
    """Line-number free description of a path: its guard facts."""
    fs = []
    for (t, pol) in path.facts:
        t = t if len(t) <= 48 else t[:45] + '...'
        x = f'{t}' if pol else f'not({t})'
        if x not in fs:
            fs.append(x)
    if len(fs) > limit:
        fs = fs[:limit] + [f'+{len(fs) - limit} more']
    return 'path[' + ' & '.join(fs) + ']'



def path_subst(p, i, e, keep=()):
    """``e`` with the locals assigned earlier on path ``p`` replaced by the
    value of their last assignment before position ``i`` (pops from a work
    list are not substituted: they denote the popped element)."""
    import ast
    from .astutil import subst
    env = {}
    for n in p.nodes[:i]:
        a = n.ast
        if n.kind == 'stmt' and isinstance(a, ast.Assign) and len(
                a.targets) == 1 and isinstance(a.targets[0], ast.Name) and \
                a.targets[0].id not in keep and not any(
                    isinstance(y, ast.Call) for y in ast.walk(a.value)):
            env[a.targets[0].id] = subst(a.value, env)
        elif n.kind == 'stmt' and isinstance(a, ast.Assign):
            for t in a.targets:
                for y in ast.walk(t):
                    if isinstance(y, ast.Name):
                        env.pop(y.id, None)
        elif n.kind == 'stmt' and isinstance(a, (ast.AugAssign, ast.For)):
            for y in ast.walk(a.target):
                if isinstance(y, ast.Name):
                    env.pop(y.id, None)
    used = {x.id for x in ast.walk(e) if isinstance(x, ast.Name)} & set(env)
    return subst(e, {k: env[k] for k in used}) if used else e
