"""Helpers for per-path rules (events along an enumerated CFG path)."""
import ast

from .astutil import call_name, dotted
from .cfg import node_exprs
from .loader import unparse


def node_calls(n):
    res = []
    for e in node_exprs(n):
        for c in ast.walk(e):
            if isinstance(c, ast.Call):
                res.append(c)
    return res


def node_yields(n):
    res = []
    for e in node_exprs(n):
        for c in ast.walk(e):
            if isinstance(c, (ast.Yield, ast.YieldFrom)):
                res.append(c)
    return res


def method_calls(n, recv=None, attr=None):
    """Calls ``<recv>.<attr>(...)`` evaluated by node n (recv: text)."""
    res = []
    for c in node_calls(n):
        if isinstance(c.func, ast.Attribute):
            if attr is not None and c.func.attr != attr:
                continue
            if recv is not None and unparse(c.func.value) != recv:
                continue
            res.append(c)
    return res


def path_method_calls(path, recv=None, attr=None):
    """[(index in path, node, call)] along the path (end node excluded when
    it is a loop head / exit)."""
    res = []
    for i, n in enumerate(path.nodes[:-1] if len(path.nodes) > 1 else
                          path.nodes):
        for c in method_calls(n, recv, attr):
            res.append((i, n, c))
    return res


def facts_before(path, idx):
    """Guard facts established on the path before node index idx."""
    res = []
    for k in range(min(idx, len(path.steps))):
        res.extend(path.steps[k])
    return res


def describe_path(path, mod=None, limit=6):
    """Line-number free description of a path: its guard facts."""
    fs = []
    for (t, pol) in path.facts:
        t = t if len(t) <= 48 else t[:45] + '...'
        x = f'{t}' if pol else f'not({t})'
        if x not in fs:
            fs.append(x)
    if len(fs) > limit:
        fs = fs[:limit] + [f'+{len(fs) - limit} more']
    return 'path[' + ' & '.join(fs) + ']'
