"""Thorough tier: sensitivity / specificity matrix of one property's check.

For property P the quick check is re-run, by static analysis only, on scratch
copies of /repo's *current working tree* (under $VERIF_SCRATCH, default
/var/tmp; each copy is removed as soon as it has been analysed):

* every seeded change under /verif/seeded/ whose meta.json says that P's
  check catches it, and every reverted fix: commit under /verif/regress/
  that P's check reported (regress/MATRIX.json)  -> the check must exit 1
  (VIOLATION) on the copy,
* every neutral (behaviour-preserving) change under /verif/neutral/ -> the
  check must not report a violation on the copy.

A seeded change that is no longer caught, or a neutral change that is
flagged, is a defect of the *checker*: it is reported as ANALYSIS-ERROR
(exit 2), never as a VIOLATION against /repo.  Patches that do not apply to
the current working tree (because /repo was edited) are skipped and listed.
Nothing of /repo is imported or executed here either.
"""
import concurrent.futures
import json
import os
import re
import shutil
import subprocess
import tempfile

from .loader import AnalysisError, REPO

VERIF = os.path.dirname(os.path.dirname(os.path.abspath(__file__)))
SCRATCH = os.environ.get('VERIF_SCRATCH', '/var/tmp')


def _make_copy(d):
    """Scratch copy of the analysed tree (REPO) incl. uncommitted edits."""
    repo = os.path.join(d, 'repo')
    if os.path.isdir(os.path.join(REPO, '.git')) or os.path.isfile(
            os.path.join(REPO, '.git')):
        subprocess.check_call(['git', 'clone', '-q', REPO, repo])
        diff = subprocess.run(['git', '-C', REPO, 'diff', 'HEAD'],
                              capture_output=True, text=True).stdout
        if diff.strip():
            p = os.path.join(d, 'wt.diff')
            open(p, 'w').write(diff)
            subprocess.run(['git', '-C', repo, 'apply', '--whitespace=nowarn',
                            p], capture_output=True)
    else:
        shutil.copytree(REPO, repo)
        subprocess.run(['git', 'init', '-q', repo], capture_output=True)
    return repo


def _run_one(args):
    prop, kind, vid, patch = args
    d = tempfile.mkdtemp(prefix='verif-st.', dir=SCRATCH)
    try:
        repo = _make_copy(d)
        r = subprocess.run(['git', '-C', repo, 'apply', '--3way',
                            '--whitespace=nowarn', patch],
                           capture_output=True, text=True)
        conflict = subprocess.run(
            ['grep', '-rlq', '^<<<<<<<', os.path.join(repo, 'ddsmt'),
             os.path.join(repo, 'bin')], capture_output=True).returncode == 0
        if r.returncode != 0 or conflict:
            return (kind, vid, 'skipped', 'patch does not apply to the '
                    'current working tree', [])
        env = dict(os.environ, VERIF_REPO=repo,
                   VERIF_EVIDENCE_DIR=os.path.join(d, 'ev'),
                   VERIF_TIER='quick')
        c = subprocess.run([os.path.join(VERIF, 'check'), prop, '--tier',
                            'quick'], capture_output=True, text=True,
                           env=env)
        rules = sorted(set(re.findall(r'VIOLATED (C\d+\.R\w+)', c.stdout)))
        err = ''
        if c.returncode == 2:
            m = re.search(r'ANALYSIS-ERROR[^\n]*', c.stdout)
            err = m.group(0)[:160] if m else ''
        return (kind, vid, c.returncode, err, rules)
    finally:
        shutil.rmtree(d, ignore_errors=True)


def run_for(prop):
    seeded_dir = os.path.join(VERIF, 'seeded')
    neutral_dir = os.path.join(VERIF, 'neutral')
    jobs = []
    if os.path.isdir(seeded_dir):
        for vid in sorted(os.listdir(seeded_dir)):
            mp = os.path.join(seeded_dir, vid, 'meta.json')
            pp = os.path.join(seeded_dir, vid, 'patch.diff')
            if not (os.path.isfile(mp) and os.path.isfile(pp)):
                continue
            meta = json.load(open(mp))
            if prop in meta.get('caught_by', {}):
                jobs.append((prop, 'seeded', vid, pp))
    # reverted fix: commits of /repo (the defects found while building)
    regress_dir = os.path.join(VERIF, 'regress')
    mx = os.path.join(regress_dir, 'MATRIX.json')
    if os.path.isfile(mx):
        rm = json.load(open(mx))
        for cid, res in sorted(rm.items()):
            rb = res.get('reported_by', {})
            if rb.get(prop, {}).get('rc') == 1:
                pp = os.path.join(regress_dir, cid, 'patch.diff')
                if os.path.isfile(pp):
                    jobs.append((prop, 'seeded', 'revert-' + cid, pp))
    # rule-liveness witnesses (hand-written edits, one per rule that no
    # other variant makes fire)
    wdir = os.path.join(VERIF, 'witness')
    if os.path.isdir(wdir):
        for rule in sorted(os.listdir(wdir)):
            pp = os.path.join(wdir, rule, 'patch.diff')
            if rule.startswith(prop + '.') and os.path.isfile(pp):
                jobs.append((prop, 'seeded', 'witness-' + rule, pp))
    if os.path.isdir(neutral_dir):
        for vid in sorted(os.listdir(neutral_dir)):
            pp = os.path.join(neutral_dir, vid, 'patch.diff')
            if os.path.isfile(pp):
                jobs.append((prop, 'neutral', vid, pp))
    results = []
    with concurrent.futures.ThreadPoolExecutor(16) as ex:
        for res in ex.map(_run_one, jobs):
            results.append(res)
    missed = [r for r in results if r[0] == 'seeded' and r[2] == 0]
    broken = [r for r in results if r[0] == 'seeded' and r[2] == 2]
    flagged = [r for r in results if r[0] == 'neutral' and r[2] == 1]
    nerr = [r for r in results if r[0] == 'neutral' and r[2] == 2]
    skipped = [r for r in results if r[2] == 'skipped']
    caught = [r for r in results if r[0] == 'seeded' and r[2] == 1]
    silent = [r for r in results if r[0] == 'neutral' and r[2] == 0]
    summary = {
        'selftest': {
            'seeded_expected': len([j for j in jobs if j[1] == 'seeded']),
            'seeded_caught': len(caught),
            'seeded_missed': [r[1] for r in missed],
            'seeded_analysis_error': [(r[1], r[3]) for r in broken],
            'neutral_total': len([j for j in jobs if j[1] == 'neutral']),
            'neutral_silent': len(silent),
            'neutral_flagged': [(r[1], r[4]) for r in flagged],
            'neutral_analysis_error': [(r[1], r[3]) for r in nerr],
            'skipped_patch_does_not_apply': [r[1] for r in skipped],
            'kill_matrix': {r[1]: r[4] for r in caught},
        }
    }
    print(f'  selftest {prop}: seeded {len(caught)}/'
          f'{summary["selftest"]["seeded_expected"]} caught, neutral '
          f'{len(silent)}/{summary["selftest"]["neutral_total"]} silent, '
          f'{len(nerr)} neutral analysis-errors, {len(skipped)} skipped')
    for r in nerr:
        print(f'  selftest note: neutral {r[1]} -> {r[3]}')
    if missed or flagged or broken:
        summary['_selftest_error'] = (
            f'self-test of the {prop} check failed: seeded changes no longer '
            f'caught {[r[1] for r in missed]}, seeded changes ending in an '
            f'analysis error {[r[1] for r in broken]}, neutral changes '
            f'flagged {[(r[1], r[4]) for r in flagged]}')
    return summary
