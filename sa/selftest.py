"""Thorough tier: variant matrix (filled in later)."""


def run_for(prop):
    return {}
