"""Object addresses (builtin ``id()``) and hash values as long-lived keys.

``id(x)`` is the address of ``x``: it is unique only while ``x`` is alive.
ddSMT builds and drops whole trees for every candidate, so addresses are
recycled within milliseconds.  A value of ``id(..)`` that outlives the
function that took it - stored in a module-level container, on an object, or
sent to another process - later names a *different* object: a cache keyed by
it returns the text / the unpickled input / the verdict of another candidate.
(ddSMT's own ``Node.id`` is a counter and never recycled; it is not the
builtin.)  Addresses also differ from run to run (ASLR, allocation order), so
anything ordered or named by them is not reproducible.

``findings(prog)`` lists the escaping uses of the builtin: the call is an
argument of a store into a non-local container (``G[id(x)] = ..``,
``G.get(id(x))``, ``id(x) in G``, ``self.a = id(..)``, ``G.add(id(x))``), where
``G`` is a module global or an attribute, or the value is returned / yielded /
passed to a constructor call.  Purely local uses (a ``seen`` set of a single
traversal whose objects are all alive) are not reported.

``hash_findings(prog)`` lists uses of a hash value (``hash(..)``, ``X.hash``)
other than equality comparison, storing it as the hash of a node, or packing
it into the pickle: formatting it into text, arithmetic on it, ordering by it.
``hash(str)`` changes with PYTHONHASHSEED.
"""
import ast

from .astutil import call_name, walk_no_nested
from .loader import AnalysisError, unparse

MUT = ('add', 'append', 'setdefault', 'get', 'pop', 'discard', 'remove',
       'update', 'insert', '__contains__', '__getitem__', '__setitem__')


def _is_builtin_id(call, shadow):
    return isinstance(call, ast.Call) and isinstance(
        call.func, ast.Name) and call.func.id == 'id' and len(
            call.args) == 1 and 'id' not in shadow


def _parents(tree):
    for n in ast.walk(tree):
        for c in ast.iter_child_nodes(n):
            c._idk_parent = n


def _nonlocal_container(e, f, m):
    """is e (the container expression) a module global or an attribute?"""
    base = e
    while isinstance(base, ast.Subscript):
        base = base.value
    if isinstance(base, ast.Attribute):
        return unparse(base)
    if isinstance(base, ast.Name):
        local = {a.arg for a in f.args.args + f.args.kwonlyargs} if f else \
            set()
        if f is not None:
            gl = {n for x in ast.walk(f) if isinstance(x, ast.Global)
                  for n in x.names}
            for x in walk_no_nested(f):
                if isinstance(x, ast.Name) and isinstance(
                        x.ctx, ast.Store) and x.id not in gl:
                    local.add(x.id)
        if base.id in m.globals and base.id not in local:
            return f'module global {base.id}'
    return None


def findings(prog):
    out = []
    ncalls = 0
    for m in list(prog.modules.values()):
        shadow = set()
        for st in m.tree.body:
            if isinstance(st, (ast.FunctionDef, ast.ClassDef)) and \
                    st.name == 'id':
                shadow.add('id')
            if isinstance(st, ast.Assign):
                for t in st.targets:
                    if isinstance(t, ast.Name) and t.id == 'id':
                        shadow.add('id')
        _parents(m.tree)
        funcs = [x for x in ast.walk(m.tree)
                 if isinstance(x, (ast.FunctionDef, ast.Lambda))]
        owner = {}
        for f in funcs:
            for x in ast.walk(f):
                owner.setdefault(id(x), f)  # outermost first? fix below
        # innermost function of a node: walk up the parents
        def fn_of(x):
            p = getattr(x, '_idk_parent', None)
            while p is not None and not isinstance(p, ast.FunctionDef):
                p = getattr(p, '_idk_parent', None)
            return p

        for c in ast.walk(m.tree):
            if not _is_builtin_id(c, shadow):
                continue
            ncalls += 1
            f = fn_of(c)
            if f is not None and any(a.arg == 'id' for a in
                                     f.args.args + f.args.kwonlyargs):
                continue
            # names the value is bound to (one level): k = id(x)
            carriers = [c]
            par = getattr(c, '_idk_parent', None)
            names = set()
            if isinstance(par, ast.Assign) and par.value is c:
                for t in par.targets:
                    if isinstance(t, ast.Name):
                        names.add(t.id)
            if isinstance(par, ast.NamedExpr) and par.value is c and \
                    isinstance(par.target, ast.Name):
                names.add(par.target.id)
            if names and f is not None:
                for x in walk_no_nested(f):
                    if isinstance(x, ast.Name) and x.id in names and \
                            isinstance(x.ctx, ast.Load):
                        carriers.append(x)
            for k in carriers:
                p = getattr(k, '_idk_parent', None)
                # tuple keys: (id(a), id(b))
                while isinstance(p, ast.Tuple):
                    k, p = p, getattr(p, '_idk_parent', None)
                why = None
                if isinstance(p, ast.Subscript) and p.slice is k:
                    cont = _nonlocal_container(p.value, f, m)
                    if cont:
                        why = f'keys {cont}'
                elif isinstance(p, ast.Call) and isinstance(
                        p.func, ast.Attribute) and p.func.attr in MUT and \
                        k in p.args:
                    cont = _nonlocal_container(p.func.value, f, m)
                    if cont:
                        why = f'is given to {cont}.{p.func.attr}()'
                elif isinstance(p, ast.Compare) and any(
                        isinstance(o, (ast.In, ast.NotIn)) for o in p.ops) \
                        and p.left is k:
                    cont = _nonlocal_container(p.comparators[0], f, m)
                    if cont:
                        why = f'is looked up in {cont}'
                elif isinstance(p, ast.Assign) and p.value is k:
                    for t in p.targets:
                        if isinstance(t, ast.Attribute):
                            why = f'is stored in {unparse(t)}'
                        if isinstance(t, ast.Name) and f is not None and \
                                t.id in {n for x in ast.walk(f) if isinstance(
                                    x, ast.Global) for n in x.names}:
                            why = f'is stored in the module global {t.id}'
                elif isinstance(p, (ast.Return, ast.Yield)):
                    why = 'is returned to the caller'
                elif isinstance(p, ast.keyword) or (isinstance(
                        p, ast.Call) and k in p.args and isinstance(
                            p.func, ast.Name) and p.func.id[:1].isupper()):
                    why = 'is passed into a record / object that outlives ' \
                        'the call'
                if why:
                    out.append((m, f, c, f'the address {unparse(c)} {why}'))
    # de-duplicate
    seen = set()
    res = []
    for (m, f, c, text) in out:
        k = (m.name, c.lineno, c.col_offset, text)
        if k not in seen:
            seen.add(k)
            res.append((m, f, c, text))
    return res, ncalls


def _self_check():
    import os
    from .loader import Module
    fx = os.path.join(os.path.dirname(os.path.dirname(os.path.abspath(
        __file__))), 'fixtures', 'id_keys.py')
    if not os.path.isfile(fx):
        raise AnalysisError('fixture fixtures/id_keys.py missing')
    fm = Module('fixture', fx, open(fx).read())

    class P:
        modules = {'fixture': fm}

    fs, n = findings(P())
    got = sorted({(f.name if f is not None else '<module>')
                  for (_, f, _, _) in fs})
    want = ['bad_attr_token', 'bad_global_cache', 'bad_global_lookup',
            'bad_record']
    if got != want:
        raise AnalysisError(f'id-key self-check: fixture judged {got}, '
                            f'expected {want}')


def report(chk, prog, rule_id, title, consequence):
    chk.rule(rule_id, title)
    _self_check()
    fs, n = findings(prog)
    for (m, f, c, text) in fs:
        where = f'{m.name}.{getattr(f, "_qualname", getattr(f, "name", "<module>"))}' \
            if f is not None else m.name
        chk.check(rule_id, where, c, False,
                  text + ': addresses are recycled as soon as the object is '
                  'freed (every candidate tree is) and differ from run to '
                  'run, so the entry is later found for a different object '
                  '-- ' + consequence, loc=m.loc(c), nontrivial=True)
    chk.instance(rule_id, 'scope', f'{n} calls of the builtin id() in '
                 f'{len(prog.modules)} modules examined; fixture: 4 escaping '
                 'uses detected, 2 local ones accepted', True,
                 'zero-count rule with positive example')


# ------------------------------------------------------------------ hashes
def hash_findings(prog):
    out = []
    nuses = 0
    for m in prog.pkg_modules():
        _parents(m.tree)
        for x in ast.walk(m.tree):
            is_hash = (isinstance(x, ast.Call) and isinstance(
                x.func, ast.Name) and x.func.id == 'hash') or (
                    isinstance(x, ast.Attribute) and x.attr == 'hash'
                    and isinstance(x.ctx, ast.Load))
            if not is_hash:
                continue
            nuses += 1
            k = x
            p = getattr(k, '_idk_parent', None)
            bad = None
            while p is not None:
                if isinstance(p, (ast.JoinedStr, ast.FormattedValue)):
                    bad = 'is formatted into text'
                    break
                if isinstance(p, ast.BinOp):
                    bad = f'is used in arithmetic ("{unparse(p)[:40]}")'
                    break
                if isinstance(p, ast.Compare):
                    if any(isinstance(o, (ast.Lt, ast.LtE, ast.Gt, ast.GtE))
                           for o in p.ops):
                        bad = 'is used to order values'
                    break
                if isinstance(p, ast.Call) and p is not k:
                    nm = call_name(p) or ''
                    if nm in ('str', 'repr', 'format', 'hex', 'oct', 'bin',
                              'sorted', 'min', 'max') or nm.endswith(
                                  '.format') or nm.endswith('.sort'):
                        bad = f'is given to {nm}()'
                    break
                if isinstance(p, ast.Lambda):
                    gp = getattr(p, '_idk_parent', None)
                    if isinstance(gp, ast.keyword) and gp.arg == 'key':
                        bad = 'is a sort key'
                    break
                if isinstance(p, ast.stmt):
                    break
                k, p = p, getattr(p, '_idk_parent', None)
            if bad:
                out.append((m, x, f'the hash value {unparse(x)[:40]} {bad}'))
    return out, nuses


def report_hash(chk, prog, rule_id, title, consequence):
    chk.rule(rule_id, title)
    fs, n = hash_findings(prog)
    for (m, x, text) in fs:
        from .loader import enclosing_function
        f = None
        p = getattr(x, '_idk_parent', None)
        while p is not None and not isinstance(p, ast.FunctionDef):
            p = getattr(p, '_idk_parent', None)
        f = p
        where = f'{m.name}.{getattr(f, "_qualname", getattr(f, "name", "?"))}' \
            if f is not None else m.name
        chk.check(rule_id, where, x, False,
                  text + ': hash(str) (and with it Node.hash) changes with '
                  'PYTHONHASHSEED -- ' + consequence, loc=m.loc(x),
                  nontrivial=True)
    chk.instance(rule_id, 'scope', f'{n} uses of hash values examined '
                 '(comparison for equality, storing and pickling are the '
                 'uses of the pinned tree)', True, 'zero-count rule '
                 '(witness: C18_31)')
    if n < 3:
        raise AnalysisError(f'{rule_id}: only {n} uses of hash values found')
