"""A recursive inference function asks for each sub-result once per path.

``get_bv_width`` (and the other self-recursive helpers of smtlib.py) descend
one level per call.  If one activation calls itself twice for the *same*
child - ``if f(node[1]) < 0: ..; return k + f(node[1])`` - the cost doubles
per nesting level: 2^depth calls for a chain of depth d, i.e. a filter that
does not return for a 30-deep ``concat``/``zero_extend`` chain.  (The
functions are not memoised; ``get_sort`` is, and is exempt.)

Reported: two self-calls with the same argument expression (for calls inside
comprehensions: the same element variable over the same iterable) where the
second can be reached from the first on a normal path of the function.
"""
import ast

from .cfg import cfg_of
from .loader import AnalysisError, enclosing_stmt, unparse
from . import memo


def _key(call):
    """argument text, qualified by the comprehension it sits in"""
    txt = ', '.join(unparse(a) for a in call.args)
    p = getattr(call, '_parent', None)
    while p is not None and not isinstance(p, ast.stmt):
        if isinstance(p, (ast.ListComp, ast.GeneratorExp, ast.SetComp)):
            txt += ' @ ' + ' '.join(
                f'{unparse(g.target)} in {unparse(g.iter)}'
                for g in p.generators)
        p = getattr(p, '_parent', None)
    return txt


def findings(prog, modules=('smtlib', )):
    out = []
    nrec = 0
    for mn in modules:
        m = prog.mod(mn)
        for q, f in m.funcs.items():
            if '<locals>' in q or '.' in q or memo.memo_deco(f):
                continue
            for n in ast.walk(f):
                for c in ast.iter_child_nodes(n):
                    c._parent = n
            calls = [c for c in ast.walk(f) if isinstance(c, ast.Call)
                     and isinstance(c.func, ast.Name)
                     and c.func.id == f.name and c.args]
            if not calls:
                continue
            nrec += 1
            # a hand-written memo (a module-level dict consulted first)
            # makes repeated calls cheap
            if any(isinstance(x, ast.Subscript) and isinstance(
                    x.value, ast.Name) and x.value.id in m.globals
                   and isinstance(x.ctx, ast.Store) for x in ast.walk(f)):
                continue
            groups = {}
            for c in calls:
                groups.setdefault(_key(c), []).append(c)
            cfg = None
            for k, cs in groups.items():
                if len(cs) < 2:
                    continue
                if cfg is None:
                    cfg = cfg_of(f)
                sts = []
                for c in cs:
                    s = c
                    while s is not None and id(s) not in cfg.node_of:
                        s = getattr(s, '_parent', None)
                    sts.append((c, s))
                done = False
                for i, (c1, s1) in enumerate(sts):
                    for (c2, s2) in sts[i + 1:]:
                        if s1 is None or s2 is None:
                            continue
                        if s1 is not s2 and not _reach(cfg, s1, s2) and \
                                _reach(cfg, s2, s1):
                            c1, s1, c2, s2 = c2, s2, c1, s1
                        if s1 is s2 or _reach(cfg, s1, s2):
                            out.append((m, q, c2,
                                        f'{q}({k.split(" @ ")[0]}) is '
                                        f'computed at line {c1.lineno} and '
                                        f'again at line {c2.lineno} on the '
                                        'same path'))
                            done = True
                            break
                    if done:
                        break
    return out, nrec


def _reach(cfg, a, b):
    na, nb = cfg.node_of[id(a)], cfg.node_of[id(b)]
    seen = set()
    work = [e.dst for e in na.succ if e.kind != 'exc']
    while work:
        n = work.pop()
        if id(n) in seen:
            continue
        seen.add(id(n))
        if n is nb:
            return getattr(b, 'lineno', 0) >= getattr(a, 'lineno', 0)
        work.extend(e.dst for e in n.succ if e.kind != 'exc')
    return False


def report(chk, prog, rule_id, title, consequence):
    chk.rule(rule_id, title)
    fs, n = findings(prog)
    for (m, q, c, text) in fs:
        chk.check(rule_id, f'{m.name}.{q}', c, False,
                  text + ': two recursive calls per level cost 2^depth '
                  'calls on a nested term (the function is not memoised) '
                  '-- ' + consequence, loc=m.loc(c), nontrivial=True)
    chk.instance(rule_id, 'smtlib', f'{n} self-recursive functions examined',
                 not fs, 'each sub-result is asked for once per path',
                 nontrivial=True)
    if n < 2:
        raise AnalysisError(f'{rule_id}: only {n} self-recursive functions '
                            'found in smtlib.py')
