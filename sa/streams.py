"""The record of a run carries each stream under its own name.

``RunInfo`` is built positionally in ``checker.execute``; the comparison
with the golden run is symmetric in stdout / stderr (both sides are built by
the same code), so a swap goes unnoticed by every test that compares whole
records - but every option that addresses ONE stream (--ignore-out,
--ignore-err, --match-out, --match-err and their cross-check forms, the
validation of the match string against the golden run) then acts on the
other one.

Checked, for every construction of the run record in checker.py: the value
bound - by position in the declared field order, or by keyword - to the
field ``out`` derives from the first component of ``communicate()`` /
``.stdout``, the value bound to ``err`` from the second / ``.stderr``, and
``exit`` from ``.returncode`` (or a literal).
"""
import ast

from .astutil import call_name, walk_no_nested
from .loader import AnalysisError, unparse

WANT = {'out': 0, 'err': 1}


def _record_fields(m, name):
    for st in m.tree.body:
        if isinstance(st, ast.Assign) and len(st.targets) == 1 and \
                isinstance(st.targets[0], ast.Name) and \
                st.targets[0].id == name and isinstance(st.value, ast.Call) \
                and (call_name(st.value) or '').endswith('namedtuple') and \
                len(st.value.args) >= 2:
            fl = st.value.args[1]
            if isinstance(fl, (ast.List, ast.Tuple)) and all(
                    isinstance(x, ast.Constant) for x in fl.elts):
                return [x.value for x in fl.elts], st
            if isinstance(fl, ast.Constant) and isinstance(fl.value, str):
                return fl.value.replace(',', ' ').split(), st
        if isinstance(st, ast.ClassDef) and st.name == name:
            fs = [x.target.id for x in st.body if isinstance(x, ast.AnnAssign)
                  and isinstance(x.target, ast.Name)]
            if fs:
                return fs, st
    return None, None


def _stream_of(e, f, depth=0):
    """0 (stdout) / 1 (stderr) / None (unknown) / 'const' for the origin of
    expression e inside function f"""
    if depth > 5:
        return None
    if isinstance(e, ast.Constant):
        return 'const'
    if isinstance(e, ast.Attribute) and e.attr in ('stdout', 'stderr'):
        return 0 if e.attr == 'stdout' else 1
    if isinstance(e, ast.Subscript) and isinstance(
            e.slice, ast.Constant) and e.slice.value in (0, 1):
        v = e.value
        if isinstance(v, ast.Call) and isinstance(
                v.func, ast.Attribute) and v.func.attr == 'communicate':
            return e.slice.value
        if isinstance(v, ast.Name):
            for st in ast.walk(f):
                if isinstance(st, ast.Assign) and any(
                        isinstance(t, ast.Name) and t.id == v.id
                        for t in st.targets) and isinstance(
                            st.value, ast.Call) and isinstance(
                                st.value.func, ast.Attribute) and \
                        st.value.func.attr == 'communicate':
                    return e.slice.value
    if isinstance(e, ast.Call) and isinstance(e.func, ast.Attribute) and \
            e.func.attr in ('decode', 'strip', 'rstrip', 'lstrip'):
        return _stream_of(e.func.value, f, depth + 1)
    if isinstance(e, ast.Call) and (call_name(e) or '') in ('str', ) and \
            e.args:
        return _stream_of(e.args[0], f, depth + 1)
    if isinstance(e, ast.IfExp):
        a = _stream_of(e.body, f, depth + 1)
        b = _stream_of(e.orelse, f, depth + 1)
        if a == 'const':
            return b
        if b == 'const':
            return a
        return a if a == b else None
    if isinstance(e, ast.Name):
        res = set()
        for st in ast.walk(f):
            if isinstance(st, ast.Assign):
                for t in st.targets:
                    if isinstance(t, ast.Name) and t.id == e.id:
                        res.add(_stream_of(st.value, f, depth + 1))
                    elif isinstance(t, (ast.Tuple, ast.List)):
                        for i, x in enumerate(t.elts):
                            if isinstance(x, ast.Name) and x.id == e.id:
                                v = st.value
                                if isinstance(v, ast.Call) and isinstance(
                                        v.func, ast.Attribute) and \
                                        v.func.attr == 'communicate' and \
                                        len(t.elts) == 2:
                                    res.add(i)
                                elif isinstance(v, (ast.Tuple, ast.List)) \
                                        and len(v.elts) == len(t.elts):
                                    res.add(_stream_of(v.elts[i], f,
                                                       depth + 1))
                                else:
                                    res.add(None)
        res.discard('const')
        if len(res) == 1:
            return res.pop()
        return None
    return None


def report(chk, prog, rule_id, title, consequence, record='RunInfo'):
    chk.rule(rule_id, title)
    m = prog.mod('checker')
    fields, dst = _record_fields(m, record)
    if fields is None:
        raise AnalysisError(f'{rule_id}: the record {record} of checker.py '
                            'is not a namedtuple with literal field names')
    if not {'out', 'err', 'exit'} <= set(fields):
        raise AnalysisError(f'{rule_id}: {record} has the fields {fields}; '
                            'out / err / exit expected')
    n = 0
    for q, f in m.funcs.items():
        if '<locals>' in q:
            continue
        for c in walk_no_nested(f):
            if not (isinstance(c, ast.Call) and isinstance(
                    c.func, ast.Name) and c.func.id == record):
                continue
            bound = {}
            if any(isinstance(a, ast.Starred) for a in c.args):
                continue
            for fn_, a in zip(fields, c.args):
                bound[fn_] = a
            for k in c.keywords:
                if k.arg:
                    bound[k.arg] = k.value
            for fn_, want in WANT.items():
                if fn_ not in bound:
                    continue
                got = _stream_of(bound[fn_], f)
                if got in (None, 'const'):
                    continue
                n += 1
                names = {0: 'stdout', 1: 'stderr'}
                chk.check(rule_id, f'checker.{q}',
                          f'{record}.{fn_} <- {unparse(bound[fn_])[:40]}',
                          got == want,
                          f'the field "{fn_}" of {record} (position '
                          f'{fields.index(fn_)} of {fields}) receives '
                          f'"{unparse(bound[fn_])[:40]}", which is the '
                          f'{names[got]} of the command -- ' + consequence,
                          loc=m.loc(c), nontrivial=True)
            if 'exit' in bound and not isinstance(bound['exit'],
                                                  ast.Constant):
                ok = any(isinstance(x, ast.Attribute)
                         and x.attr == 'returncode'
                         for x in ast.walk(bound['exit'])) or isinstance(
                             bound['exit'], ast.Name)
                n += 1
                chk.check(rule_id, f'checker.{q}',
                          f'{record}.exit <- {unparse(bound["exit"])[:40]}',
                          ok, f'the field "exit" receives '
                          f'"{unparse(bound["exit"])[:40]}", not the return '
                          'code of the command -- ' + consequence,
                          loc=m.loc(c), nontrivial=True)
    if n < 2:
        raise AnalysisError(f'{rule_id}: only {n} stream bindings of '
                            f'{record} could be followed (3 on the pinned '
                            'tree)')
