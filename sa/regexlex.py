"""Judging regular expressions that stand for SMT-LIB lexeme classes
(string literal, quoted symbol) on their syntax trees (re._parser)."""
import ast  # noqa: F401

from .loader import AnalysisError

PROBES = ['\n', '\r', '\t', ' ', 'a', 'Z', '0', '_', '-', '"', '|', '\\',
          ';', '(', ')', '\xe9']


def class_accepts(item, ch, dotall):
    """Does the one-character regex item accept ``ch``?  None: unknown."""
    import re._constants as rc
    op, av = item
    if op is rc.ANY:
        return ch != '\n' or dotall
    if op is rc.LITERAL:
        return ord(ch) == av
    if op is rc.NOT_LITERAL:
        return ord(ch) != av
    if op is rc.IN:
        neg = False
        hit = False
        for (o2, a2) in av:
            if o2 is rc.NEGATE:
                neg = True
            elif o2 is rc.LITERAL:
                hit = hit or ord(ch) == a2
            elif o2 is rc.RANGE:
                hit = hit or a2[0] <= ord(ch) <= a2[1]
            elif o2 is rc.CATEGORY:
                name = str(a2)
                base = {'CATEGORY_SPACE': ch.isspace(),
                        'CATEGORY_NOT_SPACE': not ch.isspace(),
                        'CATEGORY_DIGIT': ch.isdigit(),
                        'CATEGORY_NOT_DIGIT': not ch.isdigit(),
                        'CATEGORY_WORD': ch.isalnum() or ch == '_',
                        'CATEGORY_NOT_WORD': not (ch.isalnum() or ch == '_')
                        }.get(name)
                if base is None:
                    return None
                hit = hit or base
            else:
                return None
        return hit != neg
    return None


def regex_delimited(pattern, flags_dotall, q, fullmatch, want_pairs):
    """Judge a pattern meant to say "starts with q, ends with q".
    -> (ok, reason) ; raises AnalysisError for shapes not understood."""
    import re._parser as rp
    import re._constants as rc
    try:
        tree = rp.parse(pattern)
    except Exception as e:
        raise AnalysisError(f'pattern {pattern!r} does not parse: {e}')
    dotall = flags_dotall or bool(tree.state.flags & 16)
    items = list(tree)
    while items and items[0][0] is rc.AT and str(items[0][1]) in (
            'AT_BEGINNING', 'AT_BEGINNING_STRING'):
        items.pop(0)
    anchored_end = fullmatch
    while items and items[-1][0] is rc.AT and str(items[-1][1]) in (
            'AT_END', 'AT_END_STRING'):
        items.pop()
        anchored_end = True
    if len(items) < 2 or items[0] != (rc.LITERAL, ord(q)) or \
            items[-1] != (rc.LITERAL, ord(q)):
        raise AnalysisError(
            f'pattern {pattern!r} is not <{q}> ... <{q}>')
    if not anchored_end:
        return False, ('the pattern is not anchored at the end: any text '
                       f'that merely starts with {q}...{q} is accepted')
    body = items[1:-1]
    if not body:
        return False, f'the pattern accepts only the empty lexeme {q}{q}'
    if len(body) != 1 or body[0][0] not in (rc.MAX_REPEAT, rc.MIN_REPEAT):
        raise AnalysisError(f'body of pattern {pattern!r} is not one '
                            'repetition')
    lo, hi, sub = body[0][1]
    if lo != 0 or hi != rc.MAXREPEAT:
        return False, (f'the body must occur {lo}..{hi} times: lexemes of '
                       'other lengths are not recognised')
    sub = list(sub)
    # (?:X|qq)* for strings
    alts = None
    if len(sub) == 1 and sub[0][0] is rc.SUBPATTERN:
        sub = list(sub[0][1][-1])
    if len(sub) == 1 and sub[0][0] is rc.BRANCH:
        alts = [list(a) for a in sub[0][1][1]]
    elif len(sub) == 1:
        alts = [sub]
    else:
        raise AnalysisError(f'body of pattern {pattern!r} not understood')
    escapes = [a for a in alts if len(a) == 2
               and a[0] == (rc.LITERAL, ord('\\'))]
    if escapes:
        return False, ('the pattern treats the backslash as an escape '
                       'character (an alternative "\\\\<char>"): SMT-LIB 2.6 has '
                       f'no backslash escapes, a lexeme ending in \\{q} is '
                       'not terminated where the standard terminates it')
    singles = [a[0] for a in alts if len(a) == 1]
    pairs = [a for a in alts if len(a) == 2 and all(
        x == (rc.LITERAL, ord(q)) for x in a)]
    if len(singles) + len(pairs) != len(alts):
        raise AnalysisError(f'body of pattern {pattern!r} not understood')
    rejected = []
    for ch in PROBES:
        if ch == q:
            continue
        acc = [class_accepts(it, ch, dotall) for it in singles]
        if any(a is None for a in acc):
            raise AnalysisError(f'character class in {pattern!r} not '
                                'understood')
        if not any(acc):
            rejected.append(ch)
    if rejected:
        return False, ('the body rejects the characters '
                       f'{rejected}: a lexeme containing one of them '
                       '(e.g. a quoted symbol or string spanning lines) is '
                       'not recognised')
    if want_pairs:
        q_ok = any(class_accepts(it, q, dotall) for it in singles) or pairs
        if not q_ok:
            return False, (f'the body rejects {q}: a string literal with an '
                           f'escaped quote ({q}{q}) is not recognised as a '
                           'string constant')
    return True, ''


