"""Symbolic output traces of the dispatching writers of nodeio.

``write_smtlib``, ``write_smtlib_for_checking`` and the string helpers are
straight-line code around two loops; what they put into the file is a
*sequence over the expressions of the list*.  This module evaluates such a
function, for one valuation of the formatting options, to a trace

    [('each', [('render', kind, width), ('lit', '\\n')])]

("for every expression, in order: its rendering by emitter ``kind``, then a
newline").  The evaluator understands the shapes such code takes (list
comprehension / append loop / map, early return vs else, helpers called with
a writer function and ``*args``, StringIO buffers, option reads through an
alias); anything else stops the analysis (AnalysisError), it never guesses.
Text that went through a method call (``rstrip``, ``textwrap.fill``) or a
``str()`` of a whole expression is kept in the trace as such, so the rules
can name it.
"""
import ast

from .astutil import call_name, docstring_free
from .loader import AnalysisError, unparse

EMITTERS = {'__write_smtlib': 'plain', '__write_smtlib_pretty': 'pretty'}
MAX_DEPTH = 5


class _Return(Exception):

    def __init__(self, value):
        self.value = value


class _LoopJump(Exception):
    pass


class Tracer:

    def __init__(self, mod, opts):
        self.mod = mod
        self.opts = dict(opts)  # option dest -> bool
        self.traces = {}  # file id -> list of events
        self.nbuf = 0
        self.reads = set()

    # ------------------------------------------------------------- helpers
    def err(self, node, what):
        raise AnalysisError(
            f'writer trace: {self.mod.loc(node)}: {what} '
            f'("{unparse(node)[:60]}")')

    def new_file(self, label):
        self.traces.setdefault(label, [])
        return ('file', label)

    def emit(self, fileval, ev, node):
        if not (isinstance(fileval, tuple) and fileval[0] == 'file'):
            self.err(node, 'write to something that is not a known stream')
        self.traces[fileval[1]].append(ev)

    @staticmethod
    def pieces_of(v, node=None):
        """text value -> list of events"""
        if v[0] == 'const' and isinstance(v[1], str):
            return [('lit', v[1])] if v[1] != '' else []
        if v[0] == 'text':
            return list(v[1])
        return None

    # ----------------------------------------------------------- functions
    def call_function(self, fname, args, depth, node):
        if depth > MAX_DEPTH:
            self.err(node, 'helper nesting too deep')
        f = self.mod.funcs.get(fname)
        if f is None:
            self.err(node, f'unknown function {fname}')
        a = f.args
        names = [x.arg for x in a.posonlyargs + a.args]
        env = {}
        nd = len(a.defaults)
        for i, d in enumerate(a.defaults):
            env[names[len(names) - nd + i]] = self.expr(d, {}, depth)
        pos = list(args)
        for n, v in zip(names, pos):
            env[n] = v
        rest = pos[len(names):]
        if a.vararg:
            env[a.vararg.arg] = ('tuple', rest)
        elif rest:
            self.err(node, f'too many arguments for {fname}')
        for n in names:
            if n not in env:
                self.err(node, f'missing argument {n} of {fname}')
        try:
            self.block(docstring_free(f.body), env, depth)
        except _Return as r:
            return r.value
        return ('const', None)

    # ---------------------------------------------------------- statements
    def block(self, body, env, depth):
        for st in body:
            self.stmt(st, env, depth)

    def truth(self, v, node):
        if v[0] == 'const':
            return bool(v[1])
        if v[0] == 'bool':
            return v[1]
        if v[0] == 'data':
            return True
        if v[0] == 'text' and any(p_[0] == 'xform' for p_ in v[1]):
            # a test on a text that already went through a library call:
            # the emitting branch is followed; the transformation is what the
            # rules judge (the written piece carries the xform mark)
            return True
        self.err(node, 'condition is not an option test')

    def stmt(self, st, env, depth):
        if isinstance(st, (ast.Import, ast.ImportFrom, ast.Pass,
                           ast.FunctionDef, ast.Global)):
            if isinstance(st, ast.FunctionDef):
                env[st.name] = ('localfunc', st)
            return
        if isinstance(st, ast.Expr):
            if isinstance(st.value, ast.Constant):
                return
            self.expr(st.value, env, depth)
            return
        if isinstance(st, ast.Assign):
            v = self.expr(st.value, env, depth)
            for t in st.targets:
                if isinstance(t, ast.Name):
                    env[t.id] = v
                else:
                    self.err(st, 'assignment target not modelled')
            return
        if isinstance(st, ast.AnnAssign) and isinstance(st.target, ast.Name):
            if st.value is not None:
                env[st.target.id] = self.expr(st.value, env, depth)
            return
        if isinstance(st, ast.AugAssign) and isinstance(
                st.target, ast.Name) and isinstance(st.op, ast.Add):
            cur = env.get(st.target.id)
            v = self.expr(st.value, env, depth)
            if cur is None:
                self.err(st, 'augmented assignment to unknown name')
            env[st.target.id] = self.concat(cur, v, st)
            return
        if isinstance(st, ast.If):
            tv = self.expr(st.test, env, depth)
            if tv[0] == 'data' or (tv[0] == 'text' and any(
                    p_[0] == 'xform' for p_ in tv[1])):
                self.both_branches(st, env, depth)
                return
            if self.truth(tv, st.test):
                self.block(st.body, env, depth)
            else:
                self.block(st.orelse, env, depth)
            return
        if isinstance(st, ast.Return):
            raise _Return(self.expr(st.value, env, depth)
                          if st.value is not None else ('const', None))
        if isinstance(st, ast.With):
            for it in st.items:
                v = self.expr(it.context_expr, env, depth)
                if it.optional_vars is not None:
                    if not isinstance(it.optional_vars, ast.Name):
                        self.err(st, 'with-target not modelled')
                    env[it.optional_vars.id] = v
            self.block(st.body, env, depth)
            return
        if isinstance(st, ast.Try):
            self.block(st.body, env, depth)
            self.block(st.orelse, env, depth)
            self.block(st.finalbody, env, depth)
            return
        if isinstance(st, ast.For):
            self.loop(st, env, depth)
            return
        if isinstance(st, ast.Assert):
            return
        if isinstance(st, ast.Continue) and env.get('\0inloop'):
            raise _LoopJump()
        self.err(st, f'statement {type(st).__name__} not modelled')

    def both_branches(self, st, env, depth):
        """A test on the rendered text itself (its length, a prefix, ...):
        both arms are evaluated; what they emit or bind differently is a
        data-dependent treatment of the text and is marked as such."""
        marks = {k: len(v) for k, v in self.traces.items()}
        base = dict(env)
        outs = []
        envs = []
        for arm in (st.body, st.orelse):
            e2 = dict(base)
            for k in ('\0appends', ):
                if k in env:
                    e2[k] = env[k]
            try:
                self.block(arm, e2, depth)
                ended = None
            except _LoopJump as j:
                ended = type(j).__name__
            new = {}
            for k, v in self.traces.items():
                n0 = marks.get(k, 0)
                new[k] = v[n0:]
                del v[n0:]
            outs.append((new, ended))
            envs.append(e2)
        (na, ea), (nb, eb) = outs
        if ea != eb:
            self.err(st, 'only one arm of a test on the rendered text '
                     'leaves the iteration')
        for k in set(na) | set(nb):
            a_, b_ = na.get(k, []), nb.get(k, [])
            if a_ == b_ and ea == eb:
                self.traces[k].extend(a_)
            elif a_ or b_:
                self.traces[k].append(('xform', 'a branch on the rendered '
                                       'text', list(a_) + list(b_)))
        for k in set(envs[0]) | set(envs[1]):
            va, vb = envs[0].get(k), envs[1].get(k)
            if va == vb:
                env[k] = va
                continue
            pa = self.pieces_of(va) if va is not None else None
            pb = self.pieces_of(vb) if vb is not None else None
            if pa is not None and pb is not None:
                env[k] = ('text', [('xform', 'a branch on the rendered text',
                                    list(pa) + list(pb))])
            else:
                env[k] = va if va is not None else vb

    def loop(self, st, env, depth):
        it = self.expr(st.iter, env, depth)
        if st.orelse:
            self.err(st, 'for-else not modelled')
        if it[0] == 'exprs':
            elemv = ('elem', )
        elif it[0] == 'seq':
            elemv = it[1]
        elif it[0] == 'seqf':
            elemv = it[1]
        elif it[0] == 'text' and any(p_[0] == 'xform' for p_ in it[1]):
            # pieces of a text that went through a library call (split,
            # textwrap.wrap, ...): each piece is a part of that text
            elemv = it
        else:
            self.err(st.iter, 'loop over something that is not the '
                     'expression list or a list derived from it')
        pieces_loop = it[0] == 'text'
        if env.get('\0inloop') and pieces_loop:
            # the pieces of one rendered text, inside the loop over the
            # expressions: the body runs in the same iteration
            if not isinstance(st.target, ast.Name):
                self.err(st.target, 'loop target not modelled')
            env[st.target.id] = elemv
            self.block(st.body, env, depth)
            return
        if env.get('\0inloop'):
            self.err(st, 'nested loops over the expressions')
        if not isinstance(st.target, ast.Name):
            self.err(st.target, 'loop target not modelled')
        marks = {k: len(v) for k, v in self.traces.items()}
        lists_before = {k: v for k, v in env.items()
                        if isinstance(v, tuple) and v[0] == 'listlit'}
        env2 = env  # same scope (Python semantics)
        env2[st.target.id] = elemv
        env2['\0inloop'] = True
        env2['\0appends'] = {}
        try:
            self.block(st.body, env2, depth)
        except _LoopJump:
            pass
        finally:
            env2['\0inloop'] = False
        filtered = it[0] == 'seqf'
        for k, v in self.traces.items():
            n0 = marks.get(k, 0)
            if len(v) > n0:
                new = v[n0:]
                del v[n0:]
                v.append(('eachf' if filtered else 'each', new))
        for name, vals in env2.pop('\0appends', {}).items():
            old = lists_before.get(name)
            if old is None or old[1]:
                self.err(st, f'list "{name}" appended to in the loop is '
                         'not an empty list created before it')
            if len(vals) != 1:
                self.err(st, f'{len(vals)} appends to "{name}" per element')
            env[name] = ('seqf' if filtered else 'seq', vals[0])

    # --------------------------------------------------------- expressions
    def concat(self, a, b, node):
        pa, pb = self.pieces_of(a), self.pieces_of(b)
        if pa is None or pb is None:
            self.err(node, 'concatenation of non-text values')
        return ('text', pa + pb)

    def expr(self, e, env, depth):
        if isinstance(e, ast.Constant):
            return ('const', e.value)
        if isinstance(e, ast.Name):
            if e.id in env:
                return env[e.id]
            if e.id in self.mod.funcs:
                return ('func', e.id)
            if e.id in ('str', 'repr', 'format', 'map', 'list', 'tuple',
                        'iter'):
                return ('builtin', e.id)
            if e.id in ('options', 'io', 'os', 'logging', 'textwrap', 're'):
                return ('module', e.id)
            if e.id in self.mod.globals and len(
                    self.mod.globals[e.id]) == 1:
                return self.expr(self.mod.globals[e.id][0], {}, depth)
            if e.id in ('None', 'True', 'False'):
                return ('const', {'None': None, 'True': True,
                                  'False': False}[e.id])
            self.err(e, f'unknown name {e.id}')
        if isinstance(e, ast.Attribute):
            o = self.expr(e.value, env, depth)
            if o[0] == 'args':
                if e.attr not in self.opts:
                    self.err(e, f'option {e.attr} is not a formatting '
                             'option of the valuation')
                self.reads.add(e.attr)
                return ('bool', self.opts[e.attr])
            if o[0] == 'module':
                return ('modattr', o[1], e.attr)
            return ('attr', o, e.attr)
        if isinstance(e, ast.UnaryOp) and isinstance(e.op, ast.Not):
            ov = self.expr(e.operand, env, depth)
            if ov[0] == 'data' or (ov[0] == 'text' and any(
                    p_[0] == 'xform' for p_ in ov[1])):
                return ('data', )
            return ('bool', not self.truth(ov, e.operand))
        if isinstance(e, ast.BoolOp):
            evs = [self.expr(v, env, depth) for v in e.values]
            if any(v[0] == 'data' for v in evs):
                return ('data', )
            vals = [self.truth(v_, n_) for v_, n_ in zip(evs, e.values)]
            return ('bool', all(vals) if isinstance(e.op, ast.And)
                    else any(vals))
        if isinstance(e, ast.Compare) and len(e.ops) == 1 and isinstance(
                e.ops[0], (ast.Is, ast.IsNot, ast.Eq, ast.NotEq)):
            a = self.expr(e.left, env, depth)
            b = self.expr(e.comparators[0], env, depth)
            if a[0] == 'const' and b[0] == 'const':
                r = a[1] == b[1] if not isinstance(
                    e.ops[0], (ast.Is, ast.IsNot)) else a[1] is b[1]
                if isinstance(e.ops[0], (ast.IsNot, ast.NotEq)):
                    r = not r
                return ('bool', r)
            if any(v[0] in ('text', 'data') for v in (a, b)) and all(
                    v[0] in ('text', 'data', 'const') for v in (a, b)):
                return ('data', )  # a test on the rendered text
            self.err(e, 'comparison not decidable')
        if isinstance(e, ast.Subscript):
            o = self.expr(e.value, env, depth)
            po = self.pieces_of(o) if o[0] in ('text', ) else None
            if po is not None:
                return ('text', [('xform', 'a slice', po)])
            if o[0] == 'data':
                return o
        if isinstance(e, (ast.Compare, ast.BinOp, ast.UnaryOp)):
            ops = [e.left] + list(e.comparators) if isinstance(
                e, ast.Compare) else ([e.left, e.right] if isinstance(
                    e, ast.BinOp) else [e.operand])
            if not (isinstance(e, ast.BinOp) and isinstance(e.op, ast.Add)):
                vals = []
                try:
                    vals = [self.expr(x, env, depth) for x in ops]
                except AnalysisError:
                    vals = []
                if vals and any(v[0] in ('text', 'data') for v in vals) \
                        and all(v[0] in ('text', 'data', 'const')
                                for v in vals):
                    return ('data', )
        if isinstance(e, ast.IfExp):
            if self.truth(self.expr(e.test, env, depth), e.test):
                return self.expr(e.body, env, depth)
            return self.expr(e.orelse, env, depth)
        if isinstance(e, ast.List) and not e.elts:
            return ('listlit', [])
        if isinstance(e, ast.Starred):
            return ('starred', self.expr(e.value, env, depth))
        if isinstance(e, ast.JoinedStr):
            ps = []
            for v in e.values:
                if isinstance(v, ast.Constant):
                    ps.append(('lit', str(v.value)))
                elif isinstance(v, ast.FormattedValue):
                    x = self.expr(v.value, env, depth)
                    if x[0] == 'elem':
                        ps.append(('nodestr', ))
                    else:
                        px = self.pieces_of(x)
                        if px is None:
                            self.err(e, 'interpolated value is not text')
                        ps += px
            return ('text', ps)
        if isinstance(e, ast.BinOp) and isinstance(e.op, ast.Add):
            return self.concat(self.expr(e.left, env, depth),
                               self.expr(e.right, env, depth), e)
        if isinstance(e, (ast.ListComp, ast.GeneratorExp)):
            if len(e.generators) != 1:
                self.err(e, 'comprehension with several generators')
            g = e.generators[0]
            it = self.expr(g.iter, env, depth)
            if it[0] == 'exprs':
                elemv = ('elem', )
            elif it[0] in ('seq', 'seqf'):
                elemv = it[1]
            elif it[0] == 'text' and any(p_[0] == 'xform' for p_ in it[1]):
                # the pieces of a rendered text that was taken apart
                elemv = it
            else:
                self.err(e, 'comprehension over something that is not the '
                         'expression list')
            if not isinstance(g.target, ast.Name):
                self.err(e, 'comprehension target not modelled')
            env2 = dict(env)
            env2[g.target.id] = elemv
            tmpl = self.expr(e.elt, env2, depth)
            return ('seqf' if (g.ifs or it[0] == 'seqf') else 'seq', tmpl)
        if isinstance(e, ast.Lambda):
            return ('lambda', e, dict(env))
        if isinstance(e, ast.Call):
            return self.call(e, env, depth)
        self.err(e, 'expression not modelled')

    def apply(self, fv, args, node, depth):
        """Apply a function value to evaluated positional arguments."""
        if fv[0] == 'func':
            nm = fv[1]
            if nm in EMITTERS:
                if len(args) < 2 or args[1][0] != 'elem':
                    self.err(node, 'emitter not applied to one expression '
                             'of the list')
                width = args[2] if len(args) > 2 else ('const', None)
                self.emit(args[0], ('render', EMITTERS[nm], width), node)
                return ('const', None)
            return self.call_function(nm, args, depth + 1, node)
        if fv[0] == 'builtin' and fv[1] in ('list', 'tuple', 'iter'):
            if len(args) == 1 and args[0][0] in ('seq', 'seqf', 'exprs'):
                return args[0]
            self.err(node, f'{fv[1]}() of a value that is not modelled')
        if fv[0] == 'builtin' and fv[1] == 'map':
            if len(args) == 2 and args[1][0] in ('seq', 'seqf', 'exprs'):
                elemv = ('elem', ) if args[1][0] == 'exprs' else args[1][1]
                if args[0][0] == 'func' and args[0][1] in EMITTERS:
                    self.err(node, 'map over an emitter')
                tmpl = self.apply(args[0], [elemv], node, depth)
                return ('seqf' if args[1][0] == 'seqf' else 'seq', tmpl)
            if len(args) == 2 and args[1][0] == 'text':
                # a function mapped over (pieces of) rendered text
                return ('text', [('xform', 'map', self.pieces_of(args[1]))])
            self.err(node, 'map() over something that is not the '
                     'expression list')
        if fv[0] == 'builtin':
            if len(args) == 1 and args[0][0] == 'elem':
                return ('text', [('nodestr', )])
            if len(args) == 1:
                px = self.pieces_of(args[0])
                if px is not None:
                    return ('text', px)
            self.err(node, f'{fv[1]}() of a value that is not modelled')
        if fv[0] == 'lambda':
            lam, cenv = fv[1], dict(fv[2])
            ps = [a.arg for a in lam.args.args]
            if len(ps) != len(args):
                self.err(node, 'lambda arity')
            cenv.update(dict(zip(ps, args)))
            return self.expr(lam.body, cenv, depth)
        if fv[0] == 'localfunc':
            self.err(node, 'nested function call not modelled')
        self.err(node, 'call of something that is not a known function')

    def call(self, e, env, depth):
        cn = call_name(e) or ''
        # options.args()
        if cn.endswith('options.args') or cn == 'args':
            return ('args', )
        if cn in ('io.StringIO', 'StringIO'):
            self.nbuf += 1
            return self.new_file(f'buf{self.nbuf}')
        if cn == 'open':
            return self.new_file('OPENED:' + (unparse(e.args[0])
                                              if e.args else '?'))
        if cn.startswith(('logging.', 'os.')):
            return ('unknown', cn)
        if cn in ('len', 'bool', 'any', 'all') and len(e.args) == 1 and \
                not e.keywords:
            v = self.expr(e.args[0], env, depth)
            if v[0] in ('text', 'data'):
                return ('data', )
        # evaluate arguments (with *args expansion)
        args = []
        for a in e.args:
            v = self.expr(a, env, depth)
            if v[0] == 'starred':
                if v[1][0] != 'tuple':
                    self.err(e, '*-argument is not a parameter tuple')
                args.extend(v[1][1])
            else:
                args.append(v)
        if e.keywords and isinstance(e.func, ast.Attribute) and isinstance(
                e.func.value, ast.Name) and e.func.value.id in (
                    'textwrap', 're', 'os', 'logging'):
            pass  # options of a library call: irrelevant for the trace
        elif e.keywords:
            # keyword arguments only for the width of the plain emitter
            f0 = self.expr(e.func, env, depth) if isinstance(
                e.func, ast.Name) else None
            if f0 and f0[0] == 'func' and all(k.arg for k in e.keywords):
                fn = self.mod.funcs.get(f0[1])
                names = [x.arg for x in fn.args.args]
                for k in e.keywords:
                    if k.arg not in names or names.index(k.arg) != len(args):
                        self.err(e, 'keyword argument order not modelled')
                    args.append(self.expr(k.value, env, depth))
            else:
                self.err(e, 'keyword arguments not modelled')
        if isinstance(e.func, ast.Attribute):
            o = self.expr(e.func.value, env, depth)
            meth = e.func.attr
            if o[0] == 'file':
                if meth == 'write' and len(args) == 1:
                    ps = self.pieces_of(args[0])
                    if ps is None:
                        if args[0][0] == 'elem':
                            ps = [('badwrite', 'node object')]
                        else:
                            self.err(e, 'written value is not text')
                    for p in ps:
                        self.emit(o, p, e)
                    return ('const', None)
                if meth == 'writelines' and len(args) == 1 and \
                        args[0][0] in ('seq', 'seqf'):
                    ps = self.pieces_of(args[0][1])
                    if ps is None:
                        self.err(e, 'writelines of non-text elements')
                    self.emit(o, ('eachf' if args[0][0] == 'seqf'
                                  else 'each', ps), e)
                    return ('const', None)
                if meth == 'getvalue' and not args:
                    return ('text', list(self.traces[o[1]]))
                if meth in ('close', 'flush', 'seek', 'truncate'):
                    self.emit(o, ('fileop', meth), e)
                    return ('const', None)
                self.err(e, f'stream method {meth} not modelled')
            if o[0] == 'listlit' and meth == 'append' and len(args) == 1:
                if env.get('\0inloop'):
                    nm = e.func.value.id if isinstance(
                        e.func.value, ast.Name) else None
                    if nm is None:
                        self.err(e, 'append to an unnamed list')
                    env['\0appends'].setdefault(nm, []).append(args[0])
                    return ('const', None)
                self.err(e, 'append outside the loop over the expressions')
            if o[0] in ('text', 'const') and self.pieces_of(o) is not None:
                if meth == 'join' and len(args) == 1 and args[0][0] in (
                        'seq', 'seqf'):
                    ps = self.pieces_of(args[0][1])
                    if ps is None:
                        self.err(e, 'join of non-text elements')
                    sep = self.pieces_of(o)
                    return ('text', [('joined', sep, ps,
                                      args[0][0] == 'seqf')])
                if meth == 'join' and len(args) == 1 and \
                        args[0][0] == 'text':
                    # re-joining text that was taken apart before
                    return ('text', [('xform', 'join',
                                      self.pieces_of(args[0]))])
                # any other string method transforms the text
                return ('text', [('xform', meth, self.pieces_of(o))])
            if o[0] == 'module' or o[0] == 'modattr':
                full = unparse(e.func)
                texts = [self.pieces_of(a) for a in args
                         if self.pieces_of(a) is not None]
                if texts:
                    return ('text', [('xform', full, texts[0])])
                return ('unknown', full)
            if o[0] == 'attr':
                self.err(e, 'method call on an unmodelled object')
            self.err(e, f'method {meth} on {o[0]} not modelled')
        fv = self.expr(e.func, env, depth)
        return self.apply(fv, args, e, depth)


def trace_function(mod, fname, opts, params):
    """Evaluate ``mod.fname`` with the given abstract parameter values.
    Returns (return value, {stream label: trace}, option names read)."""
    tr = Tracer(mod, opts)
    args = []
    for p in params:
        if p == 'FILE':
            args.append(tr.new_file('OUT'))
        elif p == 'EXPRS':
            args.append(('exprs', ))
        elif p == 'ELEM':
            args.append(('elem', ))
        elif p == 'WIDTH':
            args.append(('param', 'width'))
        elif p == 'NAME':
            args.append(('param', 'filename'))
        else:
            args.append(p)
    # builtins that take the list: map / list / reversed are resolved here
    rv = tr.call_function(fname, args, 0, mod.func(fname))
    return rv, tr.traces, tr.reads


def flatten(trace):
    """Merge adjacent literals; recurse into 'each'."""
    out = []
    for ev in trace:
        if ev[0] in ('each', 'eachf'):
            ev = (ev[0], flatten(ev[1]))
        if ev[0] == 'lit' and out and out[-1][0] == 'lit':
            out[-1] = ('lit', out[-1][1] + ev[1])
        elif ev[0] == 'lit' and ev[1] == '':
            continue
        else:
            out.append(ev)
    return out


def show(trace):
    parts = []
    for ev in trace:
        if ev[0] in ('each', 'eachf'):
            parts.append(('for each expression' + (
                ' that passes a filter' if ev[0] == 'eachf' else '') +
                ': [' + show(ev[1]) + ']'))
        elif ev[0] == 'lit':
            parts.append(repr(ev[1]))
        elif ev[0] == 'render':
            w = ev[2]
            ws = '' if w == ('const', None) else (
                f', width={w[1]}' if w[0] in ('const', 'param') else ', w')
            parts.append(f'{ev[1]} rendering{ws}')
        elif ev[0] == 'nodestr':
            parts.append('str(expression)')
        elif ev[0] == 'xform':
            parts.append(f'{ev[1]}(' + show(ev[2]) + ')')
        elif ev[0] == 'joined':
            parts.append(f'{show(ev[1])}.join(each: ' + show(ev[2]) + ')')
        else:
            parts.append(str(ev))
    return ', '.join(parts)
