"""Names of the files ddSMT creates by itself contain no free text.

A file name that ddSMT assembles (``open(f'.simp-{n}.diff', 'w')``, the
temporary names) may be built from counters, process / thread ids and the
paths the user gave.  Text that describes something else - the ``__str__`` of
a mutator, a symbol of the input, an option value that is not a path - may
contain ``/`` (two mutator descriptions do: "merge nested
zero_extend/sign_extend", "eliminate ite with bv1 / bv0 cases"), NUL or be
longer than NAME_MAX: ``open`` then raises in the main process and the run
ends with a traceback.

Checked: for every ``open(P, <write mode>)`` whose ``P`` is assembled in
place (f-string, ``+``, ``%``, ``.format``), each dynamic part is an integer
counter of the module (only ever ``+= 1`` / assigned a literal), a call of
``os.getpid`` / ``threading.get_ident`` / ``time.time`` / ``uuid.*``, or a
path taken from the options or from ``os.path`` / ``tempfile``.
"""
import ast

from .astutil import call_name, walk_no_nested
from .loader import AnalysisError, unparse

SAFE_CALLS = ('os.getpid', 'threading.get_ident', 'os.getppid', 'time.time',
              'time.time_ns', 'uuid.uuid4', 'next', 'int', 'len')


def _parts(e):
    if isinstance(e, ast.JoinedStr):
        return [v.value for v in e.values if isinstance(v,
                                                        ast.FormattedValue)]
    if isinstance(e, ast.BinOp) and isinstance(e.op, (ast.Add, ast.Mod)):
        out = []
        for s in (e.left, e.right):
            if isinstance(s, ast.Constant):
                continue
            if isinstance(s, (ast.JoinedStr, ast.BinOp)):
                out.extend(_parts(s) or [s])
            elif isinstance(s, ast.Tuple):
                out.extend(x for x in s.elts
                           if not isinstance(x, ast.Constant))
            else:
                out.append(s)
        return out
    if isinstance(e, ast.Call) and isinstance(
            e.func, ast.Attribute) and e.func.attr == 'format' and \
            isinstance(e.func.value, ast.Constant):
        return [a for a in e.args if not isinstance(a, ast.Constant)] + [
            k.value for k in e.keywords]
    return None


def _counter(m, name):
    """module global only assigned literals / incremented by literals"""
    if name not in m.globals:
        return False
    for st in ast.walk(m.tree):
        if isinstance(st, ast.Assign) and any(
                isinstance(t, ast.Name) and t.id == name
                for t in st.targets):
            if not (isinstance(st.value, ast.Constant) and isinstance(
                    st.value.value, (int, type(None)))):
                return False
        if isinstance(st, ast.AugAssign) and isinstance(
                st.target, ast.Name) and st.target.id == name:
            if not (isinstance(st.value, ast.Constant) and isinstance(
                    st.value.value, int)):
                return False
    return True


def _safe(e, m, f, depth=0):
    if depth > 4:
        return False
    if isinstance(e, ast.Constant):
        return True
    if isinstance(e, ast.Call):
        nm = call_name(e) or ''
        if nm in SAFE_CALLS:
            return True
        if nm.startswith('os.path.') or nm.startswith('tempfile.'):
            return True
        return False
    if isinstance(e, ast.Attribute):
        txt = unparse(e)
        if txt.startswith('options.args().'):
            return e.attr in ('outfile', 'infile')
        if e.attr == 'name':  # TemporaryDirectory().name
            return True
        return False
    if isinstance(e, ast.BinOp):
        return _safe(e.left, m, f, depth + 1) and _safe(e.right, m, f,
                                                        depth + 1)
    if isinstance(e, ast.Name):
        if _counter(m, e.id):
            return True
        if f is None:
            return False
        if e.id in {a.arg for a in f.args.args + f.args.kwonlyargs}:
            # a parameter: what do the callers of f pass?
            prog = getattr(m, '_fn_prog', None)
            if prog is None or depth > 2:
                return False
            pos = [a.arg for a in f.args.args].index(e.id) if e.id in [
                a.arg for a in f.args.args] else None
            sites = 0
            for m2 in prog.pkg_modules():
                m2._fn_prog = prog
                for q2, g in list(m2.funcs.items()) + [('<module>', None)]:
                    it = walk_no_nested(g) if g is not None else [
                        x for st in m2.tree.body if not isinstance(
                            st, (ast.FunctionDef, ast.ClassDef))
                        for x in ast.walk(st)]
                    for c in it:
                        if not isinstance(c, ast.Call):
                            continue
                        fn = c.func
                        nm = fn.id if isinstance(fn, ast.Name) else (
                            fn.attr if isinstance(fn, ast.Attribute)
                            else None)
                        if nm != f.name:
                            continue
                        arg = None
                        for k in c.keywords:
                            if k.arg == e.id:
                                arg = k.value
                        if arg is None and pos is not None and pos < len(
                                c.args):
                            arg = c.args[pos]
                        if arg is None:
                            continue
                        sites += 1
                        if not _safe(arg, m2, g, depth + 1):
                            return False
            return sites > 0
        ds = [st.value for st in walk_no_nested(f)
              if isinstance(st, ast.Assign) and any(
                  isinstance(t, ast.Name) and t.id == e.id
                  for t in st.targets)]
        augs = [st for st in walk_no_nested(f) if isinstance(
            st, ast.AugAssign) and isinstance(st.target, ast.Name)
            and st.target.id == e.id]
        if not ds and not augs:
            return False
        return all(_safe(d, m, f, depth + 1) for d in ds) and all(
            isinstance(a.value, ast.Constant) for a in augs)
    return False


def findings(prog):
    out = []
    n = 0
    for m in prog.pkg_modules():
        m._fn_prog = prog
        for q, f in list(m.funcs.items()) + [('<module>', None)]:
            scope = f if f is not None else m.tree
            it = walk_no_nested(f) if f is not None else [
                x for st in m.tree.body if not isinstance(
                    st, (ast.FunctionDef, ast.ClassDef))
                for x in ast.walk(st)]
            for c in it:
                if not (isinstance(c, ast.Call) and (call_name(c) or '') in (
                        'open', 'io.open', 'os.open', 'codecs.open')
                        and c.args):
                    continue
                mode = None
                if len(c.args) > 1 and isinstance(c.args[1], ast.Constant):
                    mode = c.args[1].value
                for k in c.keywords:
                    if k.arg == 'mode' and isinstance(k.value, ast.Constant):
                        mode = k.value.value
                if call_name(c) != 'os.open' and not (isinstance(
                        mode, str) and set(mode) & set('wax+')):
                    continue
                p = c.args[0]
                if isinstance(p, ast.Name) and f is not None:
                    ds = [st.value for st in walk_no_nested(f)
                          if isinstance(st, ast.Assign) and any(
                              isinstance(t, ast.Name) and t.id == p.id
                              for t in st.targets)]
                    if len(ds) == 1:
                        p = ds[0]
                if isinstance(p, ast.Call) and f is not None:
                    # a private helper that formats the name
                    fn = p.func
                    h = m.funcs.get(fn.id) if isinstance(fn, ast.Name) \
                        else None
                    if h is not None:
                        rets = [r.value for r in walk_no_nested(h)
                                if isinstance(r, ast.Return)
                                and r.value is not None]
                        if len(rets) == 1:
                            hp = _parts(rets[0])
                            if hp is not None:
                                n += 1
                                for part in hp:
                                    if not _safe(part, m, h):
                                        out.append((m, q, c, part))
                                continue
                parts = _parts(p)
                if parts is None:
                    continue
                n += 1
                for part in parts:
                    if not _safe(part, m, f):
                        out.append((m, q, c, part))
    return out, n


def report(chk, prog, rule_id, title, consequence):
    chk.rule(rule_id, title)
    fs, n = findings(prog)
    for (m, q, c, part) in fs:
        chk.check(rule_id, f'{m.name}.{q}', c, False,
                  f'the name of the file opened for writing by '
                  f'"{unparse(c)[:50]}" contains "{unparse(part)[:40]}", '
                  'which is neither a counter, an id nor a path: free text '
                  '(mutator descriptions contain "/") makes open() fail '
                  'with FileNotFoundError -- ' + consequence,
                  loc=m.loc(c), nontrivial=True)
    chk.instance(rule_id, 'package', f'{n} file names assembled in place '
                 'examined', not fs, 'counters, ids and paths only',
                 nontrivial=True)
    if n < 1:
        raise AnalysisError(f'{rule_id}: no assembled file name found '
                            '(debug_utils.dump_diff has one on the pinned '
                            'tree)')
