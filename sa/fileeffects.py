"""File-effect inventory with path provenance (shared by C01, C04, C06).

Every call in the package that creates, truncates, writes, copies onto,
renames or removes a file is listed together with the provenance of its path
argument(s): OUTFILE / INFILE (the two user files), TMP (inside ddSMT's
temporary directory), DERIVED(x) (built from x by concatenation / dirname /
join), LITERAL, or UNKNOWN.  Provenance of a parameter is the union over the
resolved call sites (two levels).
"""
import ast

from .astutil import call_name, opt_read, params_of, bind_args, kw, dotted
from .loader import unparse

WRITE_MODES = set('wax+')


class Effect:

    def __init__(self, mod, func, call, kind, path_expr, prov, writes,
                 detail=''):
        self.mod = mod
        self.func = func  # FunctionDef or None
        self.call = call
        self.kind = kind  # open / os.open / copy-dst / copy-src / replace-dst
        self.path_expr = path_expr
        self.prov = prov  # set of provenance tags
        self.writes = writes  # bool: modifies the file at that path
        self.detail = detail

    @property
    def where(self):
        q = getattr(self.func, '_qualname', '<module>') if self.func else \
            '<module>'
        return f'{self.mod.name}.{q}'


def _enclosing_fn(node):
    n = getattr(node, '_parent', None)
    while n is not None:
        if isinstance(n, ast.FunctionDef):
            return n
        n = getattr(n, '_parent', None)
    return None


class Provenance:

    def __init__(self, prog):
        self.prog = prog
        self._callers = {}

    def callers(self, mod, qualname):
        k = (mod.name, qualname)
        if k not in self._callers:
            res = []
            for om in list(self.prog.modules.values()):
                for c in ast.walk(om.tree):
                    if isinstance(c, ast.Call) and isinstance(
                            c.func, (ast.Name, ast.Attribute)):
                        r = self.prog.resolve_expr(om, c.func)
                        if r and r[0] == 'func' and r[1] is mod and \
                                r[2] == qualname:
                            res.append((om, c))
            self._callers[k] = res
        return self._callers[k]

    def of(self, mod, func, e, depth=0):
        """Set of tags for path expression e evaluated in func of mod."""
        if e is None:
            return {'UNKNOWN'}
        o = opt_read(e)
        if o == 'outfile':
            return {'OUTFILE'}
        if o == 'infile':
            return {'INFILE'}
        if o is not None:
            return {f'OPT:{o}'}
        if isinstance(e, ast.Subscript) and opt_read(e.value) is not None:
            return {f'OPT:{opt_read(e.value)}[]'}
        if isinstance(e, ast.Constant):
            return {'LITERAL'}
        if isinstance(e, ast.JoinedStr):
            tags = set()
            for p in e.values:
                if isinstance(p, ast.FormattedValue):
                    tags |= self.of(mod, func, p.value, depth)
            base = {t for t in tags if t in ('OUTFILE', 'INFILE')}
            if base:
                return {f'DERIVED({t})' for t in base}
            if 'TMP' in tags:
                return {'TMP'}
            return {'LITERAL'} if not tags - {'LITERAL', 'UNKNOWN-LOCAL'} \
                else tags
        if isinstance(e, ast.BinOp) and isinstance(e.op, (ast.Add, ast.Mod)):
            tags = self.of(mod, func, e.left, depth) | self.of(
                mod, func, e.right, depth)
            base = {t for t in tags if t in ('OUTFILE', 'INFILE')}
            if base:
                return {f'DERIVED({t})' for t in base}
            return tags - {'LITERAL'} or {'LITERAL'}
        if isinstance(e, ast.Call) and isinstance(
                e.func, ast.Attribute) and e.func.attr == 'format' and \
                isinstance(e.func.value, ast.Constant) and isinstance(
                    e.func.value.value, str):
            # '{}.tmp-{}'.format(x, y): like the f-string
            tags = set()
            for a in list(e.args) + [k_.value for k_ in e.keywords]:
                tags |= self.of(mod, func, a, depth)
            base = {t for t in tags if t in ('OUTFILE', 'INFILE')}
            if base:
                return {f'DERIVED({t})' for t in base}
            if 'TMP' in tags:
                return {'TMP'}
            return {'LITERAL'} if not tags - {'LITERAL', 'UNKNOWN-LOCAL'} \
                else tags
        if isinstance(e, ast.BinOp) and isinstance(e.op, ast.Div):
            # pathlib: a / b is os.path.join(a, b)
            j = ast.Call(func=ast.Attribute(value=ast.Attribute(
                value=ast.Name(id='os', ctx=ast.Load()), attr='path',
                ctx=ast.Load()), attr='join', ctx=ast.Load()),
                         args=[e.left, e.right], keywords=[])
            return self.of(mod, func, j, depth)
        if isinstance(e, ast.Call):
            nm = call_name(e) or ''
            if nm in ('pathlib.Path', 'Path', 'pathlib.PurePath',
                      'PurePath', 'pathlib.PosixPath') and e.args:
                if len(e.args) == 1:
                    return self.of(mod, func, e.args[0], depth)
                j = ast.Call(func=ast.Attribute(value=ast.Attribute(
                    value=ast.Name(id='os', ctx=ast.Load()), attr='path',
                    ctx=ast.Load()), attr='join', ctx=ast.Load()),
                             args=list(e.args), keywords=[])
                return self.of(mod, func, j, depth)
            if isinstance(e.func, ast.Attribute) and e.func.attr in (
                    'with_suffix', 'with_name', 'with_stem', 'resolve',
                    'absolute', 'expanduser', 'as_posix', 'joinpath') and \
                    nm.split('.')[0] not in ('os', ):
                if e.func.attr == 'joinpath':
                    j = ast.Call(func=ast.Attribute(value=ast.Attribute(
                        value=ast.Name(id='os', ctx=ast.Load()), attr='path',
                        ctx=ast.Load()), attr='join', ctx=ast.Load()),
                                 args=[e.func.value] + list(e.args),
                                 keywords=[])
                    return self.of(mod, func, j, depth)
                tags = self.of(mod, func, e.func.value, depth)
                if e.func.attr.startswith('with_'):
                    base = {t for t in tags if t in ('OUTFILE', 'INFILE')}
                    if base:
                        return {f'DERIVED({t})' for t in base}
                return tags
            if nm == 'os.path.join' and len(e.args) > 1:
                # a later component that can be an absolute path replaces
                # everything before it: a user-supplied path there IS the
                # result; a component that starts with a constant other
                # than "/" is a fragment and only extends the first one
                def fragment(a):
                    if isinstance(a, ast.Constant) and isinstance(
                            a.value, str):
                        return not a.value.startswith('/')
                    if isinstance(a, ast.JoinedStr) and a.values and \
                            isinstance(a.values[0], ast.Constant):
                        v0 = str(a.values[0].value)
                        return bool(v0) and not v0.startswith('/')
                    if isinstance(a, ast.BinOp) and isinstance(
                            a.op, ast.Add):
                        return fragment(a.left)
                    if isinstance(a, ast.Call) and isinstance(
                            a.func, ast.Attribute) and \
                            a.func.attr == 'format' and isinstance(
                                a.func.value, ast.Constant):
                        v0 = str(a.func.value.value)
                        return bool(v0) and v0[0] not in '/{'
                    if isinstance(a, ast.Call) and (call_name(a) or '') in (
                            'os.path.basename', 'str'):
                        return (call_name(a) == 'os.path.basename')
                    return False

                tags = set(self.of(mod, func, e.args[0], depth))
                for a in e.args[1:]:
                    if fragment(a):
                        continue
                    ta = self.of(mod, func, a, depth)
                    user = {t for t in ta if 'INFILE' in t or 'OUTFILE' in t
                            or t.startswith('OPT:')}
                    if user:
                        # may be absolute: the result is that path
                        return {t.replace('DERIVED(', '').rstrip(')')
                                if t.startswith('DERIVED(') else t
                                for t in user}
                    tags |= ta
                base = {t for t in tags if t in ('OUTFILE', 'INFILE')}
                if base:
                    return {f'DERIVED({t})' for t in base}
                if any(t == 'TMP' for t in tags):
                    return {'TMP'}
                der = {t for t in tags if t.startswith('DERIVED(')}
                return der or tags
            if nm in ('os.path.join', 'os.path.dirname', 'os.path.abspath',
                      'os.path.realpath', 'str', 'os.fspath'):
                tags = set()
                for a in e.args:
                    tags |= self.of(mod, func, a, depth)
                base = {t for t in tags if t in ('OUTFILE', 'INFILE')}
                if base:
                    return {f'DERIVED({t})' for t in base}
                if any(t == 'TMP' for t in tags):
                    return {'TMP'}
                der = {t for t in tags if t.startswith('DERIVED(')}
                if der:
                    return der
                return tags
            if nm.endswith('get_tmp_filename') and depth < 3:
                # summary of the function: provenance of what it returns
                try:
                    tm = self.prog.mod('tmpfiles')
                    tf = tm.func('get_tmp_filename')
                except Exception:
                    tm = tf = None
                if tf is not None:
                    acc = set()
                    for r_ in ast.walk(tf):
                        if isinstance(r_, ast.Return) and \
                                r_.value is not None:
                            acc |= self.of(tm, tf, r_.value, depth + 1)
                    bad = {t for t in acc if 'INFILE' in t or 'OUTFILE' in t}
                    if bad:
                        return bad
                return {'TMP'}
            if nm.endswith('get_tmp_filename') or nm.startswith('tempfile.'):
                d = kw(e, 'dir')
                if d is not None:
                    tags = self.of(mod, func, d, depth)
                    der = {t for t in tags if 'OUTFILE' in t or 'INFILE' in t}
                    if der:
                        return {f'DERIVED({t.replace("DERIVED(", "").rstrip(")")})'
                                for t in der}
                return {'TMP'}
            return {'UNKNOWN'}
        if isinstance(e, ast.Attribute):
            # __TMPDIR.name, res.name
            inner = self.of(mod, func, e.value, depth)
            return inner
        if isinstance(e, ast.Name):
            if e.id.startswith('__TMPDIR') or e.id in ('__BINARY',
                                                       '__BINARY_CC'):
                return {'TMP'}
            # a module global bound to a TemporaryDirectory object
            if func is not None and e.id not in params_of(func):
                for q_, g_ in mod.funcs.items():
                    for st in ast.walk(g_):
                        if isinstance(st, ast.Assign) and any(
                                isinstance(t, ast.Name) and t.id == e.id
                                for t in st.targets) and isinstance(
                                    st.value, ast.Call) and (call_name(
                                        st.value) or '').startswith(
                                            'tempfile.') and any(
                                                isinstance(x, ast.Global)
                                                and e.id in x.names
                                                for x in ast.walk(g_)):
                            return {'TMP'}
            if func is not None and e.id in params_of(func):
                if depth >= 3:
                    return {'UNKNOWN'}
                tags = set()
                cs = self.callers(mod, func._qualname)
                if not cs:
                    return {'PARAM-NO-CALLER'}
                for (om, c) in cs:
                    try:
                        b = bind_args(c, func)
                    except Exception:
                        return {'UNKNOWN'}
                    if e.id in b:
                        tags |= self.of(om, _enclosing_fn(c), b[e.id],
                                        depth + 1)
                    else:
                        tags.add('DEFAULT')
                return tags
            # local: union over its assignments in func
            if func is not None:
                tags = set()
                busy = self.__dict__.setdefault('_busy', set())
                bk = (id(func), e.id)
                if bk in busy:
                    return set()  # x = f(x): the other definitions decide
                busy.add(bk)
                try:
                    for st in ast.walk(func):
                        if isinstance(st, ast.Assign) and any(
                                isinstance(t, ast.Name) and t.id == e.id
                                for t in st.targets):
                            tags |= self.of(mod, func, st.value, depth)
                        if isinstance(st, ast.withitem) and isinstance(
                                st.optional_vars, ast.Name) and \
                                st.optional_vars.id == e.id:
                            tags |= {'HANDLE'}
                finally:
                    busy.discard(bk)
                if tags:
                    return tags
                tags = set()
                for st in ():
                    if isinstance(st, ast.Assign) and any(
                            isinstance(t, ast.Name) and t.id == e.id
                            for t in st.targets):
                        tags |= self.of(mod, func, st.value, depth)
                    if isinstance(st, ast.withitem) and isinstance(
                            st.optional_vars, ast.Name) and \
                            st.optional_vars.id == e.id:
                        tags |= {'HANDLE'}
                if tags:
                    return tags
            # module global
            r = self.prog.resolve_name(mod, e.id)
            if r and r[0] == 'global':
                # assigned by functions that declare it global
                tags = set()
                if depth < 3:
                    for q_, g_ in mod.funcs.items():
                        decl = any(isinstance(x, ast.Global)
                                   and e.id in x.names
                                   for x in ast.walk(g_))
                        if not decl:
                            continue
                        for st in ast.walk(g_):
                            if isinstance(st, ast.Assign) and any(
                                    isinstance(t, ast.Name) and t.id == e.id
                                    for t in st.targets):
                                tags |= self.of(mod, g_, st.value, depth + 1)
                user = {t for t in tags if 'INFILE' in t or 'OUTFILE' in t}
                if user:
                    return user
                return {'GLOBAL:' + e.id}
            return {'UNKNOWN-LOCAL'}
        return {'UNKNOWN'}


def inventory(prog):
    """List of Effect for the whole package (bin/ scripts included)."""
    pv = Provenance(prog)
    res = []
    for m in list(prog.modules.values()):
        for c in ast.walk(m.tree):
            if not isinstance(c, ast.Call):
                continue
            nm = call_name(c) or ''
            fn = _enclosing_fn(c)
            a = c.args

            def add(kind, e, writes, detail=''):
                res.append(Effect(m, fn, c, kind, e, pv.of(m, fn, e), writes,
                                  detail))

            if nm in ('open', 'io.open', 'codecs.open') and a:
                mode = a[1] if len(a) > 1 else kw(c, 'mode')
                mtxt = mode.value if isinstance(
                    mode, ast.Constant) else ('r' if mode is None else '?')
                writes = bool(set(str(mtxt)) & (WRITE_MODES | {'?'}))
                add('open', a[0], writes, f'mode {mtxt!r}')
            elif nm == 'os.open' and a:
                flags = unparse(a[1]) if len(a) > 1 else ''
                writes = any(f in flags for f in ('O_WRONLY', 'O_RDWR',
                                                  'O_CREAT', 'O_TRUNC',
                                                  'O_APPEND'))
                add('os.open', a[0], writes, flags)
            elif nm in ('shutil.copy', 'shutil.copy2', 'shutil.copyfile',
                        'shutil.move') and len(a) >= 2:
                add('copy-src', a[0], nm == 'shutil.move', nm)
                add('copy-dst', a[1], True, nm)
            elif nm in ('os.replace', 'os.rename') and len(a) >= 2:
                add('replace-src', a[0], True, nm)
                add('replace-dst', a[1], True, nm)
            elif nm in ('os.unlink', 'os.remove', 'os.truncate',
                        'shutil.rmtree', 'os.rmdir') and a:
                add('remove', a[0], True, nm)
            elif nm in ('tempfile.mkstemp', 'tempfile.mkdtemp',
                        'tempfile.NamedTemporaryFile',
                        'tempfile.TemporaryDirectory',
                        'tempfile.TemporaryFile'):
                add('tempfile', kw(c, 'dir'), False, nm)
            elif isinstance(c.func, ast.Attribute) and c.func.attr in (
                    'write_text', 'write_bytes', 'unlink', 'rename',
                    'replace', 'touch') and nm.split('.')[0] not in ('os', ):
                # pathlib-style
                if c.func.attr in ('replace', ) and not isinstance(
                        c.func.value, ast.Call):
                    # str.replace - ignore unless receiver looks like a path
                    continue
                add('pathlib', c.func.value, True, c.func.attr)
            elif isinstance(c.func, ast.Attribute) and c.func.attr in (
                    'open', 'read_text', 'read_bytes') and not isinstance(
                        c.func.value, ast.Constant) and not (
                            isinstance(c.func.value, ast.Name) and (
                                prog.resolve_name(m, c.func.value.id)
                                or ('', ))[0] in ('module', 'ext')):
                # pathlib-style open on a path object
                if c.func.attr == 'open':
                    mode = a[0] if a else kw(c, 'mode')
                    mtxt = mode.value if isinstance(
                        mode, ast.Constant) else ('r' if mode is None
                                                  else '?')
                    writes = bool(set(str(mtxt)) & (WRITE_MODES | {'?'}))
                    add('open', c.func.value, writes, f'mode {mtxt!r}')
                else:
                    add('open', c.func.value, False, c.func.attr)
            elif isinstance(c.func, ast.Attribute) and \
                    c.func.attr == 'truncate':
                add('truncate', c.func.value, True, 'truncate')
    return res
