"""Static analysis engine for ddSMT (stdlib only; never imports ddsmt)."""
