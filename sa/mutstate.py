"""Mutators keep no state from one call to the next.

A mutator object lives as long as the pass list it belongs to (hierarchical:
the whole reduction; ddmin: one call of ``ddmin_passes``), is shared by all
rounds, is copied into the pool workers at fork time, and its ``filter`` /
``mutations`` / ``global_mutations`` are called in an order that differs
between the strategies (ddmin filters a whole subset before it asks for
mutations; the hierarchical producer runs ahead of the checks and its
candidates may be dropped unchecked).  Anything a protocol method stores on
``self``, on the class or in a module-level container and that depends on the
node, on the input or on the symbol tables is therefore stale or
schedule-dependent when it is read back.

Reported: stores (``self.a = v``, ``self.a[k] = v``, ``self.a.add(..)``,
``Cls.a[..] = v``, writes of module-level containers) inside the protocol
methods of the registered mutator classes and the helpers of the class they
call, unless the stored value is a constant or an option value
(``self.repl_mode = options.args().replace_by_variable_mode`` is the one
instance on the pinned tree).
"""
import ast

from .astutil import call_name, walk_no_nested
from .loader import AnalysisError, unparse

PROTOCOL = ('filter', 'mutations', 'global_mutations')
MUT = ('append', 'extend', 'add', 'update', 'clear', 'pop', 'remove',
       'discard', 'insert', 'setdefault', 'popitem', 'sort', 'appendleft')


def _option_or_const(e, local_consts):
    """does the value depend on constants and options only?"""
    for x in ast.walk(e):
        if isinstance(x, ast.Name) and isinstance(x.ctx, ast.Load):
            if x.id in ('options', 'True', 'False', 'None', 'set', 'dict',
                        'list', 'tuple', 'frozenset', 're') or \
                    x.id in local_consts:
                continue
            return False
    return True


def findings(prog):
    out = []
    nclasses = 0
    for m in prog.pkg_modules():
        if not m.name.startswith('mutators_'):
            continue
        for cd in [x for x in m.tree.body if isinstance(x, ast.ClassDef)]:
            meths = {x.name: x for x in cd.body
                     if isinstance(x, ast.FunctionDef)}
            if not any(p in meths for p in PROTOCOL):
                continue
            nclasses += 1
            # methods reachable from the protocol methods inside the class
            todo = [meths[p] for p in PROTOCOL if p in meths]
            seen = set()
            while todo:
                f = todo.pop()
                if id(f) in seen:
                    continue
                seen.add(id(f))
                for c in ast.walk(f):
                    if isinstance(c, ast.Call) and isinstance(
                            c.func, ast.Attribute) and isinstance(
                                c.func.value, ast.Name) and \
                            c.func.value.id in ('self', 'cls'):
                        for nm, g in meths.items():
                            if nm == c.func.attr or nm.endswith(
                                    c.func.attr) and c.func.attr.startswith(
                                        '__'):
                                todo.append(g)
                    if isinstance(c, ast.Call) and isinstance(
                            c.func, ast.Name) and c.func.id in m.funcs:
                        todo.append(m.funcs[c.func.id])
                scope = f
                gl = {n for x in ast.walk(scope)
                      if isinstance(x, ast.Global) for n in x.names}
                consts = set()
                for st in ast.walk(scope):
                    tg = []
                    val = None
                    if isinstance(st, ast.Assign):
                        tg, val = st.targets, st.value
                    elif isinstance(st, ast.AugAssign):
                        tg, val = [st.target], st.value
                    for t in tg:
                        base = t
                        sub = False
                        while isinstance(base, ast.Subscript):
                            base = base.value
                            sub = True
                        kind = None
                        if isinstance(base, ast.Attribute) and isinstance(
                                base.value, ast.Name) and base.value.id in (
                                    'self', 'cls', cd.name):
                            kind = f'{base.value.id}.{base.attr}'
                        elif isinstance(base, ast.Attribute) and isinstance(
                                base.value, ast.Call) and call_name(
                                    base.value) == 'type':
                            kind = f'type(self).{base.attr}'
                        elif isinstance(base, ast.Name) and (
                                base.id in gl or (sub and base.id in
                                                  m.globals)):
                            kind = f'module global {base.id}'
                        if kind is None:
                            continue
                        if not sub and _option_or_const(val, consts):
                            continue
                        out.append((m, cd.name, f, st,
                                    f'"{unparse(st)[:60]}" stores into '
                                    f'{kind}'))
                    if isinstance(st, ast.Expr) and isinstance(
                            st.value, ast.Call) and isinstance(
                                st.value.func, ast.Attribute) and \
                            st.value.func.attr in MUT:
                        base = st.value.func.value
                        while isinstance(base, ast.Subscript):
                            base = base.value
                        kind = None
                        if isinstance(base, ast.Attribute) and isinstance(
                                base.value, ast.Name) and base.value.id in (
                                    'self', 'cls', cd.name):
                            kind = f'{base.value.id}.{base.attr}'
                        elif isinstance(base, ast.Name) and \
                                base.id in m.globals and base.id not in {
                                    a.arg for a in scope.args.args} and \
                                not any(isinstance(y, ast.Name)
                                        and y.id == base.id and isinstance(
                                            y.ctx, ast.Store)
                                        for y in ast.walk(scope)):
                            kind = f'module global {base.id}'
                        if kind is None:
                            continue
                        out.append((m, cd.name, f, st,
                                    f'"{unparse(st)[:60]}" modifies {kind}'))
    return out, nclasses


def report(chk, prog, rule_id, title, consequence, floor=40):
    chk.rule(rule_id, title)
    fs, n = findings(prog)
    for (m, cls, f, st, text) in fs:
        chk.check(rule_id, f'{m.name}.{cls}.{f.name}', st, False,
                  text + ' in a protocol method of a mutator (or a helper '
                  'it calls): the object outlives the call - later rounds, '
                  'other inputs, the other strategy\'s call order and the '
                  'forked workers read a value computed for another node -- '
                  + consequence, loc=m.loc(st), nontrivial=True)
    chk.instance(rule_id, 'scope', f'{n} mutator classes examined', True,
                 'zero-count rule (witnesses: C02_29, C16_30, C18_29)')
    if n < floor:
        raise AnalysisError(f'{rule_id}: only {n} mutator classes found')
