"""ddSMT's predicates and inference functions on literal SMT-LIB terms.

The functions of smtlib.py that classify a leaf (``is_const``,
``is_bv_const``, ``is_int_const``, ``is_string_const``, ``is_piped_symbol``)
and that infer a sort, a width or a value (``get_sort``, ``get_bv_width``,
``get_bv_constant_value``) are *folded* (sa/fold.py - partial evaluation of
the repository's syntax tree by the checker's own interpreter; nothing of
/repo is imported or run) on a fixed table of literal terms whose answer the
SMT-LIB standard fixes.  The terms are closed (literals and applications of
theory operators to literals, plus one application ``(f x)`` of an
undeclared symbol that stands for "operand of unknown sort"), so no symbol
table is needed and the answer does not depend on any input.

This is the complement of the shape rules: an off-by-one in a length guard,
``all`` for ``any`` over the operand widths, ``lstrip(chars)`` for a prefix
removal, a regular expression that lost its anchor - slips that leave the
shape of the code intact and change its value on particular terms.

For the inference functions the property allows "unknown" (None / -1) or the
actual sort: a probe names the actual value and says whether unknown is
acceptable; for an operand of unknown width *only* unknown is.
"""
from .defaultconsts import canon, evaluate
from .loader import AnalysisError

X = ("Node('fp', Node('_', 'bv0', '1'), Node('_', 'bv0', '8'), "
     "Node('_', 'bv0', '23'))")
U = "Node('f', 'x')"


def BV(n):
    return ('_', 'BitVec', str(n))


FP32 = ('_', 'FloatingPoint', '8', '24')
UNKNOWN = (None, -1, '-1')

# (expression, actual value, unknown acceptable?)
SORT_PROBES = [
    ("get_sort(Node('#b101'))", BV(3), True),
    ("get_sort(Node('#xbeef'))", BV(16), True),
    ("get_sort(Node('#x0'))", BV(4), True),
    ("get_sort(Node('_', 'bv5', '8'))", BV(8), True),
    ("get_sort(Node('12'))", 'Int', True),
    ("get_sort(Node('0'))", 'Int', True),
    ("get_sort(Node('1.5'))", 'Real', True),
    ("get_sort(Node('0.0'))", 'Real', True),
    ("get_sort(Node('true'))", 'Bool', True),
    ("get_sort(Node('false'))", 'Bool', True),
    ("get_sort(Node('not', Node('true')))", 'Bool', True),
    ("get_sort(Node('and', Node('true'), Node('false')))", 'Bool', True),
    ("get_sort(Node('=', Node('1'), Node('2')))", 'Bool', True),
    ("get_sort(Node('<', Node('1'), Node('2')))", 'Bool', True),
    ("get_sort(Node('bvult', Node('#b1'), Node('#b0')))", 'Bool', True),
    ("get_sort(Node('+', Node('1'), Node('2')))", 'Int', True),
    ("get_sort(Node('+', Node('1.0'), Node('2.0')))", 'Real', True),
    ("get_sort(Node('-', Node('1')))", 'Int', True),
    ("get_sort(Node('*', Node('1.5'), Node('2.0')))", 'Real', True),
    ("get_sort(Node('/', Node('1'), Node('2')))", 'Real', True),
    ("get_sort(Node('to_real', Node('1')))", 'Real', True),
    ("get_sort(Node('to_int', Node('1.5')))", 'Int', True),
    ("get_sort(Node('ite', Node('true'), Node('1'), Node('2')))", 'Int',
     True),
    ("get_sort(Node('str.len', Node('\"a\"')))", 'Int', True),
    ("get_sort(Node('concat', Node('#b11'), Node('#b101')))", BV(5), True),
    ("get_sort(Node(Node('_', 'extract', '4', '2'), Node('#b10101')))",
     BV(3), True),
    ("get_sort(Node('bvadd', Node('#b101'), Node('#b011')))", BV(3), True),
    (f"get_sort({X})", FP32, True),
    (f"get_sort(Node('fp.abs', {X}))", FP32, True),
    (f"get_sort(Node('fp.add', Node('RNE'), {X}, {X}))", FP32, True),
    (f"get_sort(Node('fp.lt', {X}, {X}))", 'Bool', True),
    (f"get_sort(Node('fp.isNaN', {X}))", 'Bool', True),
    (f"get_sort(Node('fp.to_real', {X}))", 'Real', True),
    # operands of unknown sort: only "unknown" is right
    (f"get_sort(Node('concat', Node('#b11'), {U}))", None, 'only'),
    (f"get_sort(Node('fp', Node('_', 'bv0', '1'), Node('_', 'bv0', '8'), "
     f"{U}))", None, 'only'),
    (f"get_sort(Node('fp', Node('_', 'bv0', '1'), {U}, "
     "Node('_', 'bv0', '23')))", None, 'only'),
]
WIDTH_PROBES = [
    ("get_bv_width(Node('#b101'))", 3, True),
    ("get_bv_width(Node('#xbeef'))", 16, True),
    ("get_bv_width(Node('_', 'bv5', '8'))", 8, True),
    ("get_bv_width(Node('concat', Node('#b11'), Node('#b101')))", 5, True),
    ("get_bv_width(Node(Node('_', 'zero_extend', '4'), Node('#b101')))", 7,
     True),
    ("get_bv_width(Node(Node('_', 'sign_extend', '2'), Node('#b1')))", 3,
     True),
    ("get_bv_width(Node(Node('_', 'extract', '4', '2'), Node('#b10101')))",
     3, True),
    ("get_bv_width(Node(Node('_', 'repeat', '3'), Node('#b10')))", 6, True),
    ("get_bv_width(Node('bvadd', Node('#b101'), Node('#b011')))", 3, True),
    ("get_bv_width(Node('bvnot', Node('#b01')))", 2, True),
    ("get_bv_width(Node('bvcomp', Node('#b01'), Node('#b01')))", 1, True),
    ("get_bv_width(Node('ite', Node('true'), Node('#b11'), Node('#b00')))",
     2, True),
    (f"get_bv_width(Node('concat', Node('#b11'), {U}))", -1, 'only'),
    (f"get_bv_width(Node('concat', {U}, Node('#b101')))", -1, 'only'),
    (f"get_bv_width(Node(Node('_', 'zero_extend', '4'), {U}))", -1, 'only'),
    (f"get_bv_width(Node(Node('_', 'repeat', '3'), {U}))", -1, 'only'),
    (f"get_bv_width(Node('bvadd', {U}, Node('#b1')))", -1, 'only'),
]
VALUE_PROBES = [
    ("get_bv_constant_value(Node('#b101'))", ('5', '3')),
    ("get_bv_constant_value(Node('#b0'))", ('0', '1')),
    ("get_bv_constant_value(Node('#xbeef'))", ('48879', '16')),
    ("get_bv_constant_value(Node('#xb5'))", ('181', '8')),
    ("get_bv_constant_value(Node('#x0b'))", ('11', '8')),
    ("get_bv_constant_value(Node('#xB5'))", ('181', '8')),
    ("get_bv_constant_value(Node('_', 'bv5', '8'))", ('5', '8')),
]
# lexeme classes of well-formed leaves (SMT-LIB 2.6, section 3.1)
LEX_PROBES = [
    ("is_string_const(Node('\"\"'))", True),
    ("is_string_const(Node('\"a\"'))", True),
    ("is_string_const(Node('\"a\"\"b\"'))", True),
    ("is_string_const(Node('\"a\\nb\"'))", True),
    ("is_string_const(Node('abc'))", False),
    ("is_string_const(Node('12'))", False),
    ("is_string_const(Node('|\"a\"|'))", False),
    ("is_piped_symbol(Node('|a|'))", True),
    ("is_piped_symbol(Node('|a b|'))", True),
    ("is_piped_symbol(Node('|a\\nb|'))", True),
    ("is_piped_symbol(Node('||'))", True),
    ("is_piped_symbol(Node('abc'))", False),
    ("is_piped_symbol(Node('\"|a|\"'))", False),
    ("is_bv_const(Node('#b0'))", True),
    ("is_bv_const(Node('#xbeef'))", True),
    ("is_bv_const(Node('#xBEEF'))", True),
    ("is_bv_const(Node('_', 'bv5', '8'))", True),
    ("is_bv_const(Node('#b12'))", False),
    ("is_bv_const(Node('#xg'))", False),
    ("is_bv_const(Node('b101'))", False),
    ("is_bv_const(Node('_', 'BitVec', '8'))", False),
    ("is_int_const(Node('12'))", True),
    ("is_int_const(Node('0'))", True),
    ("is_int_const(Node('1.5'))", False),
    ("is_int_const(Node('1_0'))", False),
    ("is_int_const(Node('+1'))", False),
    ("is_int_const(Node('x1'))", False),
    ("is_real_const(Node('1.5'))", True),
    ("is_real_const(Node('0.0'))", True),
    ("is_real_const(Node('1e5'))", False),
    ("is_real_const(Node('inf'))", False),
    ("is_real_const(Node('.5'))", False),
]
CONST_PROBES = [
    ("is_const(Node('true'))", True),
    ("is_const(Node('false'))", True),
    ("is_const(Node('12'))", True),
    ("is_const(Node('1.5'))", True),
    ("is_const(Node('#b1'))", True),
    ("is_const(Node('#xbeef'))", True),
    ("is_const(Node('\"a\"'))", True),
    ("is_const(Node('\"\"'))", True),
    ("is_const(Node('_', 'bv5', '8'))", True),
    (f"is_const({X})", True),
    ("is_const(Node('/', Node('1'), Node('2')))", True),
    ("is_const(Node('x'))", False),
    ("is_const(Node('|x|'))", False),
    ("is_const(Node('|12|'))", False),
    (f"is_const({U})", False),
    ("is_const(Node('+', Node('x'), Node('1')))", False),
]


def _run(chk, prog, rule_id, where, probes, kind):
    m = prog.mod('smtlib')
    n = 0
    errors = []
    for pr in probes:
        src, want = pr[0], pr[1]
        unk = pr[2] if len(pr) > 2 else False
        try:
            got = canon(evaluate(prog, src))
        except AnalysisError as e:
            errors.append(f'{src[:50]}: {e}')
            continue
        n += 1
        if kind == 'bool':
            ok = (got is True) if want else (got is False or got is None
                                             or got == 0 or got == ()
                                             or got == '')
            if want and got not in (True, False):
                ok = bool(got) and got is not None
        elif unk == 'only':
            ok = got in UNKNOWN
        else:
            ok = got == canon(want) or (unk and got in UNKNOWN)
        fn = src.split('(')[0]
        try:
            loc = m.loc(m.func(fn))
        except AnalysisError:
            loc = ''
        chk.check(rule_id, f'smtlib.{fn}', src[:70], ok,
                  f'{src[:90]} evaluates to {got!r}; '
                  + (f'only "unknown" is right (an operand has no known '
                     f'width / sort)' if unk == 'only' else
                     f'SMT-LIB says {canon(want)!r}'
                     + (' (or unknown)' if unk else ''))
                  + ' -- ' + where, loc=loc, nontrivial=True)
    if errors and len(errors) * 2 > len(probes):
        raise AnalysisError(f'{rule_id}: {len(errors)} of {len(probes)} '
                            f'probes cannot be folded, e.g. {errors[0]}')
    for e_ in errors[:3]:
        chk.info(rule_id, f'probe not folded: {e_[:160]}') if hasattr(
            chk, 'info') else None
    return n


def report_inference(chk, prog, rule_id, title, consequence):
    chk.rule(rule_id, title)
    n = _run(chk, prog, rule_id, consequence, SORT_PROBES, 'value')
    n += _run(chk, prog, rule_id, consequence, WIDTH_PROBES, 'value')
    n += _run(chk, prog, rule_id, consequence, VALUE_PROBES, 'value')
    chk.floor(rule_id, 'literal terms whose sort / width / value was folded',
              n, 40)


def report_lexemes(chk, prog, rule_id, title, consequence):
    chk.rule(rule_id, title)
    n = _run(chk, prog, rule_id, consequence, LEX_PROBES, 'bool')
    chk.floor(rule_id, 'leaves classified by folding the predicates', n, 24)


def report_constants(chk, prog, rule_id, title, consequence):
    chk.rule(rule_id, title)
    n = _run(chk, prog, rule_id, consequence, CONST_PROBES, 'bool')
    chk.floor(rule_id, 'terms judged by folding is_const', n, 12)
