"""E5: guard-fact vocabulary for s-expression shape.

What each repository predicate *establishes* when it returns true is not
written down by hand: it is re-derived on every run from the predicate's own
body (must-facts at its truthy returns), and instantiated at call sites
(bounded depth).  On top of that a small oracle answers "how long is X at
least / is X a leaf" from a set of facts.
"""
import ast

from .astutil import call_name, params_of, subst, walk_no_nested
from .cfg import cfg_of, decompose, fact_key
from .loader import AnalysisError, unparse

_parse_cache = {}


def parse_expr(text):
    if text not in _parse_cache:
        try:
            _parse_cache[text] = ast.parse(text, mode='eval').body
        except SyntaxError:
            _parse_cache[text] = None
    return _parse_cache[text]


class Summaries:

    def __init__(self, prog):
        self.prog = prog
        self._true = {}
        self._busy = set()

    def _func_for_call(self, mod, call):
        """Resolve a predicate call to (module, FunctionDef, bound-self)."""
        f = call.func
        if isinstance(f, ast.Name):
            r = self.prog.resolve_name(mod, f.id)
            if r and r[0] == 'func':
                return r[1], r[1].funcs[r[2]], None
        if isinstance(f, ast.Attribute):
            # module.func
            r = None
            try:
                r = self.prog.resolve_expr(mod, f)
            except Exception:
                r = None
            if r and r[0] == 'func':
                return r[1], r[1].funcs[r[2]], None
            # Node methods on arbitrary receivers
            if f.attr in ('has_ident', 'is_leaf', 'get_ident'):
                nm = self.prog.mod('nodes')
                q = f'Node.{f.attr}'
                if q in nm.funcs:
                    return nm, nm.funcs[q], f.value
        return None

    def true_facts(self, mod, func):
        """Facts (text, pol) over the parameters that hold whenever func
        returns a truthy value."""
        key = (mod.name, func._qualname)
        if key in self._true:
            return self._true[key]
        if key in self._busy:
            return frozenset()
        self._busy.add(key)
        try:
            cfg = cfg_of(func)
            IN, OUT = cfg.guard_facts()
            params = set(params_of(func))
            acc = None
            for n in cfg.nodes:
                if n.kind != 'stmt' or not isinstance(n.ast, ast.Return):
                    continue
                v = n.ast.value
                if v is None or (isinstance(v, ast.Constant)
                                 and not v.value):
                    continue
                if isinstance(v, (ast.List, ast.Tuple)) and not v.elts:
                    continue
                base = IN.get(n)
                if base is None:
                    continue
                facts = set(base)
                facts.update(fact_key(x, p) for (x, p) in decompose(v, True))
                # keep only facts that mention nothing but parameters
                keep = set()
                for (t, p) in facts:
                    e = parse_expr(t)
                    if e is None:
                        continue
                    names = {x.id for x in ast.walk(e)
                             if isinstance(x, ast.Name)}
                    free = names - params
                    # allow callee names / builtins
                    ok = all(self._is_global(mod, nm) for nm in free)
                    if ok and names & params:
                        keep.add((t, p))
                acc = keep if acc is None else (acc & keep)
            res = frozenset(acc or ())
        finally:
            self._busy.discard(key)
        self._true[key] = res
        return res

    def _is_global(self, mod, name):
        r = self.prog.resolve_name(mod, name)
        return r is not None

    def expand(self, mod, facts, depth=3):
        """Close a fact set under predicate summaries: (f(a, b), True) adds
        the true-facts of f instantiated with a, b."""
        out = set(facts)
        frontier = set(facts)
        for _ in range(depth):
            new = set()
            for (t, pol) in frontier:
                if not pol:
                    continue
                e = parse_expr(t)
                if not isinstance(e, ast.Call):
                    continue
                r = self._func_for_call(mod, e)
                if r is None:
                    continue
                fm, fn, recv = r
                ps = params_of(fn)
                env = {}
                args = list(e.args)
                if recv is not None:
                    env[ps[0]] = recv
                    ps = ps[1:]
                for pn, a in zip(ps, args):
                    env[pn] = a
                for k in e.keywords:
                    if k.arg:
                        env[k.arg] = k.value
                # defaults
                allps = params_of(fn)
                dfl = fn.args.defaults
                for i, d in enumerate(dfl):
                    pn = allps[len(allps) - len(dfl) + i]
                    env.setdefault(pn, d)
                for (ft, fp) in self.true_facts(fm, fn):
                    fe = parse_expr(ft)
                    if fe is None:
                        continue
                    try:
                        inst = unparse(subst(fe, env))
                    except Exception:
                        continue
                    k = (inst, fp)
                    if k not in out:
                        new.add(k)
            if not new:
                break
            out |= new
            frontier = new
        return out


# ------------------------------------------------------------------ oracle
def _const_int(e):
    if isinstance(e, ast.Constant) and isinstance(e.value, int) and not \
            isinstance(e.value, bool):
        return e.value
    if isinstance(e, ast.UnaryOp) and isinstance(e.op, ast.USub):
        v = _const_int(e.operand)
        return -v if v is not None else None
    return None


def minlen(x, facts):
    """Lower bound on len(x) (as a Node: number of children, 0 for a leaf)
    implied by ``facts`` (already expanded).  x is expression text."""
    best = 0
    for (t, pol) in facts:
        e = parse_expr(t)
        if e is None:
            continue
        if isinstance(e, ast.Compare) and len(e.ops) == 1:
            l, op, r = e.left, e.ops[0], e.comparators[0]
            lx = isinstance(l, ast.Call) and call_name(l) == 'len' and \
                unparse(l.args[0]) in (x, f'{x}.data')
            rx = isinstance(r, ast.Call) and call_name(r) == 'len' and \
                unparse(r.args[0]) in (x, f'{x}.data')
            if lx and _const_int(r) is not None:
                n = _const_int(r)
                if isinstance(op, ast.Eq) and pol:
                    best = max(best, n)
                elif isinstance(op, ast.Gt) and pol:
                    best = max(best, n + 1)
                elif isinstance(op, ast.GtE) and pol:
                    best = max(best, n)
                elif isinstance(op, ast.Lt) and not pol:
                    best = max(best, n)
                elif isinstance(op, ast.LtE) and not pol:
                    best = max(best, n + 1)
            elif rx and _const_int(l) is not None:
                n = _const_int(l)
                if isinstance(op, ast.Eq) and pol:
                    best = max(best, n)
                elif isinstance(op, ast.Lt) and pol:
                    best = max(best, n + 1)
                elif isinstance(op, ast.LtE) and pol:
                    best = max(best, n)
                elif isinstance(op, ast.Gt) and not pol:
                    best = max(best, n)
                elif isinstance(op, ast.GtE) and not pol:
                    best = max(best, n + 1)
        # x.data truthy with tuple data  /  x.has_ident()
        if pol and t in (f'{x}.data', ) and ((f'isinstance({x}.data, tuple)',
                                              True) in facts):
            best = max(best, 1)
        if pol and t == f'{x}.data[0].is_leaf()':
            best = max(best, 1)
        if pol and t == f'{x}.has_ident()':
            best = max(best, 1)
        if pol and t == f'{x}.get_ident()':
            best = max(best, 1)
    return best


def known_nonleaf(x, facts):
    if minlen(x, facts) >= 1:
        return True
    for (t, pol) in facts:
        if t == f'{x}.is_leaf()' and not pol:
            return True
        if t == f'is_leaf({x})' and not pol:
            return True
        if t == f'isinstance({x}.data, tuple)' and pol:
            return True
        if t == f'isinstance({x}.data, str)' and not pol:
            return True
    return False


def known_leaf(x, facts):
    for (t, pol) in facts:
        if t in (f'{x}.is_leaf()', f'is_leaf({x})',
                 f'isinstance({x}.data, str)') and pol:
            return True
    # x[0] of something with has_ident
    e = parse_expr(x)
    if isinstance(e, ast.Subscript) and _const_int(e.slice) == 0:
        base = unparse(e.value)
        if (f'{base}.has_ident()', True) in facts or (
                f'{base}.data[0].is_leaf()', True) in facts:
            return True
    if isinstance(e, ast.Call) and isinstance(
            e.func, ast.Attribute) and e.func.attr == 'get_ident':
        return True
    return False
