"""Command line driver: ./check <id> [--tier quick|thorough] [--replay f]."""
import argparse
import importlib
import json
import os
import sys

from . import report

PROPS = [
    'C01', 'C02', 'C03', 'C04', 'C05', 'C06', 'C07', 'C08', 'C09', 'C10',
    'C11', 'C12', 'C13', 'C14', 'C15', 'C16', 'C18'
]


def run_one(prop, tier):
    modname = f'sa.rules.{prop.lower()}'

    def fn(tier):
        mod = importlib.import_module(modname)
        return mod.run(tier)

    return report.run_check(prop, fn, tier)


def main(argv=None):
    ap = argparse.ArgumentParser()
    ap.add_argument('prop')
    ap.add_argument('--tier', default=os.environ.get('VERIF_TIER', 'quick'))
    ap.add_argument('--replay', default=None)
    args = ap.parse_args(argv)
    if args.tier not in ('quick', 'thorough'):
        args.tier = 'quick'
    if args.replay:
        # the replay file names the violated constructs; re-running the rule
        # on the current tree prints the argument for each of them again
        try:
            data = json.load(open(args.replay))
            print(f'replaying {len(data.get("violations", []))} construct(s) '
                  f'of {data.get("property")}')
            for v in data.get('violations', []):
                print(f'  {v["rule"]} {v["loc"]} {v["where"]}: {v["msg"]}')
            args.prop = data.get('property', args.prop)
        except (OSError, ValueError) as e:
            print(f'cannot read replay file: {e}')
    if args.prop == 'all':
        rc = 0
        for p in PROPS:
            rc = max(rc, run_one(p, args.tier))
        return rc
    if args.prop not in PROPS:
        print(f'ANALYSIS-ERROR property={args.prop}: no such check')
        return 2
    return run_one(args.prop, args.tier)


if __name__ == '__main__':
    sys.exit(main())
