"""Inlining of *new* private helpers.

The rules were written against the functions of the pinned tree.  A
refactoring that moves a few statements into a fresh private helper (module
function ``_x``, method ``__x``, nested ``def``) leaves the behaviour
unchanged but hides the statements from a rule that looks at one function.
At load time every call to such a helper - a private function whose name is
NOT in the frozen list ``known_private.json`` (the private functions of the
pinned tree, which are rule anchors of their own) - is replaced by the
helper's body:

* ``x = h(a)`` / ``return h(a)`` / ``h(a)`` / ``yield from h(a)`` where the
  call is the whole statement value: the helper's statements are spliced in
  (locals renamed apart, parameters replaced by the arguments) and its
  single trailing ``return e`` becomes the assignment / return / nothing;
* a helper that is one ``return e`` (or an if-chain of returns) is also
  inlined inside larger expressions, as a conditional expression.

Helpers that are recursive, have early returns inside loops, ``*``/``**``
parameters with non-trivial use, or more than 40 statements are left alone;
so is every call the resolver cannot attribute to exactly one helper.  The
helpers themselves stay in the module and are analysed like any function.
"""
import ast
import json
import os

from .astutil import clone

_KNOWN = None
MAX_STMTS = 80
MAX_ROUNDS = 3


def known_private():
    global _KNOWN
    if _KNOWN is None:
        p = os.path.join(os.path.dirname(os.path.abspath(__file__)),
                         'known_private.json')
        try:
            _KNOWN = {k: set(v) for k, v in json.load(open(p)).items()}
        except (OSError, ValueError):
            _KNOWN = {}
    return _KNOWN


def _is_private(name):
    return name.startswith('_') and not (name.startswith('__')
                                         and name.endswith('__'))


def _doc_free(body):
    if body and isinstance(body[0], ast.Expr) and isinstance(
            body[0].value, ast.Constant) and isinstance(
                body[0].value.value, str):
        return body[1:]
    return body


def _count_stmts(body):
    return sum(1 for st in body for x in ast.walk(st)
               if isinstance(x, ast.stmt))


def _has_yield(f):
    for x in ast.walk(f):
        if isinstance(x, (ast.Yield, ast.YieldFrom)):
            # not inside a nested def
            return True
    return False


def _calls_itself(f, name):
    for x in ast.walk(f):
        if isinstance(x, ast.Call):
            if isinstance(x.func, ast.Name) and x.func.id == name:
                return True
            if isinstance(x.func, ast.Attribute) and x.func.attr == name:
                return True
    return False


def _returns(body):
    return [x for st in body for x in ast.walk(st)
            if isinstance(x, ast.Return)]


def _expr_form(body):
    """Helper body as one expression, if it is `return e` or an if-chain of
    returns ending in a return."""
    body = _doc_free(body)
    if len(body) == 1 and isinstance(body[0], ast.Return) and \
            body[0].value is not None:
        return body[0].value
    if len(body) >= 2 and isinstance(body[0], ast.If) and not body[0].orelse \
            and len(body[0].body) == 1 and isinstance(
                body[0].body[0], ast.Return) and \
            body[0].body[0].value is not None:
        rest = _expr_form(body[1:])
        if rest is not None:
            return ast.IfExp(test=body[0].test, body=body[0].body[0].value,
                             orelse=rest)
    # a search loop: "for x in L: if P(x): return True" then "return False"
    # is any(P(x) for x in L); with the constants exchanged (and the test
    # negated) it is all(..)
    if len(body) == 2 and isinstance(body[0], ast.For) and not \
            body[0].orelse and isinstance(body[0].target, ast.Name) and len(
                body[0].body) == 1 and isinstance(
                    body[0].body[0], ast.If) and not body[0].body[0].orelse \
            and len(body[0].body[0].body) == 1 and isinstance(
                body[0].body[0].body[0], ast.Return) and isinstance(
                    body[1], ast.Return):
        hit = body[0].body[0].body[0].value
        miss = body[1].value
        if isinstance(hit, ast.Constant) and isinstance(
                miss, ast.Constant) and {hit.value, miss.value} == {True,
                                                                     False} \
                and hit.value is not miss.value:
            test = body[0].body[0].test
            if hit.value is True:
                fn, elt = 'any', test
            else:
                fn, elt = 'all', ast.UnaryOp(op=ast.Not(), operand=test)
            gen = ast.GeneratorExp(
                elt=elt, generators=[ast.comprehension(
                    target=body[0].target, iter=body[0].iter, ifs=[],
                    is_async=0)])
            call = ast.Call(func=ast.Name(id=fn, ctx=ast.Load()),
                            args=[gen], keywords=[])
            return ast.fix_missing_locations(ast.copy_location(call,
                                                               body[0]))
    return None


class _Subst(ast.NodeTransformer):

    def __init__(self, env):
        self.env = env

    def visit_Name(self, n):
        if n.id in self.env:
            r = self.env[n.id]
            if isinstance(r, str):
                return ast.copy_location(ast.Name(id=r, ctx=n.ctx), n)
            if isinstance(n.ctx, ast.Load):
                return ast.copy_location(clone(r), n)
        return n

    def visit_Starred(self, n):
        # *args of the helper -> the extra positional arguments
        if isinstance(n.value, ast.Name) and isinstance(
                self.env.get(n.value.id), list):
            return [clone(x) for x in self.env[n.value.id]]
        return self.generic_visit(n)

    def visit_Call(self, n):
        n = self.generic_visit(n)
        flat = []
        for a in n.args:
            if isinstance(a, list):
                flat.extend(a)
            else:
                flat.append(a)
        n.args = flat
        return n

    def visit_FunctionDef(self, n):
        return n  # do not descend into nested definitions

    def visit_Lambda(self, n):
        shadow = {a.arg for a in n.args.args}
        if shadow & set(self.env):
            return n
        return self.generic_visit(n)


def _bind(callee, call, skip_self):
    """parameter -> argument AST (or list for *args); None if not bindable"""
    a = callee.args
    if a.kwarg:
        return None
    names = [x.arg for x in a.posonlyargs + a.args]
    if skip_self and names:
        names = names[1:]
    env = {}
    konly = [x.arg for x in a.kwonlyargs]
    for x, d in zip(a.kwonlyargs, a.kw_defaults):
        if d is not None:
            env[x.arg] = d
    defaults = a.defaults
    allnames = [x.arg for x in a.posonlyargs + a.args]
    for i, d in enumerate(defaults):
        env[allnames[len(allnames) - len(defaults) + i]] = d
    pos = list(call.args)
    if any(isinstance(x, ast.Starred) for x in pos):
        return None
    for n, v in zip(names, pos):
        env[n] = v
    rest = pos[len(names):]
    if rest and not a.vararg:
        return None
    if a.vararg:
        env[a.vararg.arg] = rest
    for k in call.keywords:
        if k.arg is None or k.arg not in names + konly:
            return None
        env[k.arg] = k.value
    for n in names + konly:
        if n not in env:
            return None
    return env


def _needs_local(pname, arg, body_nodes):
    """The argument of parameter ``pname`` contains a call and the helper
    reads the parameter more than once, not at all, or inside a loop /
    comprehension / lambda: substituting the expression would evaluate it a
    different number of times than the call did."""
    if isinstance(arg, list) or not isinstance(arg, ast.AST):
        return False
    def effectful(x):
        if isinstance(x, ast.Call):
            # the option accessor returns the one namespace object
            return not (not x.args and not x.keywords and ast.unparse(
                x.func) in ('options.args', 'args'))
        return isinstance(x, (ast.Yield, ast.YieldFrom, ast.Await,
                              ast.NamedExpr))

    if not any(effectful(x) for x in ast.walk(arg)):
        return False
    uses = 0
    in_loop = False
    for root in body_nodes:
        stack = [(root, False)]
        while stack:
            n, lp = stack.pop()
            if isinstance(n, ast.Name) and n.id == pname and isinstance(
                    n.ctx, ast.Load):
                uses += 1
                in_loop = in_loop or lp
            for c in ast.iter_child_nodes(n):
                inner = lp or isinstance(
                    n, (ast.For, ast.While, ast.ListComp, ast.SetComp,
                        ast.DictComp, ast.GeneratorExp, ast.Lambda,
                        ast.FunctionDef))
                # the iterable of a for loop / of the first generator of a
                # comprehension is evaluated once, before the iteration
                if isinstance(n, ast.For) and c is n.iter:
                    inner = lp
                if isinstance(n, (ast.ListComp, ast.SetComp, ast.DictComp,
                                  ast.GeneratorExp)) and n.generators and \
                        c is n.generators[0] :
                    # handled one level below (comprehension node)
                    inner = lp
                if isinstance(n, ast.comprehension) and c is n.iter:
                    inner = lp
                stack.append((c, inner))
    return uses != 1 or in_loop


def _const_value(e):
    """Python value of a literal expression (constants, tuples/lists of
    constants); raises ValueError otherwise."""
    if isinstance(e, ast.Constant):
        return e.value
    if isinstance(e, (ast.Tuple, ast.List)):
        return tuple(_const_value(x) for x in e.elts)
    raise ValueError


class _FoldTests(ast.NodeTransformer):
    """After a table-driven loop has been unrolled its tests compare
    literals with literals: fold them and drop the dead branches."""

    def visit_Compare(self, n):
        n = self.generic_visit(n)
        if len(n.ops) == 1:
            try:
                a, b = _const_value(n.left), _const_value(n.comparators[0])
            except ValueError:
                return n
            op = n.ops[0]
            try:
                if isinstance(op, ast.Eq):
                    v = a == b
                elif isinstance(op, ast.NotEq):
                    v = a != b
                elif isinstance(op, ast.In):
                    v = a in b
                elif isinstance(op, ast.NotIn):
                    v = a not in b
                elif isinstance(op, ast.Is) and (a is None or b is None):
                    v = a is b
                elif isinstance(op, ast.IsNot) and (a is None or b is None):
                    v = a is not b
                else:
                    return n
            except TypeError:
                return n
            return ast.copy_location(ast.Constant(value=v), n)
        return n

    def visit_UnaryOp(self, n):
        n = self.generic_visit(n)
        if isinstance(n.op, ast.Not):
            if isinstance(n.operand, ast.Constant) and isinstance(
                    n.operand.value, bool):
                return ast.copy_location(
                    ast.Constant(value=not n.operand.value), n)
            if isinstance(n.operand, ast.UnaryOp) and isinstance(
                    n.operand.op, ast.Not) and isinstance(
                        getattr(n, '_bool_ctx', None), bool):
                return n.operand.operand
        return n

    def visit_BoolOp(self, n):
        n = self.generic_visit(n)
        vals = []
        for v in n.values:
            if isinstance(v, ast.Constant) and isinstance(v.value, bool):
                if isinstance(n.op, ast.And):
                    if not v.value:
                        return ast.copy_location(ast.Constant(value=False),
                                                 n)
                    continue
                if v.value:
                    return ast.copy_location(ast.Constant(value=True), n)
                continue
            vals.append(v)
        if not vals:
            return ast.copy_location(ast.Constant(
                value=isinstance(n.op, ast.And)), n)
        if len(vals) == 1 and len(n.values) > 1:
            # "True and x" is x only in a Boolean context; keep BoolOp
            # semantics by leaving a single operand (same truth value and,
            # for and/or with the dropped neutral element, same value)
            return vals[0]
        n.values = vals
        return n

    def visit_IfExp(self, n):
        n = self.generic_visit(n)
        if isinstance(n.test, ast.Constant) and isinstance(
                n.test.value, bool):
            return n.body if n.test.value else n.orelse
        return n

    def visit_If(self, n):
        n = self.generic_visit(n)
        t = n.test
        if isinstance(t, ast.UnaryOp) and isinstance(
                t.op, ast.Not) and isinstance(
                    t.operand, ast.UnaryOp) and isinstance(
                        t.operand.op, ast.Not):
            n.test = t.operand.operand
            t = n.test
        if isinstance(t, ast.Constant) and isinstance(t.value, bool):
            return (n.body if t.value else n.orelse) or None
        return n

    def visit_Assert(self, n):
        n = self.generic_visit(n)
        if isinstance(n.test, ast.Constant) and n.test.value is True:
            return None
        return n

    def visit_Call(self, n):
        n = self.generic_visit(n)
        lam = n.func
        if isinstance(lam, ast.Lambda) and not n.keywords and not any(
                isinstance(a, ast.Starred) for a in n.args):
            ps_ = [a.arg for a in lam.args.args]
            if len(ps_) == len(n.args) and not lam.args.vararg and \
                    not lam.args.kwarg and not lam.args.kwonlyargs:
                uses = {p_: sum(1 for x in ast.walk(lam.body)
                                if isinstance(x, ast.Name) and x.id == p_)
                        for p_ in ps_}
                pure = all(not any(isinstance(x, ast.Call)
                                   for x in ast.walk(a))
                           for a in n.args)
                # every argument is evaluated exactly once either way when
                # each parameter occurs once, in parameter order
                order = [x.id for x in ast.walk(lam.body)
                         if isinstance(x, ast.Name) and x.id in ps_]
                if pure or (all(u == 1 for u in uses.values())
                            and order == ps_):
                    return _Subst(dict(zip(ps_, n.args))).visit(
                        clone(lam.body))
        return n


def _drop_dead(stmts):
    """Remove statements that follow a return/raise/break/continue in the
    same block (left over when a constant test was folded away)."""
    out = []
    for st in stmts:
        for fld in ('body', 'orelse', 'finalbody'):
            b = getattr(st, fld, None)
            if isinstance(b, list) and b and isinstance(b[0], ast.stmt):
                nb = _drop_dead(b)
                setattr(st, fld, nb)
        out.append(st)
        if isinstance(st, (ast.Return, ast.Raise, ast.Break, ast.Continue)):
            break
    return out


def _guards_to_nesting(body):
    """``if c: continue`` as a top-level statement of a loop body becomes
    ``if not c: <rest of the body>`` (same control flow, no jump)."""
    body = list(body)
    for i, st in enumerate(body):
        if isinstance(st, ast.If) and not st.orelse and len(
                st.body) == 1 and isinstance(st.body[0], ast.Continue):
            rest = _guards_to_nesting(body[i + 1:])
            if not rest:
                return body[:i]
            new = ast.If(test=ast.UnaryOp(op=ast.Not(), operand=st.test),
                         body=rest, orelse=[])
            ast.copy_location(new, st)
            ast.copy_location(new.test, st)
            return body[:i] + [new]
    return body


def _assigned_names(body):
    out = set()
    for st in body:
        for x in ast.walk(st):
            if isinstance(x, ast.Name) and isinstance(x.ctx, (ast.Store,
                                                              ast.Del)):
                out.add(x.id)
            if isinstance(x, ast.arg):
                pass
    return out


class Inliner:

    def __init__(self, tree, modname):
        self.tree = tree
        self.modname = modname
        self.known = known_private().get(modname, set())
        self.counter = 0
        self.caller_names = set()
        self.notes = []
        # module-level namedtuples: name -> field list
        self.ntuples = {}
        for st in tree.body:
            if isinstance(st, ast.Assign) and len(st.targets) == 1 and \
                    isinstance(st.targets[0], ast.Name) and isinstance(
                        st.value, ast.Call) and ast.unparse(
                            st.value.func) in ('collections.namedtuple',
                                               'namedtuple') and len(
                                                   st.value.args) == 2:
                fl = st.value.args[1]
                if isinstance(fl, (ast.List, ast.Tuple)) and all(
                        isinstance(x, ast.Constant) for x in fl.elts):
                    self.ntuples[st.targets[0].id] = [x.value
                                                      for x in fl.elts]
                elif isinstance(fl, ast.Constant) and isinstance(
                        fl.value, str):
                    self.ntuples[st.targets[0].id] = fl.value.replace(
                        ',', ' ').split()
        # module functions and class methods by (class or None, name)
        self.defs = {}
        for st in tree.body:
            if isinstance(st, ast.FunctionDef):
                self.defs[(None, st.name)] = (st, st.name)
            elif isinstance(st, ast.ClassDef):
                for s2 in st.body:
                    if isinstance(s2, ast.FunctionDef):
                        self.defs[(st.name, s2.name)] = (s2,
                                                         f'{st.name}.{s2.name}')

    def helper_for(self, call, cls, closures):
        """-> (FunctionDef, skip_self) for a call of a new private helper"""
        f = call.func
        if isinstance(f, ast.Name):
            if f.id in closures:
                return closures[f.id], False
            d = self.defs.get((None, f.id))
            if d and _is_private(f.id) and d[1] not in self.known:
                return d[0], False
        if isinstance(f, ast.Attribute) and isinstance(
                f.value, ast.Name) and f.value.id in ('self', 'cls') and \
                cls is not None:
            d = self.defs.get((cls, f.attr))
            if d and _is_private(f.attr) and d[1] not in self.known:
                static = any(isinstance(x, ast.Name) and x.id in (
                    'staticmethod', ) for x in d[0].decorator_list)
                return d[0], not static
        return None, False

    def eligible(self, h):
        body = _doc_free(h.body)
        if h.decorator_list and not all(
                isinstance(x, ast.Name) and x.id in ('staticmethod',
                                                     'classmethod')
                for x in h.decorator_list):
            return False
        if _count_stmts(body) > MAX_STMTS or _calls_itself(h, h.name):
            return False
        return True

    def inplace_params(self, h, env, kind, target):
        """Parameters of h that may be worked on in place in the caller's own
        variable: ``a, pos = h(text, pos)`` where every return of h gives the
        parameter itself back at the position the caller assigns to the
        variable it passed (the cursor idiom of scanners).  -> {param: name
        of the caller's variable}"""
        if kind != 'assign' or not target or len(target) != 1 or \
                not isinstance(target[0], (ast.Tuple, ast.List)):
            return {}
        tel = target[0].elts
        rets = [r for r in ast.walk(h) if isinstance(r, ast.Return)]
        nested = [x for x in ast.walk(h) if isinstance(
            x, (ast.FunctionDef, ast.Lambda)) and x is not h]
        if not rets or nested:
            return {}
        if not all(isinstance(r.value, ast.Tuple) and len(
                r.value.elts) == len(tel) for r in rets):
            return {}
        res = {}
        for pn, arg in env.items():
            if not isinstance(arg, ast.Name):
                continue
            for i, t in enumerate(tel):
                if isinstance(t, ast.Name) and t.id == arg.id and all(
                        isinstance(r.value.elts[i], ast.Name)
                        and r.value.elts[i].id == pn for r in rets):
                    # the caller's variable must not be read by another
                    # argument or clash with a local of h
                    others = [a_ for p2, a_ in env.items() if p2 != pn
                              and not isinstance(a_, list)]
                    if any(isinstance(y, ast.Name) and y.id == arg.id
                           for a_ in others for y in ast.walk(a_)):
                        continue
                    locs = _assigned_names(h.body) - {pn}
                    if arg.id in locs:
                        continue
                    res[pn] = arg.id
        return res

    # ------------------------------------------------------- statements
    def splice(self, h, call, skip_self, kind, target):
        """Statements replacing `target = h(...)` (kind assign), `return
        h(...)` (return), `h(...)` (expr) or `yield from h(...)`."""
        env = _bind(h, call, skip_self)
        if env is None:
            return None
        body = [clone(st) for st in _doc_free(h.body)]
        gen = _has_yield(h)
        if gen and kind != 'yieldfrom':
            return None
        if not gen and kind == 'yieldfrom':
            return None
        rets = _returns(body)
        tail = None
        if rets:
            last = body[-1]
            if kind == 'yieldfrom':
                if any(r.value is not None for r in rets):
                    return None
                # bare returns inside a generator: only as last statement
                if not (len(rets) == 1 and rets[0] is last):
                    return None
                body = body[:-1]
            else:
                # early "return" are allowed only as top-level statements of
                # the helper forming an if-chain; general case: exactly one
                # return, the last statement
                if len(rets) == 1 and rets[0] is last:
                    tail = last.value
                    body = body[:-1]
                else:
                    lr = self.splice_loop_returns(h, body, env, skip_self,
                                                  kind, target)
                    if lr is not None:
                        return lr
                    return self.splice_ifchain(h, body, env, skip_self,
                                               kind, target)
        self.counter += 1
        suffix = f'__inl{self.counter}'
        outer = {n_ for st_ in body for x_ in ast.walk(st_)
                 if isinstance(x_, (ast.Nonlocal, ast.Global))
                 for n_ in x_.names}
        if outer:
            body = [st_ for st_ in body
                    if not isinstance(st_, ast.Nonlocal)]
        assigned = _assigned_names(body) - outer
        ren = {n: n + suffix for n in assigned
               if n not in env and n in self.caller_names}
        # "t = h(..)" where h ends in "return r" (r a local of h): r becomes
        # t itself, which restores the code as it was before the extraction
        if kind == 'assign' and isinstance(tail, ast.Name) and \
                tail.id in assigned and tail.id not in env and len(
                    target) == 1 and isinstance(target[0], ast.Name):
            tn = target[0].id
            used_in_args = any(isinstance(x, ast.Name) and x.id == tn
                               for a_ in env.values()
                               for x in (ast.walk(a_) if isinstance(
                                   a_, ast.AST) else []))
            if not used_in_args and tn not in assigned - {tail.id}:
                ren[tail.id] = tn
                tail = None
                kind = 'expr'
        full = dict(env)
        full.update(ren)
        out = []
        # a parameter the helper rebinds becomes a local initialised with
        # the argument
        inplace = self.inplace_params(h, env, kind, target)
        for pn_, cn_ in inplace.items():
            full[pn_] = cn_
        for pn in [p_ for p_ in env if not isinstance(env[p_], list)
                   and p_ not in inplace
                   and (p_ in assigned or _needs_local(
                       p_, env[p_], body + ([tail] if tail is not None
                                            else [])))]:
            out.append(ast.Assign(
                targets=[ast.Name(id=pn + suffix, ctx=ast.Store())],
                value=clone(env[pn])))
            full[pn] = pn + suffix
        sub = _Subst(full)
        for st in body:
            r = sub.visit(st)
            out.extend(r if isinstance(r, list) else [r])
        if kind == 'assign':
            val = sub.visit(clone(tail)) if tail is not None else \
                ast.Constant(value=None)
            out.append(ast.Assign(targets=[clone(t) for t in target],
                                  value=val))
        elif kind == 'return':
            val = sub.visit(clone(tail)) if tail is not None else None
            out.append(ast.Return(value=val))
        elif kind == 'expr' and tail is not None:
            out.append(ast.Expr(value=sub.visit(clone(tail))))
        if any(isinstance(v_, ast.Constant) for v_ in env.values()
               if not isinstance(v_, list)):
            folded = []
            for st in out:
                r_ = _FoldTests().visit(st)
                if r_ is None:
                    continue
                folded.extend(r_ if isinstance(r_, list) else [r_])
            out = _drop_dead(folded)
        for st in out:
            for x in ast.walk(st):
                ast.copy_location(x, call) if not hasattr(
                    x, 'lineno') else None
        return out or [ast.Pass()]

    def fuse(self, h, loop, skip_self):
        """``for T in g(args): BODY`` with g a new private generator: g's
        body with every ``yield E`` replaced by ``T = E; BODY``."""
        env = _bind(h, loop.iter, skip_self)
        if env is None:
            return None
        gbody = [clone(st) for st in _doc_free(h.body)]
        for st in gbody:
            for x in ast.walk(st):
                if isinstance(x, (ast.Return, ast.YieldFrom)):
                    return None
                if isinstance(x, ast.Yield) and not isinstance(
                        getattr(x, '_stmt_ok', None), bool):
                    pass
        # yields must be whole statements
        for st in gbody:
            for x in ast.walk(st):
                if isinstance(x, ast.Expr) and isinstance(x.value,
                                                          ast.Yield):
                    x.value._as_stmt = True
        for st in gbody:
            for x in ast.walk(st):
                if isinstance(x, ast.Yield) and not getattr(x, '_as_stmt',
                                                            False):
                    return None
        # the consumer body must not break/continue its loop
        for st in loop.body:
            for x in ast.walk(st):
                if isinstance(x, (ast.Break, ast.Continue)):
                    return None
        self.counter += 1
        suffix = f'__inl{self.counter}'
        assigned = _assigned_names(gbody)
        ren = {n: n + suffix for n in assigned
               if n not in env and n in self.caller_names}
        # "for a, b in g(..)" with g yielding tuples of its own locals: the
        # locals become a and b themselves (the code as it was before the
        # generator was extracted)
        direct = False
        if isinstance(loop.target, ast.Tuple) and all(
                isinstance(x, ast.Name) for x in loop.target.elts):
            ys = [x.value for st in gbody for x in ast.walk(st)
                  if isinstance(x, ast.Yield)]
            tn = [x.id for x in loop.target.elts]
            if ys and all(isinstance(y, ast.Tuple) and len(y.elts) == len(tn)
                          and all(isinstance(z, ast.Name) for z in y.elts)
                          for y in ys):
                maps = {tuple(z.id for z in y.elts) for y in ys}
                if len(maps) == 1:
                    src = list(maps)[0]
                    others = assigned - set(src)
                    if len(set(src)) == len(src) and not (
                            set(tn) & others) and not (set(src) & set(env)):
                        for a_, b_ in zip(src, tn):
                            ren[a_] = b_
                        direct = True
        # "for x in g(..)" with g yielding one of its own locals: the local
        # becomes x itself (unless the consumer rebinds x)
        if isinstance(loop.target, ast.Name) and not direct:
            ys = [x.value for st in gbody for x in ast.walk(st)
                  if isinstance(x, ast.Yield)]
            if ys and all(isinstance(y, ast.Name) for y in ys) and len(
                    {y.id for y in ys}) == 1:
                src1 = ys[0].id
                tn1 = loop.target.id
                rebinds = any(isinstance(y, ast.Name) and y.id == tn1
                              and isinstance(y.ctx, (ast.Store, ast.Del))
                              for b in loop.body for y in ast.walk(b))
                if src1 in assigned and src1 not in env and not rebinds \
                        and tn1 not in (assigned - {src1}) and \
                        tn1 not in env:
                    ren[src1] = tn1
                    direct = True
        full = dict(env)
        full.update(ren)
        pre = []
        for pn in [p_ for p_ in env if not isinstance(env[p_], list)
                   and (p_ in assigned or _needs_local(p_, env[p_], gbody))]:
            pre.append(ast.Assign(
                targets=[ast.Name(id=pn + suffix, ctx=ast.Store())],
                value=clone(env[pn])))
            full[pn] = pn + suffix
        sub = _Subst(full)
        tgt = loop.target
        me = self

        def consumer(value):
            """statements for one yielded value"""
            body = [clone(b) for b in loop.body]
            if isinstance(tgt, ast.Name) and isinstance(
                    value, ast.Call) and isinstance(
                        value.func, ast.Name) and \
                    value.func.id in me.ntuples and not value.keywords:
                fields = me.ntuples[value.func.id]
                uses = [x for b in body for x in ast.walk(b)
                        if isinstance(x, ast.Name) and x.id == tgt.id]
                attrs = [x for b in body for x in ast.walk(b)
                         if isinstance(x, ast.Attribute) and isinstance(
                             x.value, ast.Name) and x.value.id == tgt.id
                         and x.attr in fields]
                if len(uses) == len(attrs) and len(value.args) == len(
                        fields):
                    amap = dict(zip(fields, value.args))

                    class A(ast.NodeTransformer):

                        def visit_Attribute(self, n):
                            n = self.generic_visit(n)
                            if isinstance(n.value, ast.Name) and \
                                    n.value.id == tgt.id and \
                                    n.attr in amap:
                                return clone(amap[n.attr])
                            return n

                    return [A().visit(b) for b in body]
            if direct:
                return body
            return [ast.Assign(targets=[clone(tgt)], value=value)] + body

        class Y(ast.NodeTransformer):

            def visit_FunctionDef(self, n):
                return n

            def visit_Expr(self, n):
                if isinstance(n.value, ast.Yield):
                    v = n.value.value if n.value.value is not None else \
                        ast.Constant(value=None)
                    return consumer(v)
                return n

        out = list(pre)
        for st in gbody:
            r = sub.visit(st)
            for st2 in (r if isinstance(r, list) else [r]):
                r2 = Y().visit(st2)
                out.extend(r2 if isinstance(r2, list) else [r2])
        return out or [ast.Pass()]

    def splice_loop_returns(self, h, body, env, skip_self, kind, target):
        """``t = h(..)`` where h ends in ``while True:`` and returns only
        from inside that loop (not from a nested loop, no break of its own):
        every ``return v`` becomes ``t = v; break``."""
        bare = kind == 'expr' and all(
            r.value is None for st_ in body for r in ast.walk(st_)
            if isinstance(r, ast.Return))
        tuple_t = kind == 'assign' and target and len(
            target) == 1 and isinstance(target[0], ast.Tuple) and all(
                isinstance(x, ast.Name) for x in target[0].elts)
        if not bare and (kind != 'assign' or not body or len(
                target) != 1 or not (isinstance(target[0], ast.Name)
                                     or tuple_t)):
            return None
        # ``while True: .. break ..`` followed by the single ``return Y``:
        # every break of that loop is ``return Y``
        if len(body) >= 2 and isinstance(body[-1], ast.Return) and \
                body[-1].value is not None and isinstance(
                    body[-2], ast.While) and isinstance(
                        body[-2].test, ast.Constant) and \
                body[-2].test.value is True and not body[-2].orelse:
            final = body[-1]

            class B(ast.NodeTransformer):

                def visit_While(self_, n):
                    return n

                def visit_For(self_, n):
                    return n

                def visit_FunctionDef(self_, n):
                    return n

                def visit_Break(self_, n):
                    return ast.copy_location(
                        ast.Return(value=clone(final.value)), n)

            lp = body[-2]
            lp.body = [B().visit(x) for x in lp.body]
            body = body[:-1]
        outer_ = {n_ for st_ in body for x_ in ast.walk(st_)
                  if isinstance(x_, (ast.Nonlocal, ast.Global))
                  for n_ in x_.names}
        body = [st_ for st_ in body if not isinstance(st_, ast.Nonlocal)]
        if not body:
            return None
        loop = body[-1]
        if not (isinstance(loop, ast.While) and isinstance(
                loop.test, ast.Constant) and loop.test.value is True
                and not loop.orelse):
            return None
        for st in body[:-1]:
            if any(isinstance(x, ast.Return) for x in ast.walk(st)):
                return None

        def ok_block(stmts, nested):
            for st in stmts:
                if isinstance(st, (ast.FunctionDef, ast.Lambda)):
                    return False
                if isinstance(st, ast.Break) and not nested:
                    return False
                if isinstance(st, ast.Return) and nested:
                    return False
                if isinstance(st, (ast.For, ast.While)):
                    if not ok_block(st.body + st.orelse, True):
                        return False
                    continue
                for fld in ('body', 'orelse', 'finalbody'):
                    b = getattr(st, fld, None)
                    if isinstance(b, list) and b and isinstance(
                            b[0], ast.stmt) and not ok_block(b, nested):
                        return False
                if getattr(st, 'handlers', None):
                    return False
            return True

        if not ok_block(loop.body, False):
            return None
        self.counter += 1
        suffix = f'__inl{self.counter}'
        assigned = _assigned_names(body) - outer_
        inplace = self.inplace_params(h, env, kind, target) \
            if tuple_t else {}
        tname = target[0].id if not bare and not tuple_t else None
        if tname is not None and tname in assigned:
            return None
        clash = set()
        if tuple_t:
            clash = {x.id for x in target[0].elts if x.id in assigned
                     and x.id not in inplace.values()}
            if clash & set(env):
                return None
        ren = {n: n + suffix for n in assigned
               if n not in env and (n in self.caller_names or n in clash)}
        full = dict(env)
        full.update(ren)
        for pn_, cn_ in inplace.items():
            full[pn_] = cn_
        pre = []
        for pn in [p_ for p_ in env if not isinstance(env[p_], list)
                   and p_ not in inplace
                   and (p_ in assigned or _needs_local(p_, env[p_], body))]:
            pre.append(ast.Assign(
                targets=[ast.Name(id=pn + suffix, ctx=ast.Store())],
                value=clone(env[pn])))
            full[pn] = pn + suffix
        tgt0 = target[0] if not bare else None

        class R(ast.NodeTransformer):

            def visit_FunctionDef(self_, n):
                return n

            def visit_Return(self_, n):
                if bare:
                    return ast.Break()
                val = n.value if n.value is not None else ast.Constant(
                    value=None)
                if tuple_t:
                    # component-wise; a component that is the in-place
                    # parameter itself needs no assignment
                    out_ = []
                    for t_, v_ in zip(tgt0.elts, val.elts):
                        if isinstance(v_, ast.Name) and inplace.get(
                                v_.id) == t_.id:
                            continue
                        out_.append(ast.Assign(
                            targets=[ast.Name(id=t_.id, ctx=ast.Store())],
                            value=v_))
                    return out_ + [ast.Break()]
                return [ast.Assign(targets=[ast.Name(id=tname,
                                                     ctx=ast.Store())],
                                   value=val), ast.Break()]

        # first the renaming of the helper's names, then the returns (their
        # targets are names of the caller)
        sub = _Subst(full)
        res = list(pre)
        for st in body:
            r = sub.visit(st)
            for st2 in (r if isinstance(r, list) else [r]):
                r2 = R().visit(st2)
                res.extend(r2 if isinstance(r2, list) else [r2])
        return res

    def splice_ifchain(self, h, body, env, skip_self, kind, target):
        """Helper whose top-level statements are `if c: ...; return e` arms
        followed by a final return: becomes if/elif/else assigning the
        result (no return inside loops)."""
        for st in body:
            for x in ast.walk(st):
                if isinstance(x, (ast.For, ast.While)) and any(
                        isinstance(y, ast.Return) for y in ast.walk(x)):
                    return None
        self.counter += 1
        suffix = f'__inl{self.counter}'
        outer = {n_ for st_ in body for x_ in ast.walk(st_)
                 if isinstance(x_, (ast.Nonlocal, ast.Global))
                 for n_ in x_.names}
        if outer:
            body = [st_ for st_ in body
                    if not isinstance(st_, ast.Nonlocal)]
        assigned = _assigned_names(body) - outer
        ren = {n: n + suffix for n in assigned
               if n not in env and n in self.caller_names}
        full = dict(env)
        full.update(ren)
        pre = []
        inplace = self.inplace_params(h, env, kind, target)
        for pn_, cn_ in inplace.items():
            full[pn_] = cn_
        for pn in [p_ for p_ in env if not isinstance(env[p_], list)
                   and p_ not in inplace
                   and (p_ in assigned or _needs_local(p_, env[p_], body))]:
            pre.append(ast.Assign(
                targets=[ast.Name(id=pn + suffix, ctx=ast.Store())],
                value=clone(env[pn])))
            full[pn] = pn + suffix
        sub = _Subst(full)

        def conv(stmts):
            """statements -> (new statements, terminated?)"""
            out = []
            for i, st in enumerate(stmts):
                if isinstance(st, ast.Return):
                    val = st.value if st.value is not None else \
                        ast.Constant(value=None)
                    if kind == 'assign':
                        out.append(ast.Assign(
                            targets=[clone(t) for t in target], value=val))
                    elif kind == 'return':
                        out.append(ast.Return(value=st.value))
                    elif st.value is not None:
                        out.append(ast.Expr(value=val))
                    return out, True
                if isinstance(st, ast.If) and any(
                        isinstance(x, ast.Return) for x in ast.walk(st)):
                    # some path through this statement returns: the
                    # statements after it are written into both arms (the
                    # paths that return never reach them)
                    rest = stmts[i + 1:]
                    b, tb = conv(list(st.body) + [clone(r) for r in rest])
                    o, to = conv(list(st.orelse) + [clone(r) for r in rest])
                    new = ast.If(test=st.test, body=b or [ast.Pass()],
                                 orelse=o)
                    out.append(new)
                    return out, tb and to
                if any(isinstance(x, ast.Return) for x in ast.walk(st)):
                    raise _NoInline()
                out.append(st)
            # the end of the helper is reached without a return
            if kind == 'assign':
                out.append(ast.Assign(targets=[clone(t) for t in target],
                                      value=ast.Constant(value=None)))
            elif kind == 'return':
                out.append(ast.Return(value=None))
            return out, False

        try:
            new, term = conv(body)
        except _NoInline:
            return None
        res = list(pre)
        for st in new:
            r = sub.visit(st)
            res.extend(r if isinstance(r, list) else [r])
        return res or [ast.Pass()]

    # ---------------------------------------------------------- driver
    def run(self):
        for _ in range(MAX_ROUNDS):
            changed = False
            for st in self.tree.body:
                if isinstance(st, ast.FunctionDef):
                    changed |= self.function(st, None)
                elif isinstance(st, ast.ClassDef):
                    for s2 in st.body:
                        if isinstance(s2, ast.FunctionDef):
                            changed |= self.function(s2, st.name)
            if not changed:
                break
        self.drop_absorbed()
        self.fold_getattr()
        self.unroll_literal_loops()
        self.expand_literal_comprehensions()
        self.fold_getattr()
        self.split_tuple_assigns()
        self.propagate_callable_aliases()
        self.fold_getattr()
        self.forward_loop_iterables()
        self.scalarise_namedtuples()
        self.desugar_globals_dict()
        self.lower_conditional_arguments()
        self.split_on_flag()
        self.split_on_conditional_callable()
        self.split_on_conditional_tuple()
        self.lower_table_lookups()
        self.split_tuple_assigns()
        self.fold_constant_fstrings()
        self.forward_result_temps()
        self.fuse_sentinel_breaks()
        self.fold_literal_tests()
        ast.fix_missing_locations(self.tree)
        return self.tree

    def fuse_sentinel_breaks(self):
        """``while True: .. X = None; break .. X = <text>; break`` followed by
        ``if X is None: return``: the sentinel exit is the return itself (what
        inlining a helper that returned ``None, pos`` for "not found" leaves
        behind).  The test after the loop is dropped when every other break
        of the loop is preceded by an assignment of a value that is never
        None (a ``str.join`` call, a literal)."""
        def never_none(e):
            if isinstance(e, (ast.JoinedStr, ast.List, ast.Tuple, ast.Dict)):
                return True
            if isinstance(e, ast.Constant):
                return e.value is not None
            if isinstance(e, ast.Call) and isinstance(
                    e.func, ast.Attribute) and e.func.attr == 'join':
                return True
            return False

        def own_blocks(loop):
            """blocks of the loop body that belong to this loop"""
            out = []

            def rec(stmts):
                out.append(stmts)
                for st in stmts:
                    if isinstance(st, (ast.For, ast.While, ast.FunctionDef,
                                       ast.ClassDef)):
                        continue
                    for fld in ('body', 'orelse', 'finalbody'):
                        b = getattr(st, fld, None)
                        if isinstance(b, list) and b and isinstance(
                                b[0], ast.stmt):
                            rec(b)
                    for h_ in getattr(st, 'handlers', []) or []:
                        rec(h_.body)

            rec(loop.body)
            return out

        for f in [x for x in ast.walk(self.tree)
                  if isinstance(x, ast.FunctionDef)]:
            for holder in ast.walk(f):
                for fld in ('body', 'orelse'):
                    blk = getattr(holder, fld, None)
                    if not (isinstance(blk, list) and blk and isinstance(
                            blk[0], ast.stmt)):
                        continue
                    i = 0
                    while i + 1 < len(blk):
                        lp, nxt = blk[i], blk[i + 1]
                        i += 1
                        if not (isinstance(lp, ast.While) and isinstance(
                                lp.test, ast.Constant) and lp.test.value is
                                True and not lp.orelse and isinstance(
                                    nxt, ast.If) and not nxt.orelse and len(
                                        nxt.body) == 1 and isinstance(
                                            nxt.body[0], ast.Return)):
                            continue
                        t = nxt.test
                        if not (isinstance(t, ast.Compare) and len(
                                t.ops) == 1 and isinstance(
                                    t.ops[0], ast.Is) and isinstance(
                                        t.left, ast.Name) and isinstance(
                                            t.comparators[0], ast.Constant)
                                and t.comparators[0].value is None):
                            continue
                        x = t.left.id
                        covered = True
                        did = False
                        for b in own_blocks(lp):
                            j = 0
                            while j < len(b):
                                st = b[j]
                                if isinstance(st, ast.Break):
                                    prev = b[j - 1] if j > 0 else None
                                    if isinstance(prev, ast.Assign) and len(
                                            prev.targets) == 1 and isinstance(
                                                prev.targets[0], ast.Name) \
                                            and prev.targets[0].id == x:
                                        if isinstance(
                                                prev.value, ast.Constant) \
                                                and prev.value.value is None:
                                            b[j - 1:j + 1] = [
                                                clone(nxt.body[0])]
                                            did = True
                                            continue
                                        if not never_none(prev.value):
                                            covered = False
                                    else:
                                        covered = False
                                j += 1
                        if did:
                            self.notes.append(
                                f'{f.name}: the exit "{x} = None; break" of '
                                f'the loop at line {lp.lineno} written as '
                                'the return it leads to')
                            if covered:
                                blk.remove(nxt)
                                i -= 1

    def fold_literal_tests(self):
        """``if True:`` / ``if False:`` / ``x if True else y`` left behind by
        the substitution of a literal argument: the dead arm is dropped."""
        class F(ast.NodeTransformer):

            def visit_If(self_, n):
                n = self_.generic_visit(n)
                t = n.test
                if isinstance(t, ast.Constant) and isinstance(t.value, bool):
                    return (n.body if t.value else n.orelse) or ast.Pass()
                return n

            def visit_IfExp(self_, n):
                n = self_.generic_visit(n)
                t = n.test
                if isinstance(t, ast.Constant) and isinstance(t.value, bool):
                    return n.body if t.value else n.orelse
                return n

        F().visit(self.tree)

    def forward_result_temps(self):
        """``h__res1 = x`` (a temporary of this normaliser bound to a plain
        name) directly followed by the ``if`` that is its only reader: the
        test reads ``x``."""
        for f in [x for x in ast.walk(self.tree)
                  if isinstance(x, ast.FunctionDef)]:
            loads = {}
            for x in ast.walk(f):
                if isinstance(x, ast.Name) and isinstance(x.ctx, ast.Load):
                    loads[x.id] = loads.get(x.id, 0) + 1
            for x in ast.walk(f):
                for fld in ('body', 'orelse', 'finalbody'):
                    blk = getattr(x, fld, None)
                    if not (isinstance(blk, list) and blk and isinstance(
                            blk[0], ast.stmt)):
                        continue
                    i = 0
                    while i + 1 < len(blk):
                        a, b = blk[i], blk[i + 1]
                        if isinstance(a, ast.Assign) and len(
                                a.targets) == 1 and isinstance(
                                    a.targets[0], ast.Name) and \
                                '__res' in a.targets[0].id and isinstance(
                                    a.value, ast.Name) and isinstance(
                                        b, ast.If):
                            t = a.targets[0].id
                            inb = sum(1 for y in ast.walk(b.test)
                                      if isinstance(y, ast.Name)
                                      and y.id == t)
                            if inb and inb == loads.get(t, 0):
                                b.test = _Subst({t: a.value}).visit(b.test)
                                del blk[i]
                                continue
                        i += 1

    def fold_constant_fstrings(self):
        """``f'--match-{'out'}{'-cc'}'`` (left over when a table-driven
        loop or a helper with constant arguments was written out) is the
        string constant it denotes; ``'a' + 'b'`` likewise."""
        class F(ast.NodeTransformer):

            def visit_JoinedStr(self_, n):
                n = self_.generic_visit(n)
                out = ''
                for p_ in n.values:
                    if isinstance(p_, ast.Constant) and isinstance(
                            p_.value, str):
                        out += p_.value
                    elif isinstance(p_, ast.FormattedValue) and isinstance(
                            p_.value, ast.Constant) and isinstance(
                                p_.value.value, str) and \
                            p_.conversion == -1 and p_.format_spec is None:
                        out += p_.value.value
                    else:
                        return n
                return ast.copy_location(ast.Constant(value=out), n)

            def visit_BinOp(self_, n):
                n = self_.generic_visit(n)
                if isinstance(n.op, ast.Add) and isinstance(
                        n.left, ast.Constant) and isinstance(
                            n.right, ast.Constant) and isinstance(
                                n.left.value, str) and isinstance(
                                    n.right.value, str):
                    return ast.copy_location(ast.Constant(
                        value=n.left.value + n.right.value), n)
                return n

        touched = {n.split(':')[0].split('.')[-1] for n in self.notes
                   if ':' in n}
        for f in ast.walk(self.tree):
            if isinstance(f, ast.FunctionDef) and f.name in touched:
                F().visit(f)

    def propagate_callable_aliases(self):
        """``take = visit.pop`` (one binding, a plain name / attribute
        reference, the receiver never rebound) with ``take`` used only as
        ``take(..)``: the calls are written ``visit.pop(..)``.  Only in
        functions this normaliser has rewritten."""
        touched = {n.split(':')[0].split('.')[-1] for n in self.notes
                   if ':' in n}
        for f in ast.walk(self.tree):
            if not (isinstance(f, ast.FunctionDef) and f.name in touched):
                continue
            params = {a.arg for a in f.args.args}
            binds, loads = {}, {}
            for x in ast.walk(f):
                if isinstance(x, ast.Assign):
                    for t in x.targets:
                        for y in ast.walk(t):
                            if isinstance(y, ast.Name):
                                binds.setdefault(y.id, []).append(x)
                elif isinstance(x, (ast.For, ast.AugAssign,
                                    ast.comprehension, ast.NamedExpr)):
                    for y in ast.walk(x.target):
                        if isinstance(y, ast.Name):
                            binds.setdefault(y.id, []).append(None)
            par = {}
            for p_ in ast.walk(f):
                for c_ in ast.iter_child_nodes(p_):
                    par[id(c_)] = p_
            for v, sts in list(binds.items()):
                if v in params or len(sts) != 1 or sts[0] is None:
                    continue
                st = sts[0]
                if len(st.targets) != 1 or not isinstance(
                        st.targets[0], ast.Name):
                    continue
                val = st.value
                if isinstance(val, ast.Name):
                    root = val.id
                    if root in binds or root in params:
                        continue  # not a function / builtin name
                elif isinstance(val, ast.Attribute) and isinstance(
                        val.value, ast.Name):
                    root = val.value.id
                    # the receiver must be bound once, before
                    if len(binds.get(root, [])) > 1:
                        continue
                else:
                    continue
                uses = [x for x in ast.walk(f) if isinstance(x, ast.Name)
                        and x.id == v and isinstance(x.ctx, ast.Load)]
                if not uses or not all(isinstance(par.get(id(u)), ast.Call)
                                       and par[id(u)].func is u
                                       for u in uses):
                    continue
                for u in uses:
                    par[id(u)].func = clone(val)
                # drop the binding
                for x in ast.walk(f):
                    for fld in ('body', 'orelse', 'finalbody'):
                        blk = getattr(x, fld, None)
                        if isinstance(blk, list) and st in blk:
                            blk.remove(st)
                            if not blk:
                                blk.append(ast.Pass())
                self.notes.append(f'{f.name}: callable alias "{v}" written '
                                  f'as {ast.unparse(val)}')

    def forward_loop_iterables(self):
        """``v = E`` directly followed by ``for t in v:`` where these are
        the only reads of ``v`` in the function: the loop iterates over ``E``
        (``E`` is evaluated at the same point either way).  Only applied in
        functions that were rewritten by this normaliser."""
        touched = {n.split(':')[0].split('.')[-1] for n in self.notes
                   if ':' in n}
        for f in ast.walk(self.tree):
            if not (isinstance(f, ast.FunctionDef) and f.name in touched):
                continue
            loads = {}
            for x in ast.walk(f):
                if isinstance(x, ast.Name) and isinstance(x.ctx, ast.Load):
                    loads[x.id] = loads.get(x.id, 0) + 1
            pairs = {}
            for x in ast.walk(f):
                for fld in ('body', 'orelse', 'finalbody'):
                    blk = getattr(x, fld, None)
                    if not (isinstance(blk, list) and blk and isinstance(
                            blk[0], ast.stmt)):
                        continue
                    for i in range(len(blk) - 1):
                        a, b = blk[i], blk[i + 1]
                        if isinstance(a, ast.Assign) and len(
                                a.targets) == 1 and isinstance(
                                    a.targets[0], ast.Name) and isinstance(
                                        b, ast.For) and isinstance(
                                            b.iter, ast.Name) and \
                                b.iter.id == a.targets[0].id:
                            pairs.setdefault(a.targets[0].id, []).append(
                                (blk, a, b))
            for v, ps in pairs.items():
                if loads.get(v, 0) != len(ps):
                    continue
                for (blk, a, b) in ps:
                    b.iter = a.value
                    blk.remove(a)
                self.notes.append(f'{f.name}: iterable "{v}" forwarded into '
                                  'its loop')

    def lower_conditional_arguments(self):
        """``r.m(A if T else B)`` as a statement of its own becomes
        ``if T: r.m(A) else: r.m(B)`` when the receiver is a plain name /
        attribute / constant subscript and T has no call besides ``==``-like
        comparisons (so evaluating T before the receiver changes nothing)."""
        def simple_recv(e):
            if isinstance(e, ast.Name):
                return True
            if isinstance(e, ast.Attribute):
                return simple_recv(e.value)
            if isinstance(e, ast.Subscript):
                return simple_recv(e.value) and isinstance(
                    e.slice, (ast.Constant, ast.UnaryOp, ast.Name))
            return False

        for x in ast.walk(self.tree):
            for fld in ('body', 'orelse', 'finalbody'):
                blk = getattr(x, fld, None)
                if not (isinstance(blk, list) and blk and isinstance(
                        blk[0], ast.stmt)):
                    continue
                for i, st in enumerate(blk):
                    if not (isinstance(st, ast.Expr) and isinstance(
                            st.value, ast.Call)):
                        continue
                    c = st.value
                    if c.keywords or len(c.args) != 1 or not isinstance(
                            c.args[0], ast.IfExp):
                        continue
                    if not (isinstance(c.func, ast.Attribute)
                            and simple_recv(c.func.value)):
                        continue
                    ie = c.args[0]
                    if any(isinstance(y, (ast.Call, ast.Yield, ast.Await,
                                          ast.NamedExpr))
                           for y in ast.walk(ie.test)):
                        continue
                    a = ast.Expr(value=ast.Call(func=clone(c.func),
                                                args=[ie.body], keywords=[]))
                    b = ast.Expr(value=ast.Call(func=clone(c.func),
                                                args=[ie.orelse],
                                                keywords=[]))
                    new = ast.If(test=ie.test, body=[a], orelse=[b])
                    for n_ in (new, a, b, a.value, b.value):
                        ast.copy_location(n_, st)
                    blk[i] = new

    def lower_table_lookups(self):
        """``v = T.get(K[, D])`` / guarded ``v = T[K]`` with T a module-
        level dict literal of constants that nothing writes (at most 24 rows)
        and K a plain name becomes the if-chain it abbreviates, rows with
        the same value grouped: ``if K in (k1, k2): v = V1 elif ..: v = V2
        else: v = D``.  An ``if`` that directly follows and tests ``v`` is
        copied into every arm with ``v`` replaced by the row's value (tests
        on constants folded)."""
        tables = {}
        for st in self.tree.body:
            if isinstance(st, ast.Assign) and len(st.targets) == 1 and \
                    isinstance(st.targets[0], ast.Name) and isinstance(
                        st.value, ast.Dict) and st.value.keys and len(
                            st.value.keys) <= 24 and all(
                                isinstance(k, ast.Constant)
                                for k in st.value.keys) and all(
                                    isinstance(v, ast.Constant)
                                    for v in st.value.values):
                tables[st.targets[0].id] = st.value
        if not tables:
            return
        MUT = ('append', 'extend', 'add', 'update', 'clear', 'pop', 'remove',
               'discard', 'insert', 'setdefault', 'popitem', 'sort')
        for x in ast.walk(self.tree):
            tg = []
            if isinstance(x, (ast.Assign, ast.Delete)):
                tg = x.targets
            elif isinstance(x, ast.AugAssign):
                tg = [x.target]
            for t in tg:
                if isinstance(t, ast.Subscript) and isinstance(
                        t.value, ast.Name):
                    tables.pop(t.value.id, None)
            if isinstance(x, ast.Call) and isinstance(
                    x.func, ast.Attribute) and x.func.attr in MUT and \
                    isinstance(x.func.value, ast.Name):
                tables.pop(x.func.value.id, None)
            if isinstance(x, ast.FunctionDef):
                for g in ast.walk(x):
                    if isinstance(g, ast.Global):
                        for n_ in g.names:
                            tables.pop(n_, None)
        if not tables:
            return

        def chain(var, key, tab, default, follow, at):
            groups = []
            for k, v in zip(tab.keys, tab.values):
                for g in groups:
                    if ast.dump(g[0]) == ast.dump(v):
                        g[1].append(k)
                        break
                else:
                    groups.append((v, [k]))
            arms = []
            for v, ks in groups + [(default, None)]:
                body = [ast.Assign(targets=[ast.Name(id=var,
                                                     ctx=ast.Store())],
                                   value=clone(v))]
                if follow is not None:
                    f2 = _Subst({var: v}).visit(clone(follow))
                    f2 = _FoldTests().visit(f2)
                    if isinstance(f2, list):
                        body += f2
                    elif f2 is not None:
                        body.append(f2)
                arms.append((ks, body))
            node = None
            for ks, body in reversed(arms):
                if ks is None:
                    node = body
                    continue
                test = ast.Compare(
                    left=clone(key), ops=[ast.In()],
                    comparators=[ast.Tuple(elts=[clone(k) for k in ks],
                                           ctx=ast.Load())])
                node = [ast.If(test=test, body=body, orelse=node or [])]
            for y in node:
                for z in ast.walk(y):
                    ast.copy_location(z, at)
            return _drop_dead(node)

        for f in [x for x in ast.walk(self.tree)
                  if isinstance(x, ast.FunctionDef)]:
            nb = {}
            for x in ast.walk(f):
                if isinstance(x, ast.Name) and isinstance(x.ctx, ast.Store):
                    nb[x.id] = nb.get(x.id, 0) + 1
            for x in ast.walk(f):
                for fld in ('body', 'orelse', 'finalbody'):
                    blk = getattr(x, fld, None)
                    if not (isinstance(blk, list) and blk and isinstance(
                            blk[0], ast.stmt)):
                        continue
                    i = 0
                    while i < len(blk):
                        st = blk[i]
                        i += 1
                        if not (isinstance(st, ast.Assign) and len(
                                st.targets) == 1 and isinstance(
                                    st.targets[0], ast.Name) and isinstance(
                                        st.value, ast.Call) and isinstance(
                                            st.value.func, ast.Attribute)
                                and st.value.func.attr == 'get'
                                and isinstance(st.value.func.value, ast.Name)
                                and st.value.func.value.id in tables
                                and 1 <= len(st.value.args) <= 2
                                and not st.value.keywords
                                and isinstance(st.value.args[0], ast.Name)):
                            continue
                        var = st.targets[0].id
                        if nb.get(var, 0) != 1:
                            continue
                        dflt = st.value.args[1] if len(
                            st.value.args) == 2 else ast.Constant(value=None)
                        if not isinstance(dflt, ast.Constant):
                            continue
                        follow = None
                        if i < len(blk) and isinstance(
                                blk[i], ast.If) and any(
                                    isinstance(y, ast.Name) and y.id == var
                                    for y in ast.walk(blk[i].test)):
                            follow = blk[i]
                        new = chain(var, st.value.args[0],
                                    tables[st.value.func.value.id], dflt,
                                    follow, st)
                        j = i - 1
                        blk[j:j + (2 if follow is not None else 1)] = new
                        i = j + len(new)
                        self.notes.append(
                            f'{f.name}: lookup in constant table '
                            f'{st.value.func.value.id} written as an '
                            'if-chain')

    def split_on_conditional_tuple(self):
        """``a, b = (A1, B1) if C else (A2, B2)`` followed by at most six
        further statements of the block becomes ``if C: a, b = A1, B1; rest
        else: a, b = A2, B2; rest`` (tail duplication: the same statements
        run in the same order either way).  In each arm, a target bound to a
        call-free value whose free names are not rebound in the rest is
        substituted into the rest.  ``zip(X, itertools.repeat(c))`` is
        written as the generator ``((z, c) for z in X)``."""
        class Z(ast.NodeTransformer):

            def visit_Call(self_, n):
                n = self_.generic_visit(n)
                if isinstance(n.func, ast.Name) and n.func.id == 'zip' and \
                        len(n.args) == 2 and not n.keywords and isinstance(
                            n.args[1], ast.Call) and ast.unparse(
                                n.args[1].func) in ('itertools.repeat',
                                                    'repeat') and len(
                                                        n.args[1].args) == 1 \
                        and isinstance(n.args[1].args[0], ast.Constant):
                    g = ast.GeneratorExp(
                        elt=ast.Tuple(elts=[ast.Name(id='z__', ctx=ast.Load()),
                                            n.args[1].args[0]],
                                      ctx=ast.Load()),
                        generators=[ast.comprehension(
                            target=ast.Name(id='z__', ctx=ast.Store()),
                            iter=n.args[0], ifs=[], is_async=0)])
                    return ast.copy_location(g, n)
                return n

        Z().visit(self.tree)

        def stores(nodes):
            out = set()
            for st in nodes:
                for y in ast.walk(st):
                    if isinstance(y, ast.Name) and isinstance(
                            y.ctx, (ast.Store, ast.Del)):
                        out.add(y.id)
            return out

        def arm(targets, values, rest, at):
            rest = [clone(r) for r in rest]
            rebound = stores(rest)
            keep = []
            env = {}
            for t, v in zip(targets, values):
                free = {y.id for y in ast.walk(v) if isinstance(y, ast.Name)}
                pure = not any(isinstance(y, (ast.Call, ast.Yield, ast.Await,
                                              ast.NamedExpr, ast.Lambda))
                               for y in ast.walk(v))
                if isinstance(t, ast.Name) and pure and t.id not in rebound \
                        and not (free & (rebound | {x.id for x in targets
                                                    if isinstance(
                                                        x, ast.Name)})):
                    env[t.id] = v
                else:
                    keep.append(ast.Assign(targets=[clone(t)],
                                           value=clone(v)))
            if env:
                sub = _Subst(env)
                rest = [sub.visit(r) for r in rest]

                class J(ast.NodeTransformer):

                    def visit_JoinedStr(self_, n):
                        n = self_.generic_visit(n)
                        vals = []
                        for p_ in n.values:
                            if isinstance(p_, ast.FormattedValue) and \
                                    isinstance(p_.value, ast.Constant) and \
                                    isinstance(p_.value.value, str) and \
                                    p_.conversion == -1 and \
                                    p_.format_spec is None:
                                p_ = ast.Constant(value=p_.value.value)
                            if isinstance(p_, ast.Constant) and vals and \
                                    isinstance(vals[-1], ast.Constant):
                                vals[-1] = ast.Constant(
                                    value=vals[-1].value + p_.value)
                            elif not (isinstance(p_, ast.Constant)
                                      and p_.value == ''):
                                vals.append(p_)
                        n.values = vals
                        return n

                rest = [J().visit(r) for r in rest]
            out = keep + rest
            for x in out:
                for y in ast.walk(x):
                    ast.copy_location(y, at)
            return out or [ast.Pass()]

        changed = True
        while changed:
            changed = False
            for x in ast.walk(self.tree):
                for fld in ('body', 'orelse', 'finalbody'):
                    blk = getattr(x, fld, None)
                    if not (isinstance(blk, list) and blk and isinstance(
                            blk[0], ast.stmt)):
                        continue
                    for i, st in enumerate(blk):
                        if not (isinstance(st, ast.Assign) and len(
                                st.targets) == 1 and isinstance(
                                    st.targets[0], ast.Tuple) and isinstance(
                                        st.value, ast.IfExp)):
                            continue
                        ie = st.value
                        n = len(st.targets[0].elts)
                        if not (isinstance(ie.body, ast.Tuple) and isinstance(
                                ie.orelse, ast.Tuple) and len(
                                    ie.body.elts) == n and len(
                                        ie.orelse.elts) == n):
                            continue
                        rest = blk[i + 1:]
                        if len(rest) > 6:
                            continue
                        a = arm(st.targets[0].elts, ie.body.elts, rest, st)
                        b = arm(st.targets[0].elts, ie.orelse.elts, rest, st)
                        new = ast.If(test=ie.test, body=a, orelse=b)
                        ast.copy_location(new, st)
                        blk[i:] = [new]
                        self.notes.append(
                            f'conditional tuple assignment at line '
                            f'{st.lineno} split into two arms')
                        changed = True
                        break
                    if changed:
                        break
                if changed:
                    break

    def split_on_flag(self):
        """``flag = E`` followed by at most eight statements that consult
        ``flag`` only as a whole test (``if flag``, ``x if flag else y``,
        ``not flag``), at least twice, and never rebind it nor the names E
        reads: the rest is written out once per truth value (``if E: rest
        with flag true; else: rest with flag false``) - the same statements
        in the same order either way, E evaluated once at the same place."""
        def test_uses(nodes, name):
            """(uses as a whole test, other uses)"""
            tests, total = 0, 0
            for st in nodes:
                for y in ast.walk(st):
                    if isinstance(y, ast.Name) and y.id == name:
                        total += 1
                    if isinstance(y, (ast.If, ast.IfExp, ast.While)):
                        t = y.test
                        if isinstance(t, ast.UnaryOp) and isinstance(
                                t.op, ast.Not):
                            t = t.operand
                        if isinstance(t, ast.Name) and t.id == name:
                            tests += 1
            return tests, total - tests

        class S(ast.NodeTransformer):

            def __init__(self_, name, val):
                self_.name, self_.val = name, val

            def visit_Name(self_, n):
                if n.id == self_.name and isinstance(n.ctx, ast.Load):
                    return ast.copy_location(ast.Constant(value=self_.val),
                                             n)
                return n

        def stores(nodes):
            out = set()
            for st in nodes:
                for y in ast.walk(st):
                    if isinstance(y, ast.Name) and isinstance(
                            y.ctx, (ast.Store, ast.Del)):
                        out.add(y.id)
            return out

        changed = True
        while changed:
            changed = False
            for f in [x for x in ast.walk(self.tree)
                      if isinstance(x, ast.FunctionDef)]:
                blk = f.body
                for i, st in enumerate(blk):
                    if not (isinstance(st, ast.Assign) and len(
                            st.targets) == 1 and isinstance(
                                st.targets[0], ast.Name)):
                        continue
                    name = st.targets[0].id
                    rest = blk[i + 1:]
                    if not rest or len(rest) > 8:
                        continue
                    if any(isinstance(y, (ast.FunctionDef, ast.Lambda,
                                          ast.ClassDef))
                           for r in rest for y in ast.walk(r)):
                        continue
                    nt, no = test_uses(rest, name)
                    if nt < 2 or no:
                        continue
                    free = {y.id for y in ast.walk(st.value)
                            if isinstance(y, ast.Name)}
                    if name in stores(rest) or name in free:
                        continue
                    # the flag is dead before the assignment
                    if any(isinstance(y, ast.Name) and y.id == name
                           for b in blk[:i] for y in ast.walk(b)):
                        continue
                    arms = []
                    for val in (True, False):
                        a = [S(name, val).visit(clone(r)) for r in rest]
                        out = []
                        for x in a:
                            r = _FoldTests().visit(x)
                            if r is None:
                                continue
                            out.extend(r if isinstance(r, list) else [r])
                        arms.append(out or [ast.Pass()])
                    new = ast.If(test=st.value, body=arms[0], orelse=arms[1])
                    ast.copy_location(new, st)
                    for a in arms:
                        for x in a:
                            ast.fix_missing_locations(x)
                    blk[i:] = [new]
                    self.notes.append(
                        f'{f.name}: the statements after "{name} = ..." '
                        f'(line {st.lineno}) written out once per truth '
                        'value of the flag')
                    changed = True
                    break
                if changed:
                    break

    def split_on_conditional_callable(self):
        """An if-chain whose every arm binds the same name to a lambda
        (``if c: f = lambda x: A  else: f = lambda x: B``), followed by at
        most six statements that only call ``f``: the statements are written
        into the arms with the calls replaced by the lambda bodies (the
        arguments must be plain names or constants).  Same statements, same
        order, on every path."""
        def arms_of(st, name):
            """list of (lambda) for the leaf arms, or None"""
            out = []

            def rec(x):
                if not isinstance(x, ast.If) or not x.orelse:
                    return False
                for blk in (x.body, x.orelse):
                    if len(blk) == 1 and isinstance(blk[0], ast.If):
                        if not rec(blk[0]):
                            return False
                    elif len(blk) == 1 and isinstance(
                            blk[0], ast.Assign) and len(
                                blk[0].targets) == 1 and isinstance(
                                    blk[0].targets[0], ast.Name) and \
                            blk[0].targets[0].id == name and isinstance(
                                blk[0].value, ast.Lambda):
                        out.append(blk[0])
                    else:
                        return False
                return True

            return out if rec(st) and 2 <= len(out) <= 4 else None

        def first_name(st):
            x = st
            while isinstance(x, ast.If):
                x = x.body[0] if x.body else None
            if isinstance(x, ast.Assign) and len(
                    x.targets) == 1 and isinstance(x.targets[0], ast.Name):
                return x.targets[0].id
            return None

        changed = True
        while changed:
            changed = False
            for f in [x for x in ast.walk(self.tree)
                      if isinstance(x, ast.FunctionDef)]:
                blk = f.body
                for i, st in enumerate(blk):
                    if not isinstance(st, ast.If):
                        continue
                    name = first_name(st)
                    if name is None:
                        continue
                    arms = arms_of(st, name)
                    if arms is None:
                        continue
                    rest = blk[i + 1:]
                    if not rest or len(rest) > 6:
                        continue
                    uses = [y for r in rest for y in ast.walk(r)
                            if isinstance(y, ast.Name) and y.id == name]
                    calls = [y for r in rest for y in ast.walk(r)
                             if isinstance(y, ast.Call) and isinstance(
                                 y.func, ast.Name) and y.func.id == name]
                    if not uses or len(uses) != len(calls) or any(
                            isinstance(u.ctx, ast.Store) for u in uses):
                        continue
                    if any(c.keywords or not all(
                            isinstance(a, (ast.Name, ast.Constant))
                            for a in c.args) for c in calls):
                        continue
                    # the free names of the lambdas are not rebound in rest
                    bound = {y.id for r in rest for y in ast.walk(r)
                             if isinstance(y, ast.Name) and isinstance(
                                 y.ctx, (ast.Store, ast.Del))}
                    free = {y.id for a in arms for y in ast.walk(a.value.body)
                            if isinstance(y, ast.Name)}
                    if free & bound - {p_.arg for a in arms
                                       for p_ in a.value.args.args}:
                        continue
                    for a in arms:
                        lam = a.value
                        new = []
                        for r in rest:
                            r2 = _Subst({name: lam}).visit(clone(r))
                            r2 = _FoldTests().visit(r2)
                            if r2 is None:
                                continue
                            new.extend(r2 if isinstance(r2, list) else [r2])
                        par = getattr(a, '_arm_parent', None)
                        a._replacement = new or [ast.Pass()]

                    def put(x):
                        for fld in ('body', 'orelse'):
                            b = getattr(x, fld)
                            if len(b) == 1 and isinstance(b[0], ast.If):
                                put(b[0])
                            elif len(b) == 1 and hasattr(b[0],
                                                         '_replacement'):
                                setattr(x, fld, b[0]._replacement)

                    put(st)
                    blk[i + 1:] = []
                    ast.fix_missing_locations(st)
                    self.notes.append(
                        f'{f.name}: the statements after the conditional '
                        f'binding of the callable "{name}" (line '
                        f'{st.lineno}) written into its arms')
                    changed = True
                    break
                if changed:
                    break

    def desugar_globals_dict(self):
        """``globals()['NAME']`` (directly or through a local bound once to
        ``globals()``) with a constant identifier is the module-level name
        itself: a store becomes ``global NAME; NAME = v``, a load ``NAME``."""
        for f in [x for x in ast.walk(self.tree)
                  if isinstance(x, ast.FunctionDef)]:
            aliases = set()
            counts = {}
            for st in ast.walk(f):
                if isinstance(st, ast.Assign):
                    for t in st.targets:
                        if isinstance(t, ast.Name):
                            counts[t.id] = counts.get(t.id, 0) + 1
                            if isinstance(st.value, ast.Call) and isinstance(
                                    st.value.func, ast.Name) and \
                                    st.value.func.id == 'globals' and \
                                    not st.value.args:
                                aliases.add(t.id)
            aliases = {a for a in aliases if counts.get(a) == 1}

            def is_globals(e):
                return (isinstance(e, ast.Call) and isinstance(
                    e.func, ast.Name) and e.func.id == 'globals'
                        and not e.args) or (isinstance(e, ast.Name)
                                            and e.id in aliases)

            names = []

            class G(ast.NodeTransformer):

                def visit_Subscript(self_, n):
                    n = self_.generic_visit(n)
                    if is_globals(n.value) and isinstance(
                            n.slice, ast.Constant) and isinstance(
                                n.slice.value, str) and \
                            n.slice.value.isidentifier():
                        if isinstance(n.ctx, ast.Store):
                            names.append(n.slice.value)
                        return ast.copy_location(
                            ast.Name(id=n.slice.value, ctx=n.ctx), n)
                    return n

            params = {a.arg for a in f.args.args}
            G().visit(f)
            new = [n_ for n_ in dict.fromkeys(names) if n_ not in params]
            if new:
                declared = {n_ for x in ast.walk(f)
                            if isinstance(x, ast.Global) for n_ in x.names}
                add = [n_ for n_ in new if n_ not in declared]
                if add:
                    pos = 1 if (f.body and isinstance(f.body[0], ast.Expr)
                                and isinstance(f.body[0].value,
                                               ast.Constant)) else 0
                    g = ast.Global(names=add)
                    ast.copy_location(g, f.body[0] if f.body else f)
                    f.body.insert(pos, g)
                self.notes.append(f'{f.name}: globals()[...] stores written '
                                  f'as global assignments ({len(new)})')

    def scalarise_namedtuples(self):
        """A local that is only ever bound to ``NT(...)`` of a module-level
        namedtuple and only ever read as ``v.field`` is replaced by one local
        per field (scalar replacement): ``v = NT(a, b)`` -> ``v__x = a;
        v__y = b``, ``v.x`` -> ``v__x``.  Values, order of evaluation and
        control flow are unchanged."""
        if not self.ntuples:
            return
        for f in [x for x in ast.walk(self.tree)
                  if isinstance(x, ast.FunctionDef)]:
            params = {a.arg for a in f.args.args + f.args.kwonlyargs}
            cands = {}
            for st in ast.walk(f):
                if isinstance(st, ast.Assign) and len(
                        st.targets) == 1 and isinstance(
                            st.targets[0], ast.Name) and isinstance(
                                st.value, ast.Call) and isinstance(
                                    st.value.func, ast.Name) and \
                        st.value.func.id in self.ntuples:
                    cands.setdefault(st.targets[0].id, []).append(st)
            for v, defs in list(cands.items()):
                if v in params:
                    continue
                nts = {d.value.func.id for d in defs}
                if len(nts) != 1:
                    continue
                fields = self.ntuples[nts.pop()]
                ok = True
                # every binding of v is one of the constructor calls
                for x in ast.walk(f):
                    if isinstance(x, ast.Name) and x.id == v:
                        par = getattr(x, '_inl_parent', None)
                    if isinstance(x, (ast.For, ast.comprehension)) and any(
                            isinstance(y, ast.Name) and y.id == v
                            for y in ast.walk(x.target)):
                        ok = False
                    if isinstance(x, (ast.AugAssign, ast.NamedExpr)) and \
                            isinstance(x.target, ast.Name) and \
                            x.target.id == v:
                        ok = False
                    if isinstance(x, ast.Assign):
                        for t in x.targets:
                            for y in ast.walk(t):
                                if isinstance(y, ast.Name) and y.id == v \
                                        and x not in defs:
                                    ok = False
                    if isinstance(x, (ast.Global, ast.Nonlocal)) and \
                            v in x.names:
                        ok = False
                # complete argument lists
                bound = []
                for d in defs:
                    c = d.value
                    if any(isinstance(a, ast.Starred) for a in c.args) or \
                            any(k.arg is None for k in c.keywords):
                        ok = False
                        break
                    vals = dict(zip(fields, c.args))
                    for k in c.keywords:
                        vals[k.arg] = k.value
                    if set(vals) != set(fields) or len(c.args) + len(
                            c.keywords) != len(fields):
                        ok = False
                        break
                    # evaluation order as written
                    order = list(fields[:len(c.args)]) + [
                        k.arg for k in c.keywords]
                    bound.append((d, vals, order))
                if not ok:
                    continue
                # every read is v.<field>
                attr_loads = {id(x.value) for x in ast.walk(f)
                              if isinstance(x, ast.Attribute)
                              and isinstance(x.value, ast.Name)
                              and x.value.id == v and x.attr in fields
                              and isinstance(x.ctx, ast.Load)}
                for x in ast.walk(f):
                    if isinstance(x, ast.Name) and x.id == v and isinstance(
                            x.ctx, ast.Load) and id(x) not in attr_loads:
                        ok = False
                if not ok:
                    continue
                used = {x.id for x in ast.walk(f) if isinstance(x, ast.Name)}
                if any(f'{v}__{fl}' in used for fl in fields):
                    continue

                class R(ast.NodeTransformer):

                    def visit_Attribute(self_, n):
                        n = self_.generic_visit(n)
                        if isinstance(n.value, ast.Name) and \
                                n.value.id == v and n.attr in fields:
                            return ast.copy_location(
                                ast.Name(id=f'{v}__{n.attr}', ctx=n.ctx), n)
                        return n

                def rewrite(block):
                    i = 0
                    while i < len(block):
                        st = block[i]
                        hit = [b for b in bound if b[0] is st]
                        if hit:
                            _, vals, order = hit[0]
                            new = []
                            for fl in order:
                                a = ast.Assign(targets=[ast.Name(
                                    id=f'{v}__{fl}', ctx=ast.Store())],
                                    value=vals[fl])
                                ast.copy_location(a, st)
                                new.append(a)
                            block[i:i + 1] = new
                            i += len(new)
                            continue
                        for fld in ('body', 'orelse', 'finalbody'):
                            b2 = getattr(st, fld, None)
                            if isinstance(b2, list) and b2 and isinstance(
                                    b2[0], ast.stmt):
                                rewrite(b2)
                        for h in getattr(st, 'handlers', []) or []:
                            rewrite(h.body)
                        i += 1

                rewrite(f.body)
                R().visit(f)
                self.notes.append(f'{f.name}: namedtuple local "{v}" '
                                  'replaced by one local per field')

    def split_tuple_assigns(self):
        """``a, b = X, Y`` -> ``a = X; b = Y`` in functions that received
        inlined code, when no right-hand side reads a target (the values are
        then the same in both orders of binding)."""
        for f in ast.walk(self.tree):
            if not isinstance(f, ast.FunctionDef):
                continue
            for x in ast.walk(f):
                for fld in ('body', 'orelse', 'finalbody'):
                    blk = getattr(x, fld, None)
                    if not (isinstance(blk, list) and blk and isinstance(
                            blk[0], ast.stmt)):
                        continue
                    i = 0
                    while i < len(blk):
                        st = blk[i]
                        if isinstance(st, ast.Assign) and len(
                                st.targets) == 1 and isinstance(
                                    st.targets[0], ast.Tuple) and isinstance(
                                        st.value, ast.Tuple) and len(
                                            st.targets[0].elts) == len(
                                                st.value.elts) and all(
                                                    isinstance(t, ast.Name)
                                                    for t in
                                                    st.targets[0].elts):
                            tn = {t.id for t in st.targets[0].elts}
                            # sequential binding is the same as parallel
                            # binding iff no value reads a target bound
                            # before it
                            safe = True
                            seen_t = set()
                            for t_, v_ in zip(st.targets[0].elts,
                                              st.value.elts):
                                rd = {y.id for y in ast.walk(v_)
                                      if isinstance(y, ast.Name)}
                                if rd & seen_t:
                                    safe = False
                                seen_t.add(t_.id)
                            if safe and len(tn) == len(
                                    st.targets[0].elts):
                                new = []
                                for t, v in zip(st.targets[0].elts,
                                                st.value.elts):
                                    a = ast.Assign(targets=[t], value=v)
                                    ast.copy_location(a, st)
                                    new.append(a)
                                blk[i:i + 1] = new
                                i += len(new)
                                continue
                        i += 1

    def drop_absorbed(self):
        """A new helper that was inlined and is referenced nowhere else is
        removed: its statements are analysed where they now stand."""
        inlined = set()
        for n in self.notes:
            inlined.add(n.split()[-1].split('.')[-1])
        if not inlined:
            return

        def refs(name, skip):
            cnt = 0
            for x in ast.walk(self.tree):
                if x is skip:
                    continue
                if isinstance(x, ast.Name) and x.id == name:
                    cnt += 1
                if isinstance(x, ast.Attribute) and x.attr == name:
                    cnt += 1
            return cnt

        def prune(body, qual):
            for st in list(body):
                if isinstance(st, ast.FunctionDef) and st.name in inlined \
                        and _is_private(st.name) and (
                            qual + st.name) not in self.known:
                    inner = sum(1 for x in ast.walk(st)
                                if (isinstance(x, ast.Name)
                                    and x.id == st.name)
                                or (isinstance(x, ast.Attribute)
                                    and x.attr == st.name))
                    # a single-underscore method may be called by a
                    # subclass in another module: keep the definition
                    if qual and not st.name.startswith('__'):
                        continue
                    if refs(st.name, None) - inner == 0:
                        body.remove(st)
                elif isinstance(st, ast.ClassDef):
                    prune(st.body, st.name + '.')

        prune(self.tree.body, '')
        # closures: nested defs that are no longer called
        for f in ast.walk(self.tree):
            if not isinstance(f, ast.FunctionDef):
                continue
            for blk_owner in ast.walk(f):
                for fld in ('body', 'orelse', 'finalbody'):
                    b = getattr(blk_owner, fld, None)
                    if not isinstance(b, list):
                        continue
                    for st in list(b):
                        if isinstance(st, ast.FunctionDef) and st is not f \
                                and st.name in inlined:
                            used = any(
                                isinstance(x, ast.Name) and x.id == st.name
                                for x in ast.walk(f)
                                if x is not st and not any(
                                    x is y for y in ast.walk(st)))
                            if not used:
                                b.remove(st)
                                if not b:
                                    b.append(ast.Pass())

    def unroll_literal_loops(self):
        """``for a, b in ((x1, y1), (x2, y2)): body`` over a literal tuple /
        list (written in place or bound once to a local) of at most eight
        simple elements is replaced by the bodies in order, a and b
        substituted - a table-driven loop reads like the statements it
        stands for."""
        def simple(e):
            if isinstance(e, (ast.Constant, ast.Name)):
                return True
            if isinstance(e, ast.Lambda):
                # closed lambdas only (no free variables besides builtins)
                ps_ = {a.arg for a in e.args.args}
                return all(not isinstance(x, ast.Name) or x.id in ps_
                           or x.id in ('len', 'int', 'str', 'max', 'min')
                           for x in ast.walk(e.body))
            if isinstance(e, ast.Attribute):
                return simple(e.value)
            if isinstance(e, (ast.Tuple, ast.List)):
                return all(simple(x) for x in e.elts)
            return False

        def own_jumps(body):
            # break/continue that belong to THIS loop (those inside a
            # nested loop belong to that one)
            def rec(nodes):
                for x in nodes:
                    if isinstance(x, (ast.Break, ast.Continue)):
                        return True
                    if isinstance(x, (ast.For, ast.While)):
                        # only its else-branch still belongs to us
                        if rec(x.orelse):
                            return True
                        continue
                    if isinstance(x, (ast.FunctionDef, ast.Lambda)):
                        continue
                    if rec(list(ast.iter_child_nodes(x))):
                        return True
                return False
            return rec(body)

        # module-level tables bound once (and never rebound by a function)
        mod_consts, mod_counts = {}, {}
        for st in self.tree.body:
            if isinstance(st, ast.Assign):
                for t in st.targets:
                    if isinstance(t, ast.Name):
                        mod_counts[t.id] = mod_counts.get(t.id, 0) + 1
                        mod_consts[t.id] = st.value
        for x in ast.walk(self.tree):
            if isinstance(x, ast.Global):
                for n_ in x.names:
                    mod_counts[n_] = mod_counts.get(n_, 0) + 2
        mod_dicts = {k: v for k, v in mod_consts.items()
                     if mod_counts.get(k) == 1 and isinstance(v, ast.Dict)
                     and all(k_ is not None for k_ in v.keys)}
        mod_consts = {k: v for k, v in mod_consts.items()
                      if mod_counts.get(k) == 1
                      and isinstance(v, (ast.Tuple, ast.List))}
        for f in [x for x in ast.walk(self.tree)
                  if isinstance(x, ast.FunctionDef)]:
            consts = {}
            counts = {}
            for st in ast.walk(f):
                if isinstance(st, ast.Assign):
                    for t in st.targets:
                        if isinstance(t, ast.Name):
                            counts[t.id] = counts.get(t.id, 0) + 1
                            consts[t.id] = st.value
                elif isinstance(st, (ast.AugAssign, ast.For)):
                    tg = st.target
                    for y in ast.walk(tg):
                        if isinstance(y, ast.Name):
                            counts[y.id] = counts.get(y.id, 0) + 2
            for owner in list(ast.walk(f)):
                for fld in ('body', 'orelse', 'finalbody'):
                    blk = getattr(owner, fld, None)
                    if not (isinstance(blk, list) and blk and isinstance(
                            blk[0], ast.stmt)):
                        continue
                    i = 0
                    while i < len(blk):
                        st = blk[i]
                        i += 1
                        if not isinstance(st, ast.For) or st.orelse:
                            continue
                        it = st.iter
                        if isinstance(it, ast.Name) and counts.get(
                                it.id) == 1:
                            it = consts.get(it.id)
                        elif isinstance(it, ast.Name) and not counts.get(
                                it.id) and it.id in mod_consts and \
                                it.id not in {a.arg for a in f.args.args}:
                            it = mod_consts[it.id]
                        elif isinstance(it, ast.Call) and isinstance(
                                it.func, ast.Attribute) and it.func.attr in (
                                    'items', 'keys', 'values') and \
                                not it.args and isinstance(
                                    it.func.value, ast.Name) and \
                                it.func.value.id in mod_dicts and \
                                not counts.get(it.func.value.id):
                            d_ = mod_dicts[it.func.value.id]
                            if it.func.attr == 'items':
                                it = ast.Tuple(elts=[
                                    ast.Tuple(elts=[k_, v_], ctx=ast.Load())
                                    for k_, v_ in zip(d_.keys, d_.values)],
                                    ctx=ast.Load())
                            elif it.func.attr == 'keys':
                                it = ast.Tuple(elts=list(d_.keys),
                                               ctx=ast.Load())
                            else:
                                it = ast.Tuple(elts=list(d_.values),
                                               ctx=ast.Load())
                        elif isinstance(it, ast.Name) and not counts.get(
                                it.id) and it.id in mod_dicts:
                            it = ast.Tuple(elts=list(mod_dicts[it.id].keys),
                                           ctx=ast.Load())
                        if not isinstance(it, (ast.Tuple, ast.List)) or \
                                not (0 < len(it.elts) <= 12) or \
                                not all(simple(x) for x in it.elts):
                            continue
                        lbody = _guards_to_nesting(st.body)
                        if own_jumps(lbody):
                            continue
                        tg = st.target
                        if isinstance(tg, ast.Name):
                            names = None
                        elif isinstance(tg, ast.Tuple) and all(
                                isinstance(x, ast.Name) for x in tg.elts) \
                                and all(isinstance(x, (ast.Tuple, ast.List))
                                        and len(x.elts) == len(tg.elts)
                                        for x in it.elts):
                            names = [x.id for x in tg.elts]
                        else:
                            continue
                        # loop variables must not be assigned in the body
                        bound = _assigned_names(st.body)
                        tn = {tg.id} if names is None else set(names)
                        if bound & tn:
                            continue
                        new = []
                        for el in it.elts:
                            env = {tg.id: el} if names is None else dict(
                                zip(names, el.elts))
                            for b_ in lbody:
                                r = _Subst(env).visit(clone(b_))
                                for r_ in (r if isinstance(r, list)
                                           else [r]):
                                    r_ = _FoldTests().visit(r_)
                                    if r_ is None:
                                        continue
                                    new.extend(r_ if isinstance(r_, list)
                                               else [r_])
                        # flatten "if True:" bodies that were spliced in
                        # and cut what follows a return inside them
                        new = _drop_dead(new)
                        blk[i - 1:i] = new
                        i -= 1  # re-scan what was inserted (nested loops)
                        self.notes.append(f'{f.name}: unrolled loop over a '
                                          f'{len(it.elts)}-element literal')

    def expand_literal_comprehensions(self):
        """``[E for a in (x, y) for b in (u, v)]`` over literal displays of
        names and constants is the list display it builds (at most 24
        elements, no conditions): E with the targets substituted, in
        iteration order.  The substituted values are names and constants, so
        nothing is evaluated more or less often."""
        def pure(e):
            if isinstance(e, (ast.Name, ast.Constant)):
                return True
            if isinstance(e, (ast.Tuple, ast.List)):
                return all(pure(x) for x in e.elts)
            return False

        def bind(target, val, env):
            if isinstance(target, ast.Name):
                env[target.id] = val
                return True
            if isinstance(target, (ast.Tuple, ast.List)) and isinstance(
                    val, (ast.Tuple, ast.List)) and len(target.elts) == len(
                        val.elts):
                return all(bind(t, v, env)
                           for t, v in zip(target.elts, val.elts))
            return False

        me = self

        class T(ast.NodeTransformer):

            def visit_ListComp(self_, n):
                n = self_.generic_visit(n)
                gens = n.generators
                if not gens or any(g.ifs or g.is_async or not isinstance(
                        g.iter, (ast.Tuple, ast.List)) or not all(
                            pure(x) for x in g.iter.elts) for g in gens):
                    return n
                tnames = {y.id for g in gens for y in ast.walk(g.target)
                          if isinstance(y, ast.Name)}
                # a later iterable must not depend on an earlier target
                if any(isinstance(y, ast.Name) and y.id in tnames
                       for g in gens for y in ast.walk(g.iter)):
                    return n
                if any(isinstance(y, (ast.Lambda, ast.ListComp,
                                      ast.GeneratorExp, ast.SetComp,
                                      ast.DictComp, ast.NamedExpr))
                       for y in ast.walk(n.elt)):
                    return n
                total = 1
                for g in gens:
                    total *= len(g.iter.elts)
                if total == 0 or total > 24:
                    return n
                envs = [{}]
                for g in gens:
                    nxt = []
                    for env in envs:
                        for v in g.iter.elts:
                            e2 = dict(env)
                            if not bind(g.target, v, e2):
                                return n
                            nxt.append(e2)
                    envs = nxt
                elts = [_Subst(env).visit(clone(n.elt)) for env in envs]
                me.notes.append(f'comprehension over a literal at line '
                                f'{n.lineno} written out ({total} elements)')
                return ast.copy_location(ast.List(elts=elts, ctx=ast.Load()),
                                         n)

        T().visit(self.tree)

        class Q(ast.NodeTransformer):
            """any(P(x) for x in (a, b)) over a literal display of constants
            is P(a) or P(b) (same operands, same order, same short cut; the
            truth value is what the callers of a predicate use).  Only in
            test positions / returns of predicates the difference between
            True and the operand's own value could matter, so the rewrite is
            wrapped in bool()."""

            def visit_Call(self_, n):
                n = self_.generic_visit(n)
                if not (isinstance(n.func, ast.Name) and n.func.id in (
                        'any', 'all') and len(n.args) == 1 and not
                        n.keywords and isinstance(n.args[0],
                                                  ast.GeneratorExp)):
                    return n
                g = n.args[0]
                if len(g.generators) != 1 or g.generators[0].ifs or not \
                        isinstance(g.generators[0].target, ast.Name) or not \
                        isinstance(g.generators[0].iter,
                                   (ast.Tuple, ast.List)):
                    return n
                elts = g.generators[0].iter.elts
                if not 2 <= len(elts) <= 6 or not all(
                        isinstance(x, ast.Constant) for x in elts):
                    return n
                v = g.generators[0].target.id
                vals = [_Subst({v: x}).visit(clone(g.elt)) for x in elts]
                op = ast.Or() if n.func.id == 'any' else ast.And()
                b = ast.Call(func=ast.Name(id='bool', ctx=ast.Load()),
                             args=[ast.BoolOp(op=op, values=vals)],
                             keywords=[])
                me.notes.append(f'{n.func.id}() over a literal at line '
                                f'{n.lineno} written as a chain')
                return ast.fix_missing_locations(ast.copy_location(b, n))

        Q().visit(self.tree)

        def unbool(e):
            if isinstance(e, ast.Call) and isinstance(
                    e.func, ast.Name) and e.func.id == 'bool' and len(
                        e.args) == 1 and not e.keywords and isinstance(
                            e.args[0], ast.BoolOp):
                return e.args[0]
            return e

        # in a test position bool(x) is x
        for x in ast.walk(self.tree):
            if isinstance(x, (ast.If, ast.While, ast.IfExp, ast.Assert)):
                x.test = unbool(x.test)
            elif isinstance(x, ast.UnaryOp) and isinstance(x.op, ast.Not):
                x.operand = unbool(x.operand)
            elif isinstance(x, ast.BoolOp):
                x.values = [unbool(v) for v in x.values]

    def fold_getattr(self):
        """getattr(x, 'name') with a constant identifier is x.name;
        ``for v in iter(X)`` iterates over X."""
        for x in ast.walk(self.tree):
            if isinstance(x, (ast.For, ast.comprehension)) and isinstance(
                    x.iter, ast.Call) and isinstance(
                        x.iter.func, ast.Name) and x.iter.func.id == 'iter' \
                    and len(x.iter.args) == 1 and not x.iter.keywords:
                x.iter = x.iter.args[0]

        class G(ast.NodeTransformer):

            def visit_Call(self, n):
                n = self.generic_visit(n)
                if isinstance(n.func, ast.Name) and n.func.id == 'getattr' \
                        and len(n.args) == 2 and not n.keywords and \
                        isinstance(n.args[1], ast.Constant) and isinstance(
                            n.args[1].value, str) and \
                        n.args[1].value.isidentifier():
                    return ast.copy_location(
                        ast.Attribute(value=n.args[0], attr=n.args[1].value,
                                      ctx=ast.Load()), n)
                return n

        self.tree = G().visit(self.tree)

    def function(self, f, cls):
        closures = {}
        dup = set()
        for st in ast.walk(f):
            if isinstance(st, ast.FunctionDef) and st is not f:
                if st.name in closures:
                    dup.add(st.name)
                closures[st.name] = st
        for n_ in dup:
            # several nested definitions of one name (one per branch): which
            # one a call reaches is a flow question - not inlined
            closures.pop(n_, None)
        self.caller_names = {x.id for x in ast.walk(f)
                             if isinstance(x, ast.Name)} | {
                                 a.arg for a in f.args.args}
        return self.block(f.body, cls, closures, f)

    def block(self, body, cls, closures, owner):
        changed = False
        i = 0
        while i < len(body):
            st = body[i]
            rep = None
            call, kind, target = None, None, None
            if isinstance(st, ast.Assign) and isinstance(st.value, ast.Call):
                call, kind, target = st.value, 'assign', st.targets
            elif isinstance(st, ast.Return) and isinstance(st.value,
                                                           ast.Call):
                call, kind = st.value, 'return'
                h0, _sk = self.helper_for(call, cls, closures)
                if h0 is not None and _has_yield(h0) and \
                        isinstance(owner, ast.FunctionDef) and \
                        not _has_yield(owner) and st is body[-1] and \
                        body is owner.body:
                    # "def f(..): return g(..)" with g a generator: f hands
                    # out g's iteration - for the analysis f is that
                    # generator
                    kind = 'yieldfrom'
            elif isinstance(st, ast.Expr) and isinstance(st.value, ast.Call):
                call, kind = st.value, 'expr'
            elif isinstance(st, ast.Expr) and isinstance(
                    st.value, ast.YieldFrom) and isinstance(
                        st.value.value, ast.Call):
                call, kind = st.value.value, 'yieldfrom'
            if call is None and isinstance(st, ast.If):
                # "if [not] h(..):" with a multi-statement helper: its value
                # goes into a temporary first (evaluated at the same point)
                tcall = st.test.operand if isinstance(
                    st.test, ast.UnaryOp) and isinstance(
                        st.test.op, ast.Not) else st.test
                if isinstance(tcall, ast.Call):
                    h, skip = self.helper_for(tcall, cls, closures)
                    if h is not None and h is not owner and \
                            self.eligible(h) and not _has_yield(h) and \
                            _expr_form(h.body) is None:
                        self.counter += 1
                        tmp = f'{h.name.lstrip("_")}__res{self.counter}'
                        a = ast.Assign(targets=[ast.Name(id=tmp,
                                                         ctx=ast.Store())],
                                       value=tcall)
                        nm_ = ast.Name(id=tmp, ctx=ast.Load())
                        if tcall is st.test:
                            st.test = nm_
                        else:
                            st.test.operand = nm_
                        ast.copy_location(a, st)
                        ast.copy_location(a.targets[0], st)
                        ast.copy_location(nm_, st)
                        body.insert(i, a)
                        changed = True
                        continue
            if call is None and isinstance(st, ast.AugAssign) and \
                    isinstance(st.value, ast.Call) and isinstance(
                        st.target, ast.Name):
                h, skip = self.helper_for(st.value, cls, closures)
                if h is not None and h is not owner and self.eligible(h) \
                        and not _has_yield(h) and st.target.id not in \
                        _assigned_names(h.body):
                    # "x += h(..)": the helper's value first goes into a
                    # temporary (h does not touch x, so the order in which
                    # x is read and h is run is immaterial)
                    self.counter += 1
                    tmp = f'{st.target.id}__aug{self.counter}'
                    a = ast.Assign(targets=[ast.Name(id=tmp,
                                                     ctx=ast.Store())],
                                   value=st.value)
                    st.value = ast.Name(id=tmp, ctx=ast.Load())
                    ast.copy_location(a, st)
                    ast.copy_location(a.targets[0], st)
                    ast.copy_location(st.value, st)
                    body.insert(i, a)
                    changed = True
                    continue
            if call is not None:
                h, skip = self.helper_for(call, cls, closures)
                if h is not None and h is not owner and self.eligible(h):
                    rep = self.splice(h, call, skip, kind, target)
            if rep is None and isinstance(st, ast.For) and isinstance(
                    st.iter, ast.Call) and not st.orelse:
                h, skip = self.helper_for(st.iter, cls, closures)
                if h is not None and h is not owner and self.eligible(h) \
                        and _has_yield(h):
                    rep = self.fuse(h, st, skip)
                    call = st.iter
            if rep is None and isinstance(st, (ast.Return, ast.Assign)) and \
                    isinstance(st.value, ast.Call) and isinstance(
                        st.value.func, ast.Name) and \
                    st.value.func.id == 'sum' and len(
                        st.value.args) == 1 and not st.value.keywords and \
                    isinstance(st.value.args[0], ast.GeneratorExp) and len(
                        st.value.args[0].generators) == 1 and isinstance(
                            st.value.args[0].generators[0].iter, ast.Call) \
                    and (isinstance(st, ast.Return) or (
                        len(st.targets) == 1 and isinstance(
                            st.targets[0], ast.Name))):
                # "return sum(E for x in g(..) if C)" over a new generator
                # helper: the counting loop it stands for (sum starts at 0
                # and adds the elements in order)
                ge = st.value.args[0]
                g0 = ge.generators[0]
                h, skip = self.helper_for(g0.iter, cls, closures)
                if h is not None and h is not owner and self.eligible(h) \
                        and _has_yield(h) and not g0.is_async:
                    self.counter += 1
                    acc = f'sum__acc{self.counter}'
                    inner = [ast.AugAssign(
                        target=ast.Name(id=acc, ctx=ast.Store()),
                        op=ast.Add(), value=ge.elt)]
                    for c_ in reversed(g0.ifs):
                        inner = [ast.If(test=c_, body=inner, orelse=[])]
                    loop = ast.For(target=g0.target, iter=g0.iter,
                                   body=inner, orelse=[])
                    init = ast.Assign(
                        targets=[ast.Name(id=acc, ctx=ast.Store())],
                        value=ast.Constant(value=0))
                    if isinstance(st, ast.Return):
                        last = ast.Return(value=ast.Name(id=acc,
                                                         ctx=ast.Load()))
                    else:
                        last = ast.Assign(targets=st.targets,
                                          value=ast.Name(id=acc,
                                                         ctx=ast.Load()))
                    new3 = [init, loop, last]
                    for x in new3:
                        ast.copy_location(x, st)
                        for y in ast.walk(x):
                            if not hasattr(y, 'lineno'):
                                ast.copy_location(y, st)
                        ast.fix_missing_locations(x)
                    body[i:i + 1] = new3
                    self.notes.append(f'{owner.name}: sum() over '
                                      f'{h.name} written as a loop')
                    changed = True
                    continue
            if rep is None and isinstance(st, ast.For) and isinstance(
                    st.iter, ast.Call):
                # "for x in h(..)" with a multi-statement helper that
                # returns its sequence: the value goes into a temporary
                # first (evaluated once, at the same point)
                h, skip = self.helper_for(st.iter, cls, closures)
                if h is not None and h is not owner and self.eligible(h) \
                        and not _has_yield(h) and \
                        _expr_form(h.body) is None:
                    self.counter += 1
                    tmp = f'{h.name.lstrip("_")}__res{self.counter}'
                    a = ast.Assign(targets=[ast.Name(id=tmp,
                                                     ctx=ast.Store())],
                                   value=st.iter)
                    st.iter = ast.Name(id=tmp, ctx=ast.Load())
                    ast.copy_location(a, st)
                    ast.copy_location(a.targets[0], st)
                    ast.copy_location(st.iter, st)
                    body.insert(i, a)
                    changed = True
                    continue
            if rep is not None:
                for x in rep:
                    ast.copy_location(x, st)
                    for y in ast.walk(x):
                        if not hasattr(y, 'lineno'):
                            ast.copy_location(y, st)
                body[i:i + 1] = rep
                self.notes.append(f'{owner.name}: inlined '
                                  f'{ast.unparse(call.func)}')
                changed = True
                continue  # re-examine the spliced statements
            # expression helpers inside this statement
            changed |= self.expressions(st, cls, closures, owner)
            # nested blocks
            for fld in ('body', 'orelse', 'finalbody'):
                b = getattr(st, fld, None)
                if isinstance(b, list) and b and isinstance(b[0], ast.stmt) \
                        and not isinstance(st, (ast.FunctionDef,
                                                ast.ClassDef)):
                    changed |= self.block(b, cls, closures, owner)
            for hd in getattr(st, 'handlers', []) or []:
                changed |= self.block(hd.body, cls, closures, owner)
            i += 1
        return changed

    def expressions(self, st, cls, closures, owner):
        changed = False
        me = self

        class T(ast.NodeTransformer):

            def visit_FunctionDef(self, n):
                return n

            def visit_Lambda(self, n):
                return self.generic_visit(n)

            def visit_Call(self, n):
                n = self.generic_visit(n)
                h, skip = me.helper_for(n, cls, closures)
                if h is None or h is owner or not me.eligible(h) or \
                        _has_yield(h):
                    return n
                e = _expr_form(h.body)
                if e is None:
                    return n
                env = _bind(h, n, skip)
                if env is None:
                    return n
                if any(_needs_local(p_, a_, [e]) for p_, a_ in env.items()):
                    return n  # would change how often an argument is
                    #           evaluated; stays a call
                nonlocal changed
                changed = True
                me.notes.append(f'{owner.name}: inlined expression helper '
                                f'{ast.unparse(n.func)}')
                r = _Subst(env).visit(clone(e))
                return ast.copy_location(r, n)

        # only the expression parts of the statement itself, not its blocks
        for fld, val in ast.iter_fields(st):
            if fld in ('body', 'orelse', 'finalbody', 'handlers'):
                continue
            if isinstance(val, ast.AST):
                setattr(st, fld, T().visit(val))
            elif isinstance(val, list):
                setattr(st, fld, [T().visit(v) if isinstance(v, ast.AST)
                                  else v for v in val])
        return changed


class _NoInline(Exception):
    pass


def desugar_struct_consts(tree):
    """Module-level ``H = struct.Struct(<literal>)`` (bound once):
    ``H.pack(..)`` -> ``struct.pack(fmt, ..)``, likewise unpack/unpack_from/
    pack_into/iter_unpack, ``H.size`` -> the integer, ``H.format`` -> the
    literal.  Pure notation: the compiled format is the same object."""
    import struct as _struct
    consts = {}
    counts = {}
    for st in tree.body:
        tgts = []
        if isinstance(st, ast.Assign):
            tgts = [t for t in st.targets if isinstance(t, ast.Name)]
        elif isinstance(st, ast.AnnAssign) and isinstance(
                st.target, ast.Name):
            tgts = [st.target]
        for t in tgts:
            counts[t.id] = counts.get(t.id, 0) + 1
            v = st.value
            if isinstance(v, ast.Call) and ast.unparse(v.func) in (
                    'struct.Struct', 'Struct') and len(
                        v.args) == 1 and isinstance(
                            v.args[0], ast.Constant) and isinstance(
                                v.args[0].value, (str, bytes)):
                consts[t.id] = v.args[0].value
    for x in ast.walk(tree):
        if isinstance(x, (ast.FunctionDef, ast.Lambda)):
            # a local of the same name shadows the constant
            for y in ast.walk(x):
                if isinstance(y, ast.Name) and isinstance(
                        y.ctx, ast.Store) and y.id in consts:
                    counts[y.id] = counts.get(y.id, 0) + 1
    consts = {k: v for k, v in consts.items() if counts.get(k) == 1}
    if not consts:
        return 0
    n = 0
    for x in ast.walk(tree):
        if isinstance(x, ast.Call) and isinstance(
                x.func, ast.Attribute) and isinstance(
                    x.func.value, ast.Name) and x.func.value.id in consts \
                and x.func.attr in ('pack', 'unpack', 'unpack_from',
                                    'pack_into', 'iter_unpack'):
            fmt = consts[x.func.value.id]
            x.func.value = ast.copy_location(
                ast.Name(id='struct', ctx=ast.Load()), x.func.value)
            x.args.insert(0, ast.copy_location(ast.Constant(value=fmt), x))
            n += 1
    for x in ast.walk(tree):
        for fld, val in list(ast.iter_fields(x)):
            vals = val if isinstance(val, list) else [val]
            for k, y in enumerate(vals):
                if isinstance(y, ast.Attribute) and isinstance(
                        y.value, ast.Name) and y.value.id in consts and \
                        isinstance(y.ctx, ast.Load) and y.attr in (
                            'size', 'format'):
                    fmt = consts[y.value.id]
                    try:
                        new = ast.Constant(
                            value=_struct.calcsize(fmt)
                            if y.attr == 'size' else fmt)
                    except _struct.error:
                        continue
                    ast.copy_location(new, y)
                    if isinstance(val, list):
                        val[k] = new
                    else:
                        setattr(x, fld, new)
                    n += 1
    return n


def desugar_state_singletons(tree, known):
    """A private class without bases whose ``__init__`` only sets
    attributes of ``self`` to constants, instantiated exactly once at module
    level (``_S = _C()``) and used only as ``_S.attr`` / ``_S.method(..)``:
    the attributes become module globals ``_S_attr`` and the methods
    module-level functions ``_C_method`` (``self.x`` -> the global, with a
    ``global`` declaration).  The object was nothing but a name space."""
    notes = []
    classes = {st.name: st for st in tree.body
               if isinstance(st, ast.ClassDef) and st.name.startswith('_')
               and not st.bases and not st.keywords
               and not st.decorator_list}
    for cname, cd in list(classes.items()):
        insts = [st for st in tree.body
                 if isinstance(st, ast.Assign) and len(st.targets) == 1
                 and isinstance(st.targets[0], ast.Name)
                 and isinstance(st.value, ast.Call)
                 and isinstance(st.value.func, ast.Name)
                 and st.value.func.id == cname and not st.value.args
                 and not st.value.keywords]
        if len(insts) != 1:
            continue
        iname = insts[0].targets[0].id
        # the class is referenced nowhere else
        if sum(1 for x in ast.walk(tree) if isinstance(x, ast.Name)
               and x.id == cname) != 1:
            continue
        meths = {}
        ok = True
        for st in cd.body:
            if isinstance(st, ast.Expr) and isinstance(st.value,
                                                       ast.Constant):
                continue
            if not isinstance(st, ast.FunctionDef) or st.decorator_list or \
                    not st.args.args or st.args.vararg or st.args.kwarg:
                ok = False
                break
            if st.name.startswith('__') and st.name.endswith('__') and \
                    st.name != '__init__':
                ok = False
                break
            meths[st.name] = st
        if not ok:
            continue
        init = meths.get('__init__')
        attrs = {}
        if init is not None:
            if len(init.args.args) != 1:
                continue
            me = init.args.args[0].arg
            for st in init.body:
                if isinstance(st, ast.Expr) and isinstance(st.value,
                                                           ast.Constant):
                    continue
                if isinstance(st, ast.Assign) and len(
                        st.targets) == 1 and isinstance(
                            st.targets[0], ast.Attribute) and isinstance(
                                st.targets[0].value, ast.Name) and \
                        st.targets[0].value.id == me and isinstance(
                            st.value, (ast.Constant, ast.List, ast.Dict,
                                       ast.Tuple, ast.Set, ast.UnaryOp)):
                    attrs[st.targets[0].attr] = st.value
                else:
                    ok = False
                    break
        if not ok:
            continue
        # every use of the instance: _S.attr or _S.method(...)
        uses = [x for x in ast.walk(tree) if isinstance(x, ast.Name)
                and x.id == iname]
        par = {}
        for p_ in ast.walk(tree):
            for c_ in ast.iter_child_nodes(p_):
                par[id(c_)] = p_
        for u in uses:
            pu = par.get(id(u))
            if u is insts[0].targets[0]:
                continue
            if not (isinstance(pu, ast.Attribute) and pu.value is u):
                ok = False
                break
            if isinstance(u.ctx, ast.Store):
                ok = False
                break
        # self only as self.attr / self.method(..) inside the methods
        for mname, md in meths.items():
            me = md.args.args[0].arg
            for x in ast.walk(md):
                if isinstance(x, ast.Name) and x.id == me:
                    px = par.get(id(x))
                    if not (isinstance(px, ast.Attribute)
                            and px.value is x):
                        ok = False
        # attributes set in other methods count too
        for mname, md in meths.items():
            me = md.args.args[0].arg
            for x in ast.walk(md):
                if isinstance(x, ast.Attribute) and isinstance(
                        x.value, ast.Name) and x.value.id == me and \
                        isinstance(x.ctx, ast.Store):
                    attrs.setdefault(x.attr, ast.Constant(value=None))
        if not ok:
            continue
        gname = {a: f'{iname}_{a}' for a in attrs}
        fname = {m_: f'{cname}_{m_}' for m_ in meths if m_ != '__init__'}
        taken = {x.id for x in ast.walk(tree) if isinstance(x, ast.Name)} | {
            st.name for st in tree.body
            if isinstance(st, (ast.FunctionDef, ast.ClassDef))}
        if any(v in taken for v in list(gname.values())
               + list(fname.values())):
            continue

        class R(ast.NodeTransformer):

            def __init__(self_, owner):
                self_.owner = owner  # the name that denotes the object

            def visit_Attribute(self_, n):
                n = self_.generic_visit(n)
                if isinstance(n.value, ast.Name) and \
                        n.value.id == self_.owner:
                    if n.attr in gname:
                        return ast.copy_location(
                            ast.Name(id=gname[n.attr], ctx=n.ctx), n)
                    if n.attr in fname:
                        return ast.copy_location(
                            ast.Name(id=fname[n.attr], ctx=n.ctx), n)
                return n

        new_funcs = []
        for mname, md in meths.items():
            if mname == '__init__':
                continue
            me = md.args.args[0].arg
            fn = ast.FunctionDef(name=fname[mname], args=md.args,
                                 body=md.body, decorator_list=[],
                                 returns=md.returns, type_comment=None)
            fn.args.args = fn.args.args[1:]
            ast.copy_location(fn, md)
            fn = R(me).visit(fn)
            stored = sorted({x.id for x in ast.walk(fn)
                             if isinstance(x, ast.Name) and isinstance(
                                 x.ctx, ast.Store)
                             and x.id in gname.values()})
            if stored:
                g = ast.Global(names=stored)
                ast.copy_location(g, fn)
                pos = 1 if (fn.body and isinstance(fn.body[0], ast.Expr)
                            and isinstance(fn.body[0].value,
                                           ast.Constant)) else 0
                fn.body.insert(pos, g)
            new_funcs.append(fn)
        # globals with their initial values, in place of the class
        inits = []
        for a, v in attrs.items():
            st = ast.Assign(targets=[ast.Name(id=gname[a],
                                              ctx=ast.Store())], value=v)
            ast.copy_location(st, cd)
            inits.append(st)
        idx = tree.body.index(cd)
        tree.body[idx:idx + 1] = inits + new_funcs
        tree.body.remove(insts[0])
        # uses of the instance in the rest of the module
        for k, st in enumerate(tree.body):
            if st in new_funcs or st in inits:
                continue
            tree.body[k] = R(iname).visit(st)
        # functions that store to the new globals need the declaration
        for st in tree.body:
            if isinstance(st, ast.FunctionDef) and st not in new_funcs:
                stored = sorted({x.id for x in ast.walk(st)
                                 if isinstance(x, ast.Name) and isinstance(
                                     x.ctx, ast.Store)
                                 and x.id in gname.values()})
                if stored:
                    g = ast.Global(names=stored)
                    ast.copy_location(g, st)
                    pos = 1 if (st.body and isinstance(st.body[0], ast.Expr)
                                and isinstance(st.body[0].value,
                                               ast.Constant)) else 0
                    st.body.insert(pos, g)
        ast.fix_missing_locations(tree)
        notes.append(f'state object {iname} = {cname}() written as module '
                     f'globals ({len(attrs)} attributes, {len(new_funcs)} '
                     'functions)')
    return notes


def lower_modern_syntax(tree):
    """Constructs the engine has no native model for are written in the
    older idiom they abbreviate (exactly equivalent forms only):

    * ``match S: case 'a': .. case 'b' | 'c': .. case None: .. case _: ..``
      with value / or / singleton / wildcard / capture patterns (and guards)
      -> if / elif / else on ``S == 'a'``, ``S in ('b', 'c')``, ``S is None``
      (S is evaluated once: a plain name, attribute or argument-free method
      call is repeated, anything else goes through a temporary);
    * ``if (n := E) <op> ..`` with the binding in the first evaluated
      position -> ``n = E`` in front of the statement;
    * ``with contextlib.suppress(E..): B`` -> ``try: B except (E..): pass``;
      ``with contextlib.nullcontext(): B`` -> ``B``.
    """
    notes = []
    counter = [0]

    def pure_subject(e):
        if isinstance(e, (ast.Name, ast.Constant)):
            return True
        if isinstance(e, ast.Attribute):
            return pure_subject(e.value)
        if isinstance(e, ast.Subscript):
            return pure_subject(e.value) and isinstance(
                e.slice, (ast.Constant, ast.Name, ast.UnaryOp))
        if isinstance(e, ast.Call) and not e.args and not e.keywords and \
                isinstance(e.func, ast.Attribute):
            return pure_subject(e.func.value)
        return False

    def value_of(pat):
        if isinstance(pat, ast.MatchValue):
            return [pat.value]
        if isinstance(pat, ast.MatchOr):
            out = []
            for q in pat.patterns:
                v = value_of(q)
                if v is None:
                    return None
                out += v
            return out
        return None

    def lower_match(st):
        subj = st.subject
        pre = []
        if not pure_subject(subj):
            counter[0] += 1
            tmp = f'__match{counter[0]}'
            pre.append(ast.Assign(targets=[ast.Name(id=tmp,
                                                    ctx=ast.Store())],
                                  value=subj))
            subj = ast.Name(id=tmp, ctx=ast.Load())
        arms = []
        for case in st.cases:
            pat = case.pattern
            test = None
            bind = []
            vals = value_of(pat)
            if vals is not None:
                if len(vals) == 1:
                    test = ast.Compare(left=clone(subj), ops=[ast.Eq()],
                                       comparators=[vals[0]])
                else:
                    test = ast.Compare(left=clone(subj), ops=[ast.In()],
                                       comparators=[ast.Tuple(
                                           elts=vals, ctx=ast.Load())])
            elif isinstance(pat, ast.MatchSingleton):
                test = ast.Compare(left=clone(subj), ops=[ast.Is()],
                                   comparators=[ast.Constant(
                                       value=pat.value)])
            elif isinstance(pat, ast.MatchAs) and pat.pattern is None:
                test = ast.Constant(value=True)
                if pat.name is not None:
                    bind.append(ast.Assign(
                        targets=[ast.Name(id=pat.name, ctx=ast.Store())],
                        value=clone(subj)))
            else:
                return None
            if case.guard is not None:
                if bind:
                    return None  # the guard may read the capture
                test = case.guard if isinstance(
                    test, ast.Constant) else ast.BoolOp(
                        op=ast.And(), values=[test, case.guard])
            arms.append((test, bind + case.body))
        # build the chain from the end
        chain = []
        for test, body in reversed(arms):
            if isinstance(test, ast.Constant) and test.value is True:
                chain = body
            else:
                chain = [ast.If(test=test, body=body, orelse=chain)]
        out = pre + (chain or [ast.Pass()])
        for x in out:
            ast.copy_location(x, st)
            for y in ast.walk(x):
                if not hasattr(y, 'lineno'):
                    ast.copy_location(y, st)
        return out

    def first_position_walrus(test):
        """NamedExprs of ``test`` that are evaluated unconditionally and
        before anything that could read their target."""
        out = []

        def rec(e, uncond):
            if isinstance(e, ast.NamedExpr):
                if uncond and isinstance(e.target, ast.Name):
                    out.append(e)
                rec(e.value, uncond)
                return
            if isinstance(e, ast.BoolOp):
                for k, v in enumerate(e.values):
                    rec(v, uncond and k == 0)
                return
            if isinstance(e, ast.IfExp):
                rec(e.test, uncond)
                return
            if isinstance(e, (ast.Lambda, ast.ListComp, ast.SetComp,
                              ast.DictComp, ast.GeneratorExp)):
                return
            for c in ast.iter_child_nodes(e):
                rec(c, uncond)

        rec(test, True)
        return out

    class W(ast.NodeTransformer):

        def __init__(self_, targets):
            self_.targets = targets

        def visit_NamedExpr(self_, n):
            n = self_.generic_visit(n)
            if n in self_.targets or any(n is t for t in self_.targets):
                return ast.copy_location(ast.Name(id=n.target.id,
                                                  ctx=ast.Load()), n)
            return n

    def lower_block(blk):
        i = 0
        while i < len(blk):
            st = blk[i]
            if isinstance(st, ast.Match):
                r = lower_match(st)
                if r is not None:
                    blk[i:i + 1] = r
                    notes.append(f'match statement at line {st.lineno} '
                                 'written as an if/elif chain')
                    continue
            fld_ = 'test' if isinstance(st, ast.If) else (
                'value' if isinstance(st, (ast.Assign, ast.Return, ast.Expr))
                and getattr(st, 'value', None) is not None else None)
            if fld_ is not None:
                top = getattr(st, fld_)
                ws = first_position_walrus(top)
                # only when evaluation order is obviously unchanged: the
                # binding is the first operand evaluated
                if ws and not (isinstance(st, ast.Assign) and any(
                        not isinstance(t, ast.Name) for t in st.targets)):
                    left = top
                    while isinstance(left, (ast.Compare, ast.BoolOp,
                                            ast.UnaryOp, ast.BinOp,
                                            ast.IfExp)):
                        left = left.left if isinstance(
                            left, (ast.Compare, ast.BinOp)) else (
                                left.values[0] if isinstance(
                                    left, ast.BoolOp) else (
                                        left.test if isinstance(
                                            left, ast.IfExp)
                                        else left.operand))
                    if left is ws[0]:
                        w = ws[0]
                        a = ast.Assign(targets=[ast.Name(id=w.target.id,
                                                         ctx=ast.Store())],
                                       value=w.value)
                        ast.copy_location(a, st)
                        ast.copy_location(a.targets[0], st)
                        setattr(st, fld_, W([w]).visit(top))
                        blk.insert(i, a)
                        notes.append(f'walrus at line {st.lineno} hoisted')
                        continue
            if isinstance(st, ast.With) and len(st.items) == 1 and \
                    st.items[0].optional_vars is None and isinstance(
                        st.items[0].context_expr, ast.Call):
                nm = ast.unparse(st.items[0].context_expr.func)
                c = st.items[0].context_expr
                if nm in ('contextlib.suppress', 'suppress') and c.args \
                        and not c.keywords:
                    ty = c.args[0] if len(c.args) == 1 else ast.Tuple(
                        elts=list(c.args), ctx=ast.Load())
                    t = ast.Try(body=st.body, handlers=[ast.ExceptHandler(
                        type=ty, name=None, body=[ast.Pass()])], orelse=[],
                                finalbody=[])
                    ast.copy_location(t, st)
                    for y in ast.walk(t):
                        if not hasattr(y, 'lineno'):
                            ast.copy_location(y, st)
                    blk[i] = t
                    notes.append(f'contextlib.suppress at line {st.lineno} '
                                 'written as try/except')
                    continue
                if nm in ('contextlib.nullcontext', 'nullcontext') and \
                        not c.args and not c.keywords:
                    blk[i:i + 1] = st.body
                    continue
            for fld in ('body', 'orelse', 'finalbody'):
                b = getattr(st, fld, None)
                if isinstance(b, list) and b and isinstance(b[0], ast.stmt):
                    lower_block(b)
            for h in getattr(st, 'handlers', []) or []:
                lower_block(h.body)
            for cs in getattr(st, 'cases', []) or []:
                lower_block(cs.body)
            i += 1

    lower_block(tree.body)

    # typing.NamedTuple classes without methods: the namedtuple() call
    for i, st in enumerate(list(tree.body)):
        if not (isinstance(st, ast.ClassDef) and len(st.bases) == 1
                and ast.unparse(st.bases[0]) in ('typing.NamedTuple',
                                                 'NamedTuple')
                and not st.keywords and not st.decorator_list):
            continue
        fields, defaults, ok = [], [], True
        for b in st.body:
            if isinstance(b, ast.Expr) and isinstance(b.value, ast.Constant):
                continue  # docstring
            if isinstance(b, ast.AnnAssign) and isinstance(
                    b.target, ast.Name) and b.simple:
                fields.append(b.target.id)
                if b.value is not None:
                    defaults.append(b.value)
                elif defaults:
                    ok = False
                continue
            ok = False
        if not ok or not fields:
            continue
        call = ast.Call(
            func=ast.Attribute(value=ast.Name(id='collections',
                                              ctx=ast.Load()),
                               attr='namedtuple', ctx=ast.Load()),
            args=[ast.Constant(value=st.name),
                  ast.List(elts=[ast.Constant(value=f_) for f_ in fields],
                           ctx=ast.Load())],
            keywords=([ast.keyword(arg='defaults', value=ast.Tuple(
                elts=defaults, ctx=ast.Load()))] if defaults else []))
        a = ast.Assign(targets=[ast.Name(id=st.name, ctx=ast.Store())],
                       value=call)
        ast.copy_location(a, st)
        tree.body[tree.body.index(st)] = a
        notes.append(f'typing.NamedTuple class {st.name} written as '
                     'collections.namedtuple')

    # pathlib path arithmetic: Path(A) / B / C -> os.path.join(A, B, C);
    # str() / os.fspath() of such a join -> the join
    def path_ctor(e):
        return isinstance(e, ast.Call) and ast.unparse(e.func) in (
            'pathlib.Path', 'pathlib.PurePath', 'pathlib.PosixPath',
            'pathlib.PurePosixPath', 'Path', 'PurePath') and e.args and \
            not e.keywords

    def is_join(e):
        return isinstance(e, ast.Call) and ast.unparse(
            e.func) == 'os.path.join'

    class P(ast.NodeTransformer):

        def visit_BinOp(self_, n):
            n = self_.generic_visit(n)
            if isinstance(n.op, ast.Div):
                if path_ctor(n.left):
                    j = ast.Call(func=ast.parse('os.path.join',
                                                mode='eval').body,
                                 args=list(n.left.args) + [n.right],
                                 keywords=[])
                    j._from_pathlib = True
                    return ast.copy_location(j, n)
                if is_join(n.left) and getattr(n.left, '_from_pathlib',
                                               False):
                    n.left.args.append(n.right)
                    return n.left
            return n

        def visit_Call(self_, n):
            n = self_.generic_visit(n)
            if ast.unparse(n.func) in ('str', 'os.fspath') and len(
                    n.args) == 1 and not n.keywords and is_join(
                        n.args[0]) and getattr(n.args[0], '_from_pathlib',
                                               False):
                notes.append(f'pathlib join at line {n.lineno} written as '
                             'os.path.join')
                return n.args[0]
            return n

    P().visit(tree)

    # itertools.filterfalse(p, X) -> filter(lambda x: not p(x), X);
    # operator.gt(a, b) -> a > b (and the other binary operator functions)
    OPS_CMP = {'lt': ast.Lt, 'le': ast.LtE, 'gt': ast.Gt, 'ge': ast.GtE,
               'eq': ast.Eq, 'ne': ast.NotEq, 'is_': ast.Is,
               'is_not': ast.IsNot}
    OPS_BIN = {'add': ast.Add, 'sub': ast.Sub, 'mul': ast.Mult,
               'floordiv': ast.FloorDiv, 'truediv': ast.Div,
               'mod': ast.Mod}

    class O(ast.NodeTransformer):

        def visit_Call(self_, n):
            n = self_.generic_visit(n)
            fn_ = ast.unparse(n.func)
            if fn_ in ('itertools.filterfalse', 'filterfalse') and len(
                    n.args) == 2 and not n.keywords and isinstance(
                        n.args[0], (ast.Name, ast.Attribute)):
                lam = ast.Lambda(
                    args=ast.arguments(posonlyargs=[], args=[ast.arg(
                        arg='x__')], kwonlyargs=[], kw_defaults=[],
                        defaults=[], vararg=None, kwarg=None),
                    body=ast.UnaryOp(op=ast.Not(), operand=ast.Call(
                        func=n.args[0], args=[ast.Name(id='x__',
                                                       ctx=ast.Load())],
                        keywords=[])))
                notes.append(f'filterfalse at line {n.lineno} written as '
                             'filter(lambda)')
                return ast.copy_location(ast.Call(
                    func=ast.Name(id='filter', ctx=ast.Load()),
                    args=[lam, n.args[1]], keywords=[]), n)
            if fn_.startswith('operator.') and len(n.args) == 2 and \
                    not n.keywords:
                k = fn_.split('.', 1)[1]
                if k in OPS_CMP:
                    return ast.copy_location(ast.Compare(
                        left=n.args[0], ops=[OPS_CMP[k]()],
                        comparators=[n.args[1]]), n)
                if k in OPS_BIN:
                    return ast.copy_location(ast.BinOp(
                        left=n.args[0], op=OPS_BIN[k](), right=n.args[1]), n)
                if k == 'contains':
                    return ast.copy_location(ast.Compare(
                        left=n.args[1], ops=[ast.In()],
                        comparators=[n.args[0]]), n)
            return n

    # a callable chosen by a condition and only called: two arms
    def split_callable(blk):
        i = 0
        while i < len(blk):
            st = blk[i]
            for fld in ('body', 'orelse', 'finalbody'):
                b_ = getattr(st, fld, None)
                if isinstance(b_, list) and b_ and isinstance(
                        b_[0], ast.stmt):
                    split_callable(b_)
            for hd in getattr(st, 'handlers', []) or []:
                split_callable(hd.body)
            if isinstance(st, ast.Assign) and len(
                    st.targets) == 1 and isinstance(
                        st.targets[0], ast.Name) and isinstance(
                            st.value, ast.IfExp) and all(
                                isinstance(x, (ast.Name, ast.Attribute))
                                for x in (st.value.body, st.value.orelse)):
                v = st.targets[0].id
                rest = blk[i + 1:]
                uses = [x for r in rest for x in ast.walk(r)
                        if isinstance(x, ast.Name) and x.id == v]
                par = {}
                for r in rest:
                    for p_ in ast.walk(r):
                        for c_ in ast.iter_child_nodes(p_):
                            par[id(c_)] = p_
                callee_only = uses and all(
                    isinstance(u.ctx, ast.Load) and isinstance(
                        par.get(id(u)), ast.Call)
                    and par[id(u)].func is u for u in uses)
                pure_test = not any(isinstance(x, (ast.Call, ast.NamedExpr,
                                                   ast.Yield, ast.Await))
                                    for x in ast.walk(st.value.test))
                if callee_only and pure_test and 0 < len(rest) <= 6:
                    arms = []
                    for fn_ in (st.value.body, st.value.orelse):
                        arm = [_Subst({v: fn_}).visit(clone(r))
                               for r in rest]
                        arms.append([O().visit(a_) for a_ in arm])
                    new = ast.If(test=st.value.test, body=arms[0],
                                 orelse=arms[1])
                    ast.copy_location(new, st)
                    blk[i:] = [new]
                    notes.append(f'callable chosen by a condition at line '
                                 f'{st.lineno}: two arms')
                    return
            i += 1

    for f in [x for x in ast.walk(tree) if isinstance(x, ast.FunctionDef)]:
        split_callable(f.body)
    O().visit(tree)

    # functools.partial
    def is_partial(e):
        return isinstance(e, ast.Call) and ast.unparse(e.func) in (
            'functools.partial', 'partial') and e.args and isinstance(
                e.args[0], (ast.Name, ast.Attribute)) and not any(
                    isinstance(a, ast.Starred) for a in e.args) and all(
                        k.arg is not None for k in e.keywords)

    def has_call(e):
        return any(isinstance(x, (ast.Call, ast.Await, ast.Yield,
                                  ast.NamedExpr)) for x in ast.walk(e))

    for f in [x for x in ast.walk(tree) if isinstance(x, ast.FunctionDef)]:
        own = []

        def collect(n):
            for c in ast.iter_child_nodes(n):
                if isinstance(c, (ast.FunctionDef, ast.ClassDef)):
                    continue
                own.append(c)
                collect(c)

        collect(f)
        nbind = {a.arg: 1 for a in f.args.args + f.args.kwonlyargs}
        for x in own:
            if isinstance(x, ast.Name) and isinstance(x.ctx, (ast.Store,
                                                              ast.Del)):
                nbind[x.id] = nbind.get(x.id, 0) + 1
        par = {}
        for x in [f] + own:
            for c in ast.iter_child_nodes(x):
                par[id(c)] = x

        def stable(e):
            return not has_call(e) and all(
                nbind.get(y.id, 0) <= 1 for y in ast.walk(e)
                if isinstance(y, ast.Name))

        # (b) bound once, used only as callee
        for st in [x for x in own if isinstance(x, ast.Assign)]:
            if not (len(st.targets) == 1 and isinstance(
                    st.targets[0], ast.Name) and is_partial(st.value)):
                continue
            v = st.targets[0].id
            if nbind.get(v, 0) != 1:
                continue
            uses = [x for x in own if isinstance(x, ast.Name) and x.id == v
                    and isinstance(x.ctx, ast.Load)]
            if not uses or not all(
                    isinstance(par.get(id(u)), ast.Call)
                    and par[id(u)].func is u for u in uses):
                continue
            pc = st.value
            if not all(stable(a) for a in pc.args) or not all(
                    stable(k.value) for k in pc.keywords):
                continue
            for u in uses:
                c = par[id(u)]
                c.func = clone(pc.args[0])
                c.args = [clone(a) for a in pc.args[1:]] + c.args
                given = {k.arg for k in c.keywords}
                c.keywords = [clone(k) for k in pc.keywords
                              if k.arg not in given] + c.keywords
            for x in [f] + own:
                for fld in ('body', 'orelse', 'finalbody'):
                    blk = getattr(x, fld, None)
                    if isinstance(blk, list) and st in blk:
                        blk.remove(st)
                        if not blk:
                            blk.append(ast.Pass())
            notes.append(f'{f.name}: functools.partial "{v}" written out at '
                         f'its {len(uses)} call(s)')
        # (a) a partial used as a value: the equivalent lambda
        for x in own:
            for fld, val in ast.iter_fields(x):
                items = val if isinstance(val, list) else [val]
                for k_, e in enumerate(items):
                    if not (isinstance(e, ast.AST) and is_partial(e)):
                        continue
                    if isinstance(x, ast.Assign) and x in [
                            st_ for st_ in own if isinstance(st_, ast.Assign)
                            and len(st_.targets) == 1 and isinstance(
                                st_.targets[0], ast.Name) and nbind.get(
                                    st_.targets[0].id, 0) == 1]:
                        continue  # handled (or declined) by (b)
                    if not all(stable(a) for a in e.args) or not all(
                            stable(k.value) for k in e.keywords):
                        continue
                    lam = ast.Lambda(
                        args=ast.arguments(
                            posonlyargs=[], args=[], kwonlyargs=[],
                            kw_defaults=[], defaults=[],
                            vararg=ast.arg(arg='__pa'),
                            kwarg=ast.arg(arg='__pk')),
                        body=ast.Call(
                            func=e.args[0],
                            args=list(e.args[1:]) + [ast.Starred(
                                value=ast.Name(id='__pa', ctx=ast.Load()),
                                ctx=ast.Load())],
                            keywords=list(e.keywords) + [ast.keyword(
                                arg=None, value=ast.Name(id='__pk',
                                                         ctx=ast.Load()))]))
                    ast.copy_location(lam, e)
                    if isinstance(val, list):
                        val[k_] = lam
                    else:
                        setattr(x, fld, lam)
                    notes.append(f'{f.name}: functools.partial value at '
                                 f'line {e.lineno} written as a lambda')
    ast.fix_missing_locations(tree)
    return notes


PINNED_RECORDS = {'RunInfo', 'Simplification', 'Task', 'Result'}
ALL_RECORDS = {}  # field tuple -> type name (filled by new_records)


def unpack_records(tree):
    """``substs, fresh_vars = simp`` - the targets are exactly the field
    names of a record type of the package, in order, the value is a plain
    name, nothing rebinds targets or value in the function: the targets are
    written as the field reads ``simp.substs`` / ``simp.fresh_vars``."""
    notes = []
    if not ALL_RECORDS:
        return notes
    for f in [x for x in ast.walk(tree) if isinstance(x, ast.FunctionDef)]:
        nb = {a.arg: 1 for a in f.args.args + f.args.kwonlyargs}
        for x in ast.walk(f):
            if isinstance(x, ast.Name) and isinstance(x.ctx, (ast.Store,
                                                              ast.Del)):
                nb[x.id] = nb.get(x.id, 0) + 1
        for x in list(ast.walk(f)):
            for fld in ('body', 'orelse', 'finalbody'):
                blk = getattr(x, fld, None)
                if not (isinstance(blk, list) and blk and isinstance(
                        blk[0], ast.stmt)):
                    continue
                for st in list(blk):
                    if not (isinstance(st, ast.Assign) and len(
                            st.targets) == 1 and isinstance(
                                st.targets[0], ast.Tuple) and isinstance(
                                    st.value, ast.Name) and all(
                                        isinstance(t, ast.Name)
                                        for t in st.targets[0].elts)):
                        continue
                    names = tuple(t.id for t in st.targets[0].elts)
                    if names not in ALL_RECORDS:
                        continue
                    v = st.value.id
                    if nb.get(v, 0) != 1 or any(nb.get(n_, 0) != 1
                                                for n_ in names):
                        continue
                    env = {n_: ast.Attribute(
                        value=ast.Name(id=v, ctx=ast.Load()), attr=n_,
                        ctx=ast.Load()) for n_ in names}
                    blk.remove(st)
                    if not blk:
                        blk.append(ast.Pass())
                    sub = _Subst(env)
                    f.body = [sub.visit(b_) for b_ in f.body]
                    notes.append(f'{f.name}: unpacking of the '
                                 f'{ALL_RECORDS[names]} record "{v}" '
                                 'written as field reads')
    ast.fix_missing_locations(tree)
    return notes


def new_records(sources):
    """Record types (collections.namedtuple / typing.NamedTuple without
    methods) that did not exist on the pinned tree, over the whole package:
    {type name: [fields]} - only those whose field names are used for
    nothing else in the package (no ``x.f = ..`` store, no method / class
    attribute / module-level function of that name, no other record with the
    field), so that ``.f`` can only be a read of that field."""
    recs = {}
    other_attrs = set()
    trees = []
    for src in sources:
        try:
            t = ast.parse(src)
        except SyntaxError:
            continue
        trees.append(t)
    for t in trees:
        for st in t.body:
            if isinstance(st, ast.ClassDef) and len(st.bases) == 1 and \
                    ast.unparse(st.bases[0]) in ('typing.NamedTuple',
                                                 'NamedTuple'):
                fs = [b.target.id for b in st.body
                      if isinstance(b, ast.AnnAssign)
                      and isinstance(b.target, ast.Name)]
                meth = any(isinstance(b, ast.FunctionDef) for b in st.body)
                dfl = any(isinstance(b, ast.AnnAssign) and b.value is not None
                          for b in st.body)
                if fs and not meth and not dfl and \
                        st.name not in PINNED_RECORDS:
                    recs[st.name] = fs
            elif isinstance(st, ast.Assign) and len(
                    st.targets) == 1 and isinstance(
                        st.targets[0], ast.Name) and isinstance(
                            st.value, ast.Call) and ast.unparse(
                                st.value.func) in ('collections.namedtuple',
                                                   'namedtuple') and len(
                                                       st.value.args) == 2 \
                    and not st.value.keywords:
                a1 = st.value.args[1]
                fs = None
                if isinstance(a1, (ast.List, ast.Tuple)) and all(
                        isinstance(e, ast.Constant) for e in a1.elts):
                    fs = [e.value for e in a1.elts]
                elif isinstance(a1, ast.Constant) and isinstance(
                        a1.value, str):
                    fs = a1.value.replace(',', ' ').split()
                if fs and st.targets[0].id not in PINNED_RECORDS:
                    recs[st.targets[0].id] = fs
    # every record type of the package with its fields (pinned ones too):
    # used to read ``a, b = rec`` with the field names as targets
    ALL_RECORDS.clear()
    for t in trees:
        for st in t.body:
            if isinstance(st, ast.Assign) and len(
                    st.targets) == 1 and isinstance(
                        st.targets[0], ast.Name) and isinstance(
                            st.value, ast.Call) and ast.unparse(
                                st.value.func) in ('collections.namedtuple',
                                                   'namedtuple') and len(
                                                       st.value.args) == 2:
                a1 = st.value.args[1]
                if isinstance(a1, (ast.List, ast.Tuple)) and all(
                        isinstance(e, ast.Constant) for e in a1.elts):
                    ALL_RECORDS.setdefault(
                        tuple(e.value for e in a1.elts), st.targets[0].id)
            elif isinstance(st, ast.ClassDef) and len(st.bases) == 1 and \
                    ast.unparse(st.bases[0]) in ('typing.NamedTuple',
                                                 'NamedTuple'):
                fs = tuple(b.target.id for b in st.body
                           if isinstance(b, ast.AnnAssign)
                           and isinstance(b.target, ast.Name))
                if fs:
                    ALL_RECORDS.setdefault(fs, st.name)
    if not recs:
        return {}
    for t in trees:
        for x in ast.walk(t):
            if isinstance(x, ast.Attribute) and isinstance(
                    x.ctx, (ast.Store, ast.Del)):
                other_attrs.add(x.attr)
            elif isinstance(x, ast.FunctionDef):
                other_attrs.add(x.name)
            elif isinstance(x, ast.ClassDef):
                if x.name in recs:
                    continue
                for b in x.body:
                    if isinstance(b, ast.Assign):
                        for tg in b.targets:
                            if isinstance(tg, ast.Name):
                                other_attrs.add(tg.id)
                    elif isinstance(b, ast.AnnAssign) and isinstance(
                            b.target, ast.Name):
                        other_attrs.add(b.target.id)
            elif isinstance(x, ast.Call) and ast.unparse(x.func) in (
                    'setattr', 'getattr', 'hasattr') and len(
                        x.args) >= 2 and isinstance(x.args[1], ast.Constant):
                other_attrs.add(x.args[1].value)
        for st in t.body:
            if isinstance(st, ast.Assign):
                for tg in st.targets:
                    if isinstance(tg, ast.Name):
                        other_attrs.add(tg.id)
    # fields of the pinned records
    other_attrs |= {'exit', 'out', 'err', 'runtime', 'substs', 'fresh_vars',
                    'id', 'exprs', 'simplifications', 'task_id', 'success',
                    'reduced', 'tests', 'nodeid', 'name', 'data', 'hash'}
    count = {}
    for fs in recs.values():
        for f_ in fs:
            count[f_] = count.get(f_, 0) + 1
    return {n: fs for n, fs in recs.items()
            if not any(f_ in other_attrs or count[f_] > 1
                       or f_.startswith('_') for f_ in fs)}


def flatten_records(tree, records):
    """A record type introduced after the pinned tree is written as the
    plain tuple it replaced: ``T(a, b)`` / ``T(x=a, y=b)`` -> ``(a, b)``,
    ``v.y`` -> ``v[1]`` (field names are unambiguous, see new_records)."""
    if not records:
        return []
    field_ix = {}
    for n, fs in records.items():
        for i, f_ in enumerate(fs):
            field_ix[f_] = i
    notes = []

    class R(ast.NodeTransformer):

        def visit_Call(self_, n):
            n = self_.generic_visit(n)
            nm = None
            if isinstance(n.func, ast.Name):
                nm = n.func.id
            elif isinstance(n.func, ast.Attribute):
                nm = n.func.attr
            if nm in records and not any(
                    isinstance(a, ast.Starred) for a in n.args) and all(
                        k.arg for k in n.keywords):
                fs = records[nm]
                vals = list(n.args)
                kw_ = {k.arg: k.value for k in n.keywords}
                for f_ in fs[len(vals):]:
                    if f_ not in kw_:
                        return n
                    vals.append(kw_[f_])
                if len(vals) != len(fs):
                    return n
                # keyword arguments are evaluated in call order; keep it
                # only when that is the field order
                if [k.arg for k in n.keywords] != fs[len(n.args):]:
                    return n
                notes.append(f'record {nm}(..) at line {n.lineno} written '
                             'as a tuple')
                return ast.copy_location(ast.Tuple(elts=vals,
                                                   ctx=ast.Load()), n)
            return n

        def visit_Attribute(self_, n):
            n = self_.generic_visit(n)
            if isinstance(n.ctx, ast.Load) and n.attr in field_ix:
                return ast.copy_location(ast.Subscript(
                    value=n.value, slice=ast.Constant(value=field_ix[n.attr]),
                    ctx=ast.Load()), n)
            return n

    R().visit(tree)
    ast.fix_missing_locations(tree)
    return notes


def dissolve_local_state_classes(tree, modname):
    """A private class that did not exist on the pinned tree, without
    bases, whose only instance is created in ONE function F (``v = C(..)``)
    and used there only as ``v.attr`` / ``v.method(..)``, and whose methods
    use ``self`` only as ``self.attr`` / ``self.method(..)``: the object is a
    bundle of F's local variables.  Attributes become locals of F, methods
    become private module-level functions over those names (marked
    ``nonlocal`` so that the helper inliner splices them into F without
    renaming the shared names).  An attribute that ``__init__`` sets to a
    constructor argument which F passes as a plain local it does not use
    again keeps that local's name."""
    notes = []
    known = known_private().get(modname, set())
    for cd in [x for x in tree.body if isinstance(x, ast.ClassDef)]:
        cname = cd.name
        if not cname.startswith('_') or cname in known or cd.bases or \
                cd.keywords or cd.decorator_list:
            continue
        meths = {}
        ok = True
        for st in cd.body:
            if isinstance(st, ast.Expr) and isinstance(st.value,
                                                       ast.Constant):
                continue
            if isinstance(st, ast.FunctionDef) and not st.decorator_list \
                    and st.args.args and st.args.args[0].arg == 'self' \
                    and not st.args.vararg and not st.args.kwarg:
                meths[st.name] = st
                continue
            ok = False
        if not ok or not meths:
            continue
        # where is it instantiated
        insts = []
        for f in [x for x in ast.walk(tree) if isinstance(x, ast.FunctionDef)
                  and x not in meths.values()]:
            for st in ast.walk(f):
                if isinstance(st, ast.Assign) and len(
                        st.targets) == 1 and isinstance(
                            st.targets[0], ast.Name) and isinstance(
                                st.value, ast.Call) and isinstance(
                                    st.value.func, ast.Name) and \
                        st.value.func.id == cname:
                    insts.append((f, st))
        nrefs = sum(1 for x in ast.walk(tree) if isinstance(x, ast.Name)
                    and x.id == cname)
        if len(insts) != 1 or nrefs != 1:
            continue
        F, inst = insts[0]
        if F in [y for m_ in meths.values() for y in ast.walk(m_)]:
            continue
        v = inst.targets[0].id
        # v only as v.<name>
        par = {}
        for p_ in ast.walk(F):
            for c_ in ast.iter_child_nodes(p_):
                par[id(c_)] = p_
        uses = [x for x in ast.walk(F) if isinstance(x, ast.Name)
                and x.id == v and x is not inst.targets[0]]
        if not uses or not all(isinstance(par.get(id(u)), ast.Attribute)
                               and par[id(u)].value is u for u in uses):
            continue
        # self only as self.<name>
        bad = False
        for m_ in meths.values():
            mp = {}
            for p_ in ast.walk(m_):
                for c_ in ast.iter_child_nodes(p_):
                    mp[id(c_)] = p_
            for x in ast.walk(m_):
                if isinstance(x, ast.Name) and x.id == 'self' and not (
                        isinstance(mp.get(id(x)), ast.Attribute)
                        and mp[id(x)].value is x):
                    bad = True
            if any(isinstance(x, (ast.Lambda, ast.FunctionDef))
                   and x is not m_ for x in ast.walk(m_)):
                bad = True
        if bad:
            continue
        mangled = {n_: n_ for n_ in meths}
        attrs = set()
        for m_ in list(meths.values()) + [F]:
            base = 'self' if m_ is not F else v
            for x in ast.walk(m_):
                if isinstance(x, ast.Attribute) and isinstance(
                        x.value, ast.Name) and x.value.id == base and \
                        x.attr not in meths:
                    attrs.add(x.attr)
        f_names = {x.id for x in ast.walk(F) if isinstance(x, ast.Name)} | {
            a.arg for a in F.args.args}
        name_of = {}
        init = meths.get('__init__')
        iparams = [a.arg for a in init.args.args[1:]] if init else []
        iargs = dict(zip(iparams, inst.value.args)) if init and not \
            inst.value.keywords and len(inst.value.args) == len(
                iparams) else None
        if init is not None and iargs is None:
            continue
        drop_init_stmts = set()
        if init is not None:
            for st in init.body:
                if isinstance(st, ast.Assign) and len(
                        st.targets) == 1 and isinstance(
                            st.targets[0], ast.Attribute) and isinstance(
                                st.targets[0].value, ast.Name) and \
                        st.targets[0].value.id == 'self' and isinstance(
                            st.value, ast.Name) and st.value.id in iargs \
                        and isinstance(iargs[st.value.id], ast.Name):
                    n_ = iargs[st.value.id].id
                    later = [x for x in ast.walk(F) if isinstance(
                        x, ast.Name) and x.id == n_
                        and getattr(x, 'lineno', 0) > inst.lineno]
                    if not later and st.targets[0].attr not in name_of:
                        name_of[st.targets[0].attr] = n_
                        drop_init_stmts.add(id(st))
        for a_ in sorted(attrs):
            if a_ in name_of:
                continue
            cand = a_.lstrip('_') or a_
            if cand in f_names or cand in name_of.values():
                cand = f'{cand}__{v}'
            name_of[a_] = cand
        fname_of = {n_: f'_{cname.strip("_")}__{n_.strip("_")}'
                    for n_ in meths}

        class T(ast.NodeTransformer):

            def __init__(self_, base):
                self_.base = base

            def visit_Call(self_, n):
                n = self_.generic_visit(n)
                if isinstance(n.func, ast.Attribute) and isinstance(
                        n.func.value, ast.Name) and \
                        n.func.value.id == self_.base and \
                        n.func.attr in meths:
                    n.func = ast.copy_location(ast.Name(
                        id=fname_of[n.func.attr], ctx=ast.Load()), n.func)
                return n

            def visit_Attribute(self_, n):
                n = self_.generic_visit(n)
                if isinstance(n.value, ast.Name) and \
                        n.value.id == self_.base and n.attr in name_of:
                    return ast.copy_location(ast.Name(id=name_of[n.attr],
                                                      ctx=n.ctx), n)
                return n

        newfuncs = []
        for n_, m_ in meths.items():
            body = [T('self').visit(b) for b in m_.body
                    if id(b) not in drop_init_stmts]
            # all state names: callees spliced in later bring theirs along
            used = sorted(set(name_of.values()))
            if used:
                body.insert(0 if not (body and isinstance(
                    body[0], ast.Expr) and isinstance(
                        body[0].value, ast.Constant)) else 1,
                            ast.Nonlocal(names=used))
            fn = ast.FunctionDef(
                name=fname_of[n_],
                args=ast.arguments(
                    posonlyargs=[], args=m_.args.args[1:],
                    kwonlyargs=m_.args.kwonlyargs,
                    kw_defaults=m_.args.kw_defaults,
                    defaults=m_.args.defaults, vararg=None, kwarg=None),
                body=body or [ast.Pass()], decorator_list=[], returns=None)
            ast.copy_location(fn, m_)
            newfuncs.append(fn)
        # F: the instantiation and the uses
        if init is not None:
            call = ast.Expr(value=ast.Call(
                func=ast.Name(id=fname_of['__init__'], ctx=ast.Load()),
                args=inst.value.args, keywords=[]))
        else:
            call = ast.Pass()
        ast.copy_location(call, inst)
        for x in ast.walk(F):
            for fld in ('body', 'orelse', 'finalbody'):
                blk = getattr(x, fld, None)
                if isinstance(blk, list) and inst in blk:
                    blk[blk.index(inst)] = call
        F.body = [T(v).visit(b) for b in F.body]
        i = tree.body.index(cd)
        tree.body[i:i + 1] = newfuncs
        notes.append(f'{F.name}: state class {cname} dissolved into locals '
                     f'({len(attrs)} attributes, {len(meths)} methods)')
    ast.fix_missing_locations(tree)
    return notes


def inline_contextmanagers(tree, modname):
    """``with H(args) as v: BODY`` where H is a module-level generator
    decorated with ``contextlib.contextmanager`` that did not exist on the
    pinned tree and yields exactly once (no return, not in a loop): the
    statements of H with ``yield X`` replaced by ``v = X; BODY`` - the
    definition of what the decorator does for a single-yield generator
    (an exception of BODY is raised at the yield)."""
    notes = []
    known = known_private().get(modname, set())
    cms = {}
    for st in tree.body:
        if isinstance(st, ast.FunctionDef) and _is_private(st.name) and \
                st.name not in known and any(
                    ast.unparse(d) in ('contextlib.contextmanager',
                                       'contextmanager')
                    for d in st.decorator_list) and len(
                        st.decorator_list) == 1:
            ys = [x for x in ast.walk(st) if isinstance(x, (ast.Yield,
                                                            ast.YieldFrom))]
            rets = [x for x in ast.walk(st) if isinstance(x, ast.Return)]
            loops = [x for x in ast.walk(st)
                     if isinstance(x, (ast.For, ast.While))
                     and any(y in list(ast.walk(x)) for y in ys)]
            inner = [x for x in ast.walk(st) if isinstance(
                x, (ast.FunctionDef, ast.Lambda)) and x is not st]
            a = st.args
            if len(ys) == 1 and isinstance(ys[0], ast.Yield) and not rets \
                    and not loops and not inner and not (
                        a.vararg or a.kwarg or a.kwonlyargs or a.defaults):
                cms[st.name] = st
    if not cms:
        return notes
    counter = [0]

    def expand(w, caller):
        it = w.items[0]
        c = it.context_expr
        h = cms[c.func.id]
        ps = [x.arg for x in h.args.posonlyargs + h.args.args]
        if len(c.args) != len(ps) or c.keywords:
            return None
        counter[0] += 1
        suffix = f'__cm{counter[0]}'
        caller_names = {x.id for x in ast.walk(caller)
                        if isinstance(x, ast.Name)} | {
                            a_.arg for a_ in caller.args.args}
        body = [clone(b) for b in _doc_free(h.body)]
        assigned = _assigned_names(body)
        for b in body:
            for x in ast.walk(b):
                if isinstance(x, ast.withitem) and isinstance(
                        x.optional_vars, ast.Name):
                    assigned.add(x.optional_vars.id)
        target = it.optional_vars
        keep = {target.id} if isinstance(target, ast.Name) else set()
        env = {}
        pre = []
        for pn, a_ in zip(ps, c.args):
            if isinstance(a_, (ast.Name, ast.Constant)) and \
                    pn not in assigned:
                env[pn] = a_
            else:
                pre.append(ast.Assign(
                    targets=[ast.Name(id=pn + suffix, ctx=ast.Store())],
                    value=a_))
                env[pn] = pn + suffix
        for n_ in assigned:
            if n_ in caller_names and n_ not in keep and n_ not in ps:
                env[n_] = n_ + suffix
        sub = _Subst(env)
        body = [sub.visit(b) for b in body]
        # with-targets are not Name loads/stores of _Subst's string rename
        done = [False]

        def repl(stmts):
            out = []
            for st_ in stmts:
                if isinstance(st_, ast.Expr) and isinstance(
                        st_.value, ast.Yield):
                    done[0] = True
                    yv = st_.value.value
                    if target is not None and yv is not None and not (
                            isinstance(target, ast.Name) and isinstance(
                                yv, ast.Name) and yv.id == target.id):
                        out.append(ast.Assign(targets=[target], value=yv))
                    elif target is not None and yv is None:
                        out.append(ast.Assign(
                            targets=[target],
                            value=ast.Constant(value=None)))
                    out.extend(w.body)
                    continue
                for fld in ('body', 'orelse', 'finalbody'):
                    b_ = getattr(st_, fld, None)
                    if isinstance(b_, list) and b_ and isinstance(
                            b_[0], ast.stmt):
                        setattr(st_, fld, repl(b_))
                for hd in getattr(st_, 'handlers', []) or []:
                    hd.body = repl(hd.body)
                out.append(st_)
            return out

        new = pre + repl(body)
        if not done[0]:
            return None
        for x in new:
            for y in ast.walk(x):
                if not hasattr(y, 'lineno'):
                    ast.copy_location(y, w)
        return new

    for f in [x for x in ast.walk(tree) if isinstance(x, ast.FunctionDef)
              and x.name not in cms]:
        changed = True
        while changed:
            changed = False
            for x in ast.walk(f):
                for fld in ('body', 'orelse', 'finalbody'):
                    blk = getattr(x, fld, None)
                    if not (isinstance(blk, list) and blk and isinstance(
                            blk[0], ast.stmt)):
                        continue
                    for i, st in enumerate(blk):
                        if isinstance(st, ast.With) and len(
                                st.items) == 1 and isinstance(
                                    st.items[0].context_expr,
                                    ast.Call) and isinstance(
                                        st.items[0].context_expr.func,
                                        ast.Name) and st.items[
                                            0].context_expr.func.id in cms:
                            new = expand(st, f)
                            if new is not None:
                                blk[i:i + 1] = new
                                notes.append(
                                    f'{f.name}: inlined context manager '
                                    f'{st.items[0].context_expr.func.id}')
                                changed = True
                                break
                    if changed:
                        break
                if changed:
                    break
    # drop managers that are not referenced any more
    for nme, h in cms.items():
        refs = [x for x in ast.walk(tree) if isinstance(x, ast.Name)
                and x.id == nme]
        if not refs and h in tree.body:
            tree.body.remove(h)
    ast.fix_missing_locations(tree)
    return notes


def scalarise_global_records(tree):
    """A module global that only ever holds a record of a private
    namedtuple type (``G = _Rec(a, b)`` at module level and under ``global
    G`` in functions) and is only read as ``G.field`` is the group of
    globals ``G__field`` it stands for: every assignment becomes one
    assignment per field (same right-hand sides, same order), every read the
    corresponding global."""
    notes = []
    recs = {}
    for st in tree.body:
        if isinstance(st, ast.Assign) and len(st.targets) == 1 and \
                isinstance(st.targets[0], ast.Name) and isinstance(
                    st.value, ast.Call) and ast.unparse(st.value.func) in (
                        'collections.namedtuple', 'namedtuple') and len(
                            st.value.args) == 2 and isinstance(
                                st.value.args[1], (ast.List, ast.Tuple)) \
                and all(isinstance(x, ast.Constant)
                        for x in st.value.args[1].elts) and \
                st.targets[0].id.startswith('_') and not any(
                    k.arg == 'defaults' for k in st.value.keywords):
            recs[st.targets[0].id] = [x.value
                                      for x in st.value.args[1].elts]
    if not recs:
        return notes

    def ctor_fields(call):
        """field -> value for a record construction, or None"""
        if not (isinstance(call, ast.Call) and isinstance(
                call.func, ast.Name) and call.func.id in recs):
            return None
        fs = recs[call.func.id]
        if any(isinstance(a, ast.Starred) for a in call.args) or any(
                k.arg is None for k in call.keywords):
            return None
        vals = dict(zip(fs, call.args))
        for k in call.keywords:
            vals[k.arg] = k.value
        if set(vals) != set(fs):
            return None
        # keep the evaluation order: positional first, then keywords as
        # written
        order = fs[:len(call.args)] + [k.arg for k in call.keywords]
        return [(f_, vals[f_]) for f_ in order]

    cands = {}
    for st in tree.body:
        if isinstance(st, ast.Assign) and len(st.targets) == 1 and \
                isinstance(st.targets[0], ast.Name) and ctor_fields(
                    st.value) is not None:
            cands[st.targets[0].id] = st.value.func.id
    for g, rec in list(cands.items()):
        ok = True
        for x in ast.walk(tree):
            if isinstance(x, ast.Name) and x.id == g:
                par = getattr(x, '_gparent', None)
        # every use of the name: a store from a constructor of the same
        # record, a field read, or a ``global`` declaration
        parents = {}
        for n in ast.walk(tree):
            for c in ast.iter_child_nodes(n):
                parents[id(c)] = n
        for x in ast.walk(tree):
            if not (isinstance(x, ast.Name) and x.id == g):
                continue
            par = parents.get(id(x))
            if isinstance(x.ctx, ast.Store):
                if not (isinstance(par, ast.Assign) and len(
                        par.targets) == 1 and par.targets[0] is x and
                        ctor_fields(par.value) is not None
                        and par.value.func.id == rec):
                    ok = False
            elif isinstance(x.ctx, ast.Load):
                if not (isinstance(par, ast.Attribute) and par.value is x
                        and par.attr in recs[rec] and isinstance(
                            par.ctx, ast.Load)):
                    ok = False
            else:
                ok = False
        if not ok:
            continue

        class T(ast.NodeTransformer):

            def visit_Attribute(self_, n):
                n = self_.generic_visit(n)
                if isinstance(n.value, ast.Name) and n.value.id == g and \
                        n.attr in recs[rec]:
                    return ast.copy_location(
                        ast.Name(id=f'{g}__{n.attr}', ctx=ast.Load()), n)
                return n

            def visit_Assign(self_, n):
                if len(n.targets) == 1 and isinstance(
                        n.targets[0], ast.Name) and n.targets[0].id == g:
                    out = []
                    for (f_, v) in ctor_fields(n.value):
                        a = ast.Assign(targets=[ast.Name(id=f'{g}__{f_}',
                                                         ctx=ast.Store())],
                                       value=self_.visit(v))
                        out.append(ast.copy_location(a, n))
                    return out
                return self_.generic_visit(n)

            def visit_Global(self_, n):
                names = []
                for nm in n.names:
                    if nm == g:
                        names.extend(f'{g}__{f_}' for f_ in recs[rec])
                    else:
                        names.append(nm)
                n.names = names
                return n

        T().visit(tree)
        ast.fix_missing_locations(tree)
        notes.append(f'module global {g} (a {rec} record) written as the '
                     f'globals {g}__<field>')
    return notes


def canonical_comprehensions(tree):
    """Three spellings with one meaning each:

    * ``any(v == E for v in IT)`` (E does not mention v) is ``E in IT``
      (membership compares the element with E by ``==``, element first,
      and stops at the first hit - exactly what the generator does);
      ``any(v.a == E for v in IT)`` is ``E in map(lambda v: v.a, IT)``;
    * ``name = {K: V for v in IT if C}`` as a statement is the loop that
      fills an empty dict;
    * ``name = sum(1 for v in itertools.takewhile(P, IT))`` is the counting
      loop that stops at the first element failing P.
    """
    notes = []

    def mentions(e, names):
        return any(isinstance(y, ast.Name) and y.id in names
                   for y in ast.walk(e))

    class A(ast.NodeTransformer):

        def visit_Call(self_, n):
            n = self_.generic_visit(n)
            if not (isinstance(n.func, ast.Name) and n.func.id == 'any'
                    and len(n.args) == 1 and not n.keywords and isinstance(
                        n.args[0], ast.GeneratorExp)):
                return n
            g = n.args[0]
            if len(g.generators) != 1 or g.generators[0].ifs or \
                    g.generators[0].is_async or not isinstance(
                        g.generators[0].target, ast.Name):
                return n
            v = g.generators[0].target.id
            e = g.elt
            if not (isinstance(e, ast.Compare) and len(e.ops) == 1
                    and isinstance(e.ops[0], ast.Eq)):
                return n
            l, r = e.left, e.comparators[0]
            if mentions(r, {v}) or not mentions(l, {v}):
                return n
            if any(isinstance(y, (ast.Call, ast.NamedExpr, ast.Yield))
                   for y in ast.walk(r)):
                return n  # E would be evaluated once instead of per element
            it = g.generators[0].iter
            if isinstance(l, ast.Name) and l.id == v:
                src = it
            elif isinstance(l, ast.Attribute) and isinstance(
                    l.value, ast.Name) and l.value.id == v:
                lam = ast.Lambda(
                    args=ast.arguments(posonlyargs=[], args=[ast.arg(arg=v)],
                                       kwonlyargs=[], kw_defaults=[],
                                       defaults=[]),
                    body=l)
                src = ast.Call(func=ast.Name(id='map', ctx=ast.Load()),
                               args=[lam, it], keywords=[])
            else:
                return n
            notes.append(f'any(.. == ..) at line {n.lineno} written as a '
                         'membership test')
            new = ast.Compare(left=r, ops=[ast.In()], comparators=[src])
            return ast.fix_missing_locations(ast.copy_location(new, n))

    A().visit(tree)

    def lower(blk):
        i = 0
        while i < len(blk):
            st = blk[i]
            for fld in ('body', 'orelse', 'finalbody'):
                b = getattr(st, fld, None)
                if isinstance(b, list) and b and isinstance(b[0], ast.stmt):
                    lower(b)
            for h in getattr(st, 'handlers', []) or []:
                lower(h.body)
            if isinstance(st, ast.Assign) and len(st.targets) == 1 and \
                    isinstance(st.targets[0], ast.Name):
                name = st.targets[0].id
                v = st.value
                if isinstance(v, ast.DictComp) and len(
                        v.generators) == 1 and not v.generators[
                            0].is_async and not mentions(v, {name}):
                    g = v.generators[0]
                    inner = [ast.Assign(
                        targets=[ast.Subscript(
                            value=ast.Name(id=name, ctx=ast.Load()),
                            slice=v.key, ctx=ast.Store())], value=v.value)]
                    for c in reversed(g.ifs):
                        inner = [ast.If(test=c, body=inner, orelse=[])]
                    loop = ast.For(target=g.target, iter=g.iter, body=inner,
                                   orelse=[])
                    init = ast.Assign(targets=[st.targets[0]],
                                      value=ast.Dict(keys=[], values=[]))
                    for x in (init, loop):
                        ast.copy_location(x, st)
                        for y in ast.walk(x):
                            if not hasattr(y, 'lineno'):
                                ast.copy_location(y, st)
                        ast.fix_missing_locations(x)
                    blk[i:i + 1] = [init, loop]
                    notes.append(f'dict comprehension at line {st.lineno} '
                                 'written as a loop')
                    i += 2
                    continue
                if isinstance(v, ast.Call) and isinstance(
                        v.func, ast.Name) and v.func.id == 'sum' and len(
                            v.args) == 1 and not v.keywords and isinstance(
                                v.args[0], ast.GeneratorExp) and len(
                                    v.args[0].generators) == 1:
                    ge = v.args[0]
                    g = ge.generators[0]
                    if isinstance(ge.elt, ast.Constant) and \
                            ge.elt.value == 1 and not g.ifs and isinstance(
                                g.iter, ast.Call) and ast.unparse(
                                    g.iter.func) in ('itertools.takewhile',
                                                     'takewhile') and len(
                                                         g.iter.args) == 2 \
                            and isinstance(g.target, ast.Name):
                        pred, it = g.iter.args
                        tv = g.target.id if g.target.id != '_' else \
                            f'{name}__e'
                        test = ast.UnaryOp(op=ast.Not(), operand=ast.Call(
                            func=pred, args=[ast.Name(id=tv,
                                                      ctx=ast.Load())],
                            keywords=[]))
                        loop = ast.For(
                            target=ast.Name(id=tv, ctx=ast.Store()), iter=it,
                            body=[ast.If(test=test, body=[ast.Break()],
                                         orelse=[]),
                                  ast.AugAssign(
                                      target=ast.Name(id=name,
                                                      ctx=ast.Store()),
                                      op=ast.Add(),
                                      value=ast.Constant(value=1))],
                            orelse=[])
                        init = ast.Assign(targets=[st.targets[0]],
                                          value=ast.Constant(value=0))
                        for x in (init, loop):
                            ast.copy_location(x, st)
                            for y in ast.walk(x):
                                if not hasattr(y, 'lineno'):
                                    ast.copy_location(y, st)
                            ast.fix_missing_locations(x)
                        blk[i:i + 1] = [init, loop]
                        notes.append(f'sum over takewhile at line '
                                     f'{st.lineno} written as a loop')
                        i += 2
                        continue
            i += 1

    for f in [x for x in ast.walk(tree) if isinstance(x, ast.FunctionDef)]:
        lower(f.body)
    return notes


def inline_new_helpers(tree, modname, records=None):
    notes0 = []
    try:
        notes0 += dissolve_local_state_classes(tree, modname)
    except RecursionError:
        pass
    try:
        notes0 += inline_contextmanagers(tree, modname)
    except RecursionError:
        pass
    try:
        notes0 += lower_modern_syntax(tree)
    except RecursionError:
        pass
    try:
        notes0 += canonical_comprehensions(tree)
    except RecursionError:
        pass
    try:
        notes0 += flatten_records(tree, records or {})
    except RecursionError:
        pass
    try:
        notes0 += unpack_records(tree)
    except RecursionError:
        pass
    try:
        notes0 += desugar_state_singletons(tree, None)
    except RecursionError:
        pass
    try:
        notes0 += scalarise_global_records(tree)
    except RecursionError:
        pass
    try:
        k = desugar_struct_consts(tree)
        if k:
            notes0.append(f'{k} use(s) of struct.Struct constants written '
                          'as struct.pack/unpack with the literal format')
    except RecursionError:
        pass
    inl = Inliner(tree, modname)
    inl.notes.extend(notes0)
    try:
        return inl.run(), inl.notes
    except RecursionError:
        return tree, ['inlining aborted (recursion)']
