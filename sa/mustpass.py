"""Must-pass-through: every normal path through a function (or through one
iteration of a loop) reaches a statement of a given kind.

Used for "every scheduled mutator is really applied": once a mutator has
been handed to ``_apply_mutator`` / bound by the loop over a pass, no path
returns (or continues with the next mutator) without having handed it on to
the code that asks it for simplifications.  A test of the mutator's own
attributes (``hasattr(mutator, 'mutations')``, its class, its name) that
skips it is exactly the defect: the mutator is enabled and scheduled, yet
never used.
"""
import ast

from .cfg import cfg_of
from .loader import AnalysisError, unparse

INTROSPECT = ('hasattr', 'getattr', 'isinstance', 'str', 'repr', 'type',
              'callable', 'id', 'print', 'len')


def consults(node_ast, name):
    """does this statement hand ``name`` to some callee (other than pure
    introspection / logging)?"""
    if node_ast is None:
        return False
    tops = [node_ast]
    if isinstance(node_ast, (ast.If, ast.While)):
        tops = [node_ast.test]
    elif isinstance(node_ast, ast.For):
        tops = [node_ast.iter]
    elif isinstance(node_ast, ast.With):
        tops = [i.context_expr for i in node_ast.items]
    elif isinstance(node_ast, (ast.Try, ast.FunctionDef, ast.ClassDef)):
        return False
    for top in tops:
        for c in ast.walk(top):
            if not isinstance(c, ast.Call):
                continue
            fn = c.func
            nm = fn.id if isinstance(fn, ast.Name) else (
                fn.attr if isinstance(fn, ast.Attribute) else '')
            if nm in INTROSPECT or nm.startswith('_print') or (
                    isinstance(fn, ast.Attribute) and isinstance(
                        fn.value, ast.Name) and fn.value.id == 'logging'):
                continue
            args = list(c.args) + [k.value for k in c.keywords]
            if any(isinstance(a, ast.Name) and a.id == name for a in args):
                return True
            # name.mutations(..) / name.global_mutations(..) / name.filter(..)
            if isinstance(fn, ast.Attribute) and isinstance(
                    fn.value, ast.Name) and fn.value.id == name:
                return True
    return False


def avoiding_paths(cfg, start, stops, is_target, first_edges=None):
    """Is some node of ``stops`` reachable from ``start`` along normal
    (non-exception) edges without passing a node for which ``is_target``
    holds?  Returns the stop node reached (witness) or None."""
    seen = set()
    work = []
    for e in (first_edges if first_edges is not None else start.succ):
        if e.kind != 'exc':
            work.append(e.dst)
    while work:
        n = work.pop()
        if id(n) in seen:
            continue
        seen.add(id(n))
        if n in stops:
            return n
        if is_target(n):
            continue
        for e in n.succ:
            if e.kind == 'exc':
                continue
            work.append(e.dst)
    return None


def function_must_consult(f, name):
    """None if every normal path entry -> return of f hands ``name`` on;
    otherwise a description of the escaping return."""
    cfg = cfg_of(f)
    hit = avoiding_paths(
        cfg, cfg.entry, {cfg.exit},
        lambda n: n.kind in ('stmt', 'test', 'forinit', 'with')
        and consults(n.ast, name))
    if hit is None:
        return None
    # find a return statement not preceded by a consult for the message
    rets = [r for r in ast.walk(f) if isinstance(r, ast.Return)]
    first = None
    for r in rets:
        nd = cfg.node_of.get(id(r))
        if nd is None:
            continue
        w = avoiding_paths(
            cfg, cfg.entry, {nd},
            lambda n: n.kind in ('stmt', 'test', 'forinit', 'with')
            and consults(n.ast, name))
        if w is not None:
            first = r
            break
    return first if first is not None else f


def loop_must_consult(f, loop, name):
    """None if every normal path through one iteration of ``loop`` hands
    ``name`` on before the next iteration / the end of the loop."""
    cfg = cfg_of(f)
    head = cfg.node_of[id(loop)]
    first = [e for e in head.succ if e.kind in ('true', 'iter')]
    # stops: back at the head (next iteration) or the function exit
    hit = avoiding_paths(
        cfg, head, {head, cfg.exit},
        lambda n: n.kind in ('stmt', 'test', 'forinit', 'with')
        and consults(n.ast, name), first_edges=first)
    return hit
