"""One-shot iterators consumed twice.

A generator expression (or map/filter/zip/iter/reversed/enumerate object, or
the result of a generator function of the package) bound to a local can be
traversed once.  If two consumption sites of the same binding lie on one
control-flow path, the second sees an exhausted iterator: it silently gets
nothing.  The rule reports the pair; it is a zero-count rule (the fixture
fixtures/generator_reuse.py must be flagged on every run).
"""
import ast

from .astutil import call_name, walk_no_nested
from .cfg import cfg_of, expr_owner_node
from .loader import unparse

ONE_SHOT_BUILTINS = ('map', 'filter', 'zip', 'iter', 'reversed', 'enumerate')


def _generator_functions(prog):
    out = set()
    for m in prog.pkg_modules():
        for q, f in m.funcs.items():
            if any(isinstance(x, (ast.Yield, ast.YieldFrom))
                   for x in walk_no_nested(f)):
                out.add(q.split('.')[-1])
    return out


def _is_one_shot(e, genfuncs):
    if isinstance(e, ast.GeneratorExp):
        return True
    if isinstance(e, ast.Call):
        nm = call_name(e) or ''
        if nm in ONE_SHOT_BUILTINS:
            return True
        if nm.split('.')[-1] in genfuncs and not nm.startswith('self.'):
            return True
    return False


def _reaches(a, b):
    seen, work = set(), [a]
    while work:
        n = work.pop()
        for e in n.succ:
            if e.dst is b:
                return True
            if e.dst not in seen:
                seen.add(e.dst)
                work.append(e.dst)
    return False


def findings_in_function(f, genfuncs):
    """[(name, first site, second site)]"""
    out = []
    binds = {}
    for st in walk_no_nested(f):
        if isinstance(st, ast.Assign) and len(st.targets) == 1 and isinstance(
                st.targets[0], ast.Name):
            binds.setdefault(st.targets[0].id, []).append(st)
    cands = {n: sts for n, sts in binds.items()
             if any(_is_one_shot(s.value, genfuncs) for s in sts)}
    if not cands:
        return out
    cfg = cfg_of(f)
    for name, sts in cands.items():
        # consumption sites: the name as an iterable
        sites = []
        for x in walk_no_nested(f):
            if isinstance(x, ast.Name) and x.id == name and isinstance(
                    x.ctx, ast.Load):
                p = getattr(x, '_parent', None)
                cons = False
                if isinstance(p, (ast.For, ast.comprehension)) and \
                        p.iter is x:
                    cons = True
                elif isinstance(p, ast.Call) and x in p.args:
                    nm = call_name(p) or ''
                    # passing it on consumes it unless the callee only
                    # stores it (len() would raise; isinstance is harmless)
                    cons = nm not in ('isinstance', 'id', 'type', 'print',
                                      'repr', 'next')
                elif isinstance(p, (ast.Starred, ast.YieldFrom)):
                    cons = True
                elif isinstance(p, ast.keyword):
                    cons = True
                if cons:
                    sites.append(x)
        if len(sites) < 2:
            continue
        owners = [(s, expr_owner_node(cfg, s)) for s in sites]
        owners = [(s, n) for (s, n) in owners if n is not None]
        defnodes = {cfg.node_of.get(id(st)): st for st in sts}
        defnodes.pop(None, None)

        def forward(start):
            """nodes reachable from ``start`` without passing through a
            (re)binding of the name; a rebinding node itself is reached (its
            right-hand side still reads the old binding) but not left"""
            seen, work = set(), [start]
            while work:
                n = work.pop()
                for e in n.succ:
                    d = e.dst
                    if d in seen:
                        continue
                    seen.add(d)
                    if d not in defnodes:
                        work.append(d)
            return seen

        for dn, dst in defnodes.items():
            if not _is_one_shot(dst.value, genfuncs):
                continue
            live = forward(dn)
            reached = [(s, n) for (s, n) in owners if n in live
                       and not (n is dn)]
            for (a, na) in reached:
                if na in defnodes:
                    after = set()   # the name is rebound right here
                else:
                    after = forward(na)
                for (b, nb) in reached:
                    if b is a:
                        continue
                    if nb is na:
                        if (a.lineno, a.col_offset) < (b.lineno,
                                                       b.col_offset):
                            out.append((name, a, b))
                    elif nb in after:
                        out.append((name, a, b))
    # one report per (name, second site)
    uniq = {}
    for (name, a, b) in out:
        uniq.setdefault((name, id(b)), (name, a, b))
    return list(uniq.values())


def rule(chk, prog, rid, text, scope, why):
    """scope: {module name: None | set of function qualnames}"""
    import os
    from .loader import Module, AnalysisError
    from .report import VERIF
    chk.rule(rid, text)
    genfuncs = _generator_functions(prog)
    n = 0
    for modname, funcs in scope.items():
        try:
            m = prog.mod(modname)
        except AnalysisError:
            continue
        for q, f in m.funcs.items():
            if funcs is not None and q not in funcs:
                continue
            n += 1
            for (name, a, b) in findings_in_function(f, genfuncs):
                pa = getattr(a, '_parent', None)
                pb = getattr(b, '_parent', None)
                chk.check(rid, f'{modname}.{q}',
                          f'"{name}" consumed at line {a.lineno} and again '
                          f'at line {b.lineno}', False,
                          f'"{name}" is a one-shot iterator (generator '
                          f'expression / map / filter ...); it is consumed '
                          f'by "{unparse(pa)[:50]}" (line {a.lineno}) and, on '
                          f'the same path, again by "{unparse(pb)[:50]}" '
                          f'(line {b.lineno}), which then sees nothing: '
                          + why, loc=m.loc(b), nontrivial=True)
    fx = os.path.join(VERIF, 'fixtures', 'generator_reuse.py')
    if not os.path.isfile(fx):
        raise AnalysisError('fixture fixtures/generator_reuse.py missing')
    fm = Module('fixture', fx, open(fx).read())
    got = {q: len(findings_in_function(f, genfuncs | {'numbers'}))
           for q, f in fm.funcs.items()}
    want = {'bad_debug_then_use': 1, 'bad_two_loops': 1, 'good_list': 0,
            'good_either_or': 0, 'good_rebound': 0, 'numbers': 0}
    if got != want:
        raise AnalysisError(f'{rid} self-check: fixture judged {got}')
    chk.instance(rid, 'scope', f'{n} functions examined; fixture: 2 planted '
                 'double consumptions detected, 3 correct uses accepted',
                 True, 'zero-count rule with positive example')
