"""Normal form of the hand-written scanner nodeio.parse_smtlib.

The decision-table extraction of C08 (and the users of that table in C07 and
C03) model a scanner written as character loops

    buf = [char]
    while pos < size:
        char = text[pos]; pos += 1; ...; buf.append(char)

Two other ways of writing the same scan are recognised here and rewritten,
on a *copy* of the function's syntax tree, into that form, so that one
extraction serves all of them:

I3  index scan with a slice
        start = pos - 1
        while pos < size and <test over text[pos]>: pos += 1
        ... text[start:pos] ...
    The rewrite is faithful: the test is kept verbatim (over ``char``), so a
    wrong stop set shows up in the extracted decision table.  Only the slice
    bounds are judged here (linear forms over pos).

I2  search with str.find and a slice
        end = text.find(C, <start>)
        ... adjustments of end ...; lexeme = text[a:b] (+ C); pos = <new>
    The region is evaluated over linear forms in the two cases "found at e"
    and "not found (-1)"; lexeme and new position are compared with what the
    character loop computes (text[p0-1:e+1], e+1 / text[p0-1:size], size).
    Deviations are returned as verdicts (C08 reports them); the region is
    then replaced by the canonical loop for terminator C so that the rest of
    the scanner can still be analysed.

Variable names are canonicalised first (text, pos, size, char), so renaming
them is neutral.  Anything else that touches the cursor is left alone: the
extraction then stops with an analysis error, as before.
"""
import ast

from .astutil import clone, walk_no_nested
from .loader import AnalysisError, unparse


class Verdict:

    def __init__(self, ok, what, msg, node):
        self.ok = ok
        self.what = what
        self.msg = msg
        self.node = node  # node of the ORIGINAL tree (for locations)


def _set_parents(root):
    root._parent = getattr(root, '_parent', None)
    for parent in ast.walk(root):
        for child in ast.iter_child_nodes(parent):
            child._parent = parent


# ------------------------------------------------------------ canonical names
def _canonical_names(f):
    """{actual name: canonical name} for text/pos/size/char."""
    if not f.args.args:
        raise AnalysisError('parse_smtlib has no parameter')
    text = f.args.args[0].arg
    ren = {text: 'text'}
    size = pos = char = None
    size_top = False
    for st in walk_no_nested(f):
        if isinstance(st, ast.Assign) and len(st.targets) == 1 and isinstance(
                st.targets[0], ast.Name):
            v = st.value
            if isinstance(v, ast.Call) and isinstance(
                    v.func, ast.Name) and v.func.id == 'len' and len(
                        v.args) == 1 and isinstance(
                            v.args[0], ast.Name) and v.args[0].id == text:
                # the length taken at the top of the function; later
                # "n = len(text)" in nested blocks are aliases of it
                if st in f.body or size is None:
                    if st in f.body and size is not None and \
                            size_top:
                        pass
                    elif st in f.body:
                        size, size_top = st.targets[0].id, True
                    else:
                        size = st.targets[0].id
            if isinstance(v, ast.Subscript) and isinstance(
                    v.value, ast.Name) and v.value.id == text and isinstance(
                        v.slice, ast.Name) and char is None:
                char = st.targets[0].id
                pos = v.slice.id
    if pos is None or char is None:
        raise AnalysisError(
            'parse_smtlib: no character read "<c> = <text>[<pos>]" found; '
            'the scanner no longer reads its input character by character')
    ren[pos] = 'pos'
    ren[char] = 'char'
    if size is not None:
        ren[size] = 'size'
    # the opening character of a literal: "<q> = <char>"
    for st in walk_no_nested(f):
        if isinstance(st, ast.Assign) and len(st.targets) == 1 and isinstance(
                st.targets[0], ast.Name) and isinstance(
                    st.value, ast.Name) and st.value.id == char and \
                st.targets[0].id not in ren:
            ren[st.targets[0].id] = 'first_char'
            break
    # the open list and the stack of open lists: "<c> = []; <s>.append(<c>)"
    pairs = []
    for blk in _blocks(f):
        pairs.extend(zip(blk, blk[1:]))
    for a, b in pairs:
        if isinstance(a, ast.Assign) and len(a.targets) == 1 and isinstance(
                a.targets[0], ast.Name) and isinstance(
                    a.value, ast.List) and not a.value.elts and isinstance(
                        b, ast.Expr) and isinstance(b.value, ast.Call) and \
                isinstance(b.value.func, ast.Attribute) and \
                b.value.func.attr == 'append' and isinstance(
                    b.value.func.value, ast.Name) and len(
                        b.value.args) == 1 and isinstance(
                            b.value.args[0], ast.Name) and \
                b.value.args[0].id == a.targets[0].id:
            if a.targets[0].id not in ren and \
                    b.value.func.value.id not in ren:
                ren[a.targets[0].id] = 'cur_expr'
                ren[b.value.func.value.id] = 'exprs'
            break
    # a rename must not collide with another variable
    used = {n.id for n in ast.walk(f) if isinstance(n, ast.Name)}
    for a, c in ren.items():
        if a != c and c in used:
            raise AnalysisError(
                f'parse_smtlib: cannot canonicalise "{a}" to "{c}" (name '
                'already in use)')
    return {a: c for a, c in ren.items() if a != c}


def _rename(f, ren):
    if not ren:
        return
    for n in ast.walk(f):
        if isinstance(n, ast.Name) and n.id in ren:
            n.id = ren[n.id]
        elif isinstance(n, ast.arg) and n.arg in ren:
            n.arg = ren[n.arg]


# --------------------------------------------------------------- linear forms
def _lin(e, env):
    """Linear form {sym: coef, 1: const}; env maps names to forms."""
    if isinstance(e, ast.Constant) and isinstance(e.value, int) and \
            not isinstance(e.value, bool):
        return {1: e.value}
    if isinstance(e, ast.UnaryOp) and isinstance(e.op, ast.USub):
        a = _lin(e.operand, env)
        return {k: -v for k, v in a.items()}
    if isinstance(e, ast.Name):
        if e.id in env:
            return dict(env[e.id])
        raise AnalysisError(f'scanner idiom: "{e.id}" is not a cursor '
                            'quantity')
    if isinstance(e, ast.BinOp) and isinstance(e.op, (ast.Add, ast.Sub)):
        a, b = _lin(e.left, env), _lin(e.right, env)
        sg = 1 if isinstance(e.op, ast.Add) else -1
        r = dict(a)
        for k, v in b.items():
            r[k] = r.get(k, 0) + sg * v
        return {k: v for k, v in r.items() if v != 0 or k == 1}
    if isinstance(e, ast.IfExp):
        raise _NeedCase(e)
    raise AnalysisError(f'scanner idiom: "{unparse(e)}" is not a linear '
                        'cursor expression')


class _NeedCase(Exception):

    def __init__(self, e):
        self.e = e


def _norm(a):
    r = {k: v for k, v in a.items() if v != 0}
    return r


def _eq(a, b):
    return _norm(a) == _norm(b)


def _fmt(a):
    a = _norm(a)
    parts = []
    for k in sorted(a, key=str):
        if k == 1:
            continue
        c = a[k]
        parts.append((f'{c}*' if c not in (1, -1) else ('-' if c == -1
                                                         else '')) + str(k))
    c = a.get(1, 0)
    s = ' + '.join(parts) if parts else ''
    if c or not s:
        s = f'{s} + {c}' if s and c > 0 else (f'{s} - {-c}' if s and c < 0
                                              else str(c))
    return s


# ------------------------------------------------------------ I3: index scan
def _reads_text_at_pos(e):
    return [x for x in ast.walk(e) if isinstance(x, ast.Subscript)
            and isinstance(x.value, ast.Name) and x.value.id == 'text'
            and isinstance(x.slice, ast.Name) and x.slice.id == 'pos']


def _is_inc(st, name='pos', by=1):
    return isinstance(st, ast.AugAssign) and isinstance(
        st.target, ast.Name) and st.target.id == name and isinstance(
            st.op, ast.Add) and isinstance(
                st.value, ast.Constant) and st.value.value == by


def _assigns(stmts, name):
    out = []
    for st in stmts:
        for x in ast.walk(st):
            if isinstance(x, (ast.Assign, ast.AugAssign, ast.AnnAssign)):
                tg = x.targets if isinstance(x, ast.Assign) else [x.target]
                for t in tg:
                    for y in ast.walk(t):
                        if isinstance(y, ast.Name) and y.id == name:
                            out.append(x)
    return out


def _parse(src):
    return ast.parse(src).body


def _copy_loc(new_nodes, ref):
    for n in new_nodes:
        for x in ast.walk(n):
            for a in ('lineno', 'col_offset', 'end_lineno',
                      'end_col_offset'):
                setattr(x, a, getattr(ref, a, 0))
    return new_nodes


def _rewrite_index_scan_buf(body, i):
    """body[i] is `while pos < size and T(text[pos]): B.append(text[pos]);
    pos += 1` - the buffer form of the index scan.  Faithful rewrite to the
    character loop (the test is kept verbatim over ``char``)."""
    loop = body[i]
    test = loop.test
    conj = test.values if isinstance(test, ast.BoolOp) and isinstance(
        test.op, ast.And) else [test]
    bound = [c for c in conj if unparse(c) in ('pos < size', 'size > pos')]
    rest = [c for c in conj if c not in bound]
    if len(bound) != 1 or not rest or loop.orelse or len(loop.body) != 2:
        return False
    a, b = loop.body
    if not (_is_inc(b) and isinstance(a, ast.Expr) and isinstance(
            a.value, ast.Call) and isinstance(a.value.func, ast.Attribute)
            and a.value.func.attr == 'append' and len(a.value.args) == 1
            and unparse(a.value.args[0]) == 'text[pos]'
            and isinstance(a.value.func.value, ast.Name)):
        return False
    buf = a.value.func.value.id
    cond = clone(ast.BoolOp(op=ast.And(), values=rest) if len(rest) > 1
                 else rest[0])
    for x in list(ast.walk(cond)):
        if isinstance(x, ast.Subscript) and isinstance(
                x.value, ast.Name) and x.value.id == 'text' and isinstance(
                    x.slice, ast.Name) and x.slice.id == 'pos':
            x.__class__ = ast.Name
            x.__dict__.clear()
            x.id = 'char'
            x.ctx = ast.Load()
    new = _parse(
        'while pos < size:\n'
        '    char = text[pos]\n'
        '    pos += 1\n'
        '    if not (COND):\n'
        '        pos -= 1\n'
        '        break\n'
        f'    {buf}.append(char)\n'.replace('COND', unparse(cond)))
    _copy_loc(new, loop)
    body[i:i + 1] = new
    return True


def _rewrite_index_scan(body, i, verdicts, orig_of):
    """body[i] is `while <pos < size and T(text[pos])>: pos += 1`."""
    loop = body[i]
    test = loop.test
    conj = test.values if isinstance(test, ast.BoolOp) and isinstance(
        test.op, ast.And) else [test]
    bound = [c for c in conj if unparse(c) in ('pos < size', 'size > pos')]
    rest = [c for c in conj if c not in bound]
    if len(bound) != 1 or not rest or loop.orelse:
        raise AnalysisError(
            f'scanner idiom: index scan "{unparse(test)}" lacks the bound '
            '"pos < size" or has an else branch')
    # slice start: the last assignment `S = pos + k` before the loop
    start = None
    for j in range(i - 1, -1, -1):
        st = body[j]
        if isinstance(st, ast.Assign) and len(st.targets) == 1 and \
                isinstance(st.targets[0], ast.Name):
            try:
                lf = _lin(st.value, {'pos': {'pos': 1}})
            except (AnalysisError, _NeedCase):
                continue
            if lf.get('pos') == 1 and set(lf) <= {'pos', 1}:
                start = (st.targets[0].id, lf.get(1, 0), j)
                break
        if _assigns([st], 'pos'):
            break
    if start is None:
        raise AnalysisError(
            'scanner idiom: index scan without a preceding "<start> = pos '
            '- 1"')
    sname, k0, j0 = start
    if _assigns(body[j0 + 1:i], 'pos') or _assigns(body[j0 + 1:i], sname):
        raise AnalysisError('scanner idiom: cursor modified between the '
                            'slice start and the index scan')
    o = orig_of(loop)
    verdicts.append(Verdict(
        k0 == -1, f'lexeme slice starts at pos{k0:+d}',
        f'the lexeme is the slice starting at pos{k0:+d}; the character '
        'that started it was read at pos-1: the lexeme loses or gains a '
        'character at its beginning', o))
    # uses of text[S:pos] after the loop -> ''.join(__buf)
    buf = '__span_buf'
    nuse = 0
    end_ok = True
    tail = body[i + 1:]
    if _assigns(tail, sname):
        raise AnalysisError('scanner idiom: slice start reassigned after '
                            'the scan')
    moved = False
    for st in tail:
        for x in ast.walk(st):
            if isinstance(x, ast.Subscript) and isinstance(
                    x.value, ast.Name) and x.value.id == 'text' and \
                    isinstance(x.slice, ast.Slice) and isinstance(
                        x.slice.lower, ast.Name) and \
                    x.slice.lower.id == sname:
                nuse += 1
                up = x.slice.upper
                if not (isinstance(up, ast.Name) and up.id == 'pos'
                        and x.slice.step is None) or moved:
                    end_ok = False
                # replace in place: becomes ''.join(__span_buf)
                new = _parse(f"''.join({buf})")[0].value
                _copy_loc([new], x)
                x.__class__ = ast.Call
                x.__dict__.clear()
                x.__dict__.update(new.__dict__)
                x._fields = ast.Call._fields
        if _assigns([st], 'pos'):
            moved = True
    if nuse == 0:
        raise AnalysisError('scanner idiom: index scan whose span '
                            f'text[{sname}:pos] is never used')
    verdicts.append(Verdict(
        end_ok, 'lexeme slice ends at the cursor',
        'the lexeme slice does not end at the position where the scan '
        'stopped: characters are lost or taken from the next lexeme', o))
    body_ok = len(loop.body) == 1 and _is_inc(loop.body[0])
    if not body_ok:
        raise AnalysisError('scanner idiom: index scan whose body is not '
                            '"pos += 1"')
    # T with text[pos] -> char
    cond = clone(ast.BoolOp(op=ast.And(), values=rest) if len(rest) > 1
                 else rest[0])
    for x in list(ast.walk(cond)):
        if isinstance(x, ast.Subscript) and isinstance(
                x.value, ast.Name) and x.value.id == 'text' and isinstance(
                    x.slice, ast.Name) and x.slice.id == 'pos':
            x.__class__ = ast.Name
            x.__dict__.clear()
            x.id = 'char'
            x.ctx = ast.Load()
            x._fields = ast.Name._fields
    new = _parse(
        f'{buf} = [char]\n'
        'while pos < size:\n'
        '    char = text[pos]\n'
        '    pos += 1\n'
        '    if not (COND):\n'
        '        pos -= 1\n'
        '        break\n'
        f'    {buf}.append(char)\n'.replace('COND', unparse(cond)))
    if k0 != -1:
        new[0] = _parse(f'{buf} = []')[0]
    _copy_loc(new, loop)
    body[i:i + 1] = new
    return True


# ------------------------------------------------------------- I2: str.find
def _find_call(st):
    if isinstance(st, ast.Assign) and len(st.targets) == 1 and isinstance(
            st.targets[0], ast.Name) and isinstance(st.value, ast.Call):
        c = st.value
        if isinstance(c.func, ast.Attribute) and c.func.attr in (
                'find', 'index') and isinstance(
                    c.func.value, ast.Name) and c.func.value.id == 'text':
            return c
    return None


class _Lex:
    """Symbolic string: list of pieces ('slice', a, b) / ('const', s)."""

    def __init__(self, pieces):
        self.pieces = pieces


def _eval_str(e, env, senv):
    if isinstance(e, ast.Constant) and isinstance(e.value, str):
        return [('const', e.value)]
    if isinstance(e, ast.Name) and e.id in senv:
        return list(senv[e.id])
    if isinstance(e, ast.BinOp) and isinstance(e.op, ast.Add):
        return _eval_str(e.left, env, senv) + _eval_str(e.right, env, senv)
    if isinstance(e, ast.Subscript) and isinstance(
            e.value, ast.Name) and e.value.id == 'text' and isinstance(
                e.slice, ast.Slice) and e.slice.step is None:
        a = _lin(e.slice.lower, env) if e.slice.lower is not None else {1: 0}
        b = _lin(e.slice.upper, env) if e.slice.upper is not None else \
            {'size': 1}
        return [('slice', a, b)]
    if isinstance(e, ast.JoinedStr):
        out = []
        for v in e.values:
            if isinstance(v, ast.Constant):
                out.append(('const', v.value))
            elif isinstance(v, ast.FormattedValue) and v.conversion == -1 \
                    and v.format_spec is None:
                out += _eval_str(v.value, env, senv)
            else:
                raise AnalysisError('scanner idiom: formatted lexeme')
        return out
    raise AnalysisError(f'scanner idiom: lexeme expression "{unparse(e)}" '
                        'is not a concatenation of slices of the text and '
                        'constants')


def _pyslice(a, b):
    """Python semantics of a negative constant bound: from the end."""
    def fix(x):
        x = _norm(x)
        if set(x) <= {1} and x.get(1, 0) < 0:
            return {'size': 1, 1: x[1]}
        return x
    return fix(a), fix(b)


def _simplify(pieces, found, term):
    """Merge adjacent slices; in the found case a constant equal to the
    terminator right after a slice ending at e extends it to e+1."""
    out = []
    for p in pieces:
        if p[0] == 'slice':
            a, b = _pyslice(p[1], p[2])
            p = ('slice', a, b)
        if p[0] == 'const' and p[1] == '':
            continue
        if out and out[-1][0] == 'slice' and p[0] == 'slice' and _eq(
                out[-1][2], p[1]):
            out[-1] = ('slice', out[-1][1], p[2])
            continue
        if out and out[-1][0] == 'slice' and p[0] == 'const' and found and \
                p[1] == term and _eq(out[-1][2], {'e': 1}):
            out[-1] = ('slice', out[-1][1], {'e': 1, 1: 1})
            continue
        out.append(p)
    return out


def _show(pieces):
    return ' + '.join(
        f'text[{_fmt(p[1])}:{_fmt(p[2])}]' if p[0] == 'slice' else repr(p[1])
        for p in pieces) or "''"


def _decide(test, env, found):
    """Truth of a test over the search result in one case."""
    if isinstance(test, ast.UnaryOp) and isinstance(test.op, ast.Not):
        return not _decide(test.operand, env, found)
    if isinstance(test, ast.Compare) and len(test.ops) == 1:
        l = _norm(_lin(test.left, env))
        r = _norm(_lin(test.comparators[0], env))
        d = dict(l)
        for k, v in r.items():
            d[k] = d.get(k, 0) - v
        d = _norm(d)  # l - r
        op = test.ops[0]
        # sign of l - r, knowing: found: 0 <= p0 - 1, p0 <= e < size
        #                         not found: the result is the constant -1
        sign = None
        if set(d) <= {1}:
            c = d.get(1, 0)
            sign = (c > 0) - (c < 0)
        elif d == {'e': 1} or (set(d) == {'e', 1} and d['e'] == 1
                               and d[1] >= 0):
            sign = 1 if d.get(1, 0) > 0 else 'ge0'
        elif set(d) == {'e', 1} and d['e'] == -1 and d[1] <= 0:
            sign = -1 if d[1] < 0 else 'le0'
        elif set(d) <= {'e', 'size', 1} and d.get('e') == 1 and \
                d.get('size') == -1 and d.get(1, 0) <= 0:
            sign = -1  # e - size (+c<=0) < 0
        elif set(d) <= {'e', 'size', 1} and d.get('e') == -1 and \
                d.get('size') == 1 and d.get(1, 0) >= 0:
            sign = 1
        if sign is None:
            raise AnalysisError(
                f'scanner idiom: test "{unparse(test)}" on the search '
                'result cannot be decided')
        table = {
            ast.Lt: {-1: True, 0: False, 1: False, 'ge0': False},
            ast.LtE: {-1: True, 0: True, 1: False, 'le0': True},
            ast.Gt: {-1: False, 0: False, 1: True, 'le0': False},
            ast.GtE: {-1: False, 0: True, 1: True, 'ge0': True},
            ast.Eq: {-1: False, 0: True, 1: False},
            ast.NotEq: {-1: True, 0: False, 1: True},
        }
        t = table.get(type(op), {})
        if sign not in t:
            raise AnalysisError(
                f'scanner idiom: test "{unparse(test)}" on the search '
                'result cannot be decided')
        return t[sign]
    raise AnalysisError(f'scanner idiom: test "{unparse(test)}"')


def _exec_region(stmts, env, senv, found):
    for st in stmts:
        if isinstance(st, ast.Assign) and len(st.targets) == 1 and \
                isinstance(st.targets[0], ast.Name):
            nm = st.targets[0].id
            v = st.value
            while isinstance(v, ast.IfExp):
                v = v.body if _decide(v.test, env, found) else v.orelse
            try:
                env[nm] = _lin(v, env)
                senv.pop(nm, None)
            except AnalysisError:
                senv[nm] = _eval_str(v, env, senv)
                env.pop(nm, None)
        elif isinstance(st, ast.AugAssign) and isinstance(
                st.target, ast.Name) and isinstance(st.op, (ast.Add,
                                                            ast.Sub)):
            nm = st.target.id
            if nm in env:
                b = _lin(st.value, env)
                sg = 1 if isinstance(st.op, ast.Add) else -1
                r = dict(env[nm])
                for k, v in b.items():
                    r[k] = r.get(k, 0) + sg * v
                env[nm] = r
            elif nm in senv and isinstance(st.op, ast.Add):
                senv[nm] = senv[nm] + _eval_str(st.value, env, senv)
            else:
                raise AnalysisError('scanner idiom: augmented assignment '
                                    f'to unknown "{nm}"')
        elif isinstance(st, ast.If):
            br = st.body if _decide(st.test, env, found) else st.orelse
            _exec_region(br, env, senv, found)
        elif isinstance(st, ast.Pass):
            pass
        else:
            raise AnalysisError(
                f'scanner idiom: statement "{unparse(st)[:50]}" inside a '
                'find/slice region')


def _rewrite_find(body, i, verdicts, orig_of, start_chars):
    st0 = body[i]
    c = _find_call(st0)
    o = orig_of(st0)
    raising = c.func.attr == 'index'
    if raising:
        verdicts.append(Verdict(
            False, 'lexeme when no terminator before the end of the text',
            f'text.index({c.args[0].value if c.args and isinstance(c.args[0], ast.Constant) else "?"!r}, ...) raises ValueError when the text '
            'ends inside the lexeme (a comment on the last line without a '
            'final line feed): the parse aborts instead of yielding the '
            'lexeme up to the end of the text', o))
    if c.func.attr not in ('find', 'index') or not c.args or not (
            isinstance(c.args[0], ast.Constant) and isinstance(
                c.args[0].value, str) and len(c.args[0].value) == 1) or \
            len(c.args) > 2 or c.keywords:
        raise AnalysisError(
            f'scanner idiom: "{unparse(c)}" is not find(<one character>, '
            '<start>)')
    term = c.args[0].value
    ename = st0.targets[0].id
    base = {'pos': {'p0': 1}, 'size': {'size': 1}}
    sfrom = _lin(c.args[1], base) if len(c.args) == 2 else {1: 0}
    k = None
    if _norm(sfrom).get('p0') == 1 and set(_norm(sfrom)) <= {'p0', 1}:
        k = _norm(sfrom).get(1, 0)
    ok_start = k == 0 or (k == -1 and term not in start_chars)
    verdicts.append(Verdict(
        ok_start, f'search for {term!r} starts at {_fmt(sfrom)}',
        f'the search for the terminator {term!r} starts at '
        f'{_fmt(sfrom).replace("p0", "pos")}, the first character after the '
        'one that opened the lexeme is at pos: '
        + ('a terminator directly after the opening character is skipped, '
           'the lexeme swallows what follows' if (k or 0) > 0 else
           'characters before the lexeme are searched'), o))
    # region: up to the last statement assigning pos / using the result
    last = i
    for j in range(i + 1, len(body)):
        names = {x.id for x in ast.walk(body[j]) if isinstance(x, ast.Name)}
        stores = {x.id for x in ast.walk(body[j])
                  if isinstance(x, ast.Name) and isinstance(x.ctx,
                                                            ast.Store)}
        if ename in names or 'pos' in stores:
            last = j
    # ... and the slices of the text taken right after it
    for j in range(last + 1, len(body)):
        stj = body[j]
        if isinstance(stj, ast.Assign) and any(
                isinstance(x, ast.Subscript) and isinstance(
                    x.value, ast.Name) and x.value.id == 'text'
                and isinstance(x.slice, ast.Slice)
                for x in ast.walk(stj.value)) and not any(
                    isinstance(x, ast.Call) and isinstance(
                        x.func, ast.Attribute) and x.func.attr in (
                            'find', 'index') for x in ast.walk(stj.value)):
            last = j
        else:
            break
    region = body[i + 1:last + 1]
    # cursor arithmetic noted down just before the search
    # ("start = pos - 1") belongs to the region's environment
    pre_env = {}
    for j in range(i - 1, -1, -1):
        pst = body[j]
        if isinstance(pst, ast.Assign) and len(pst.targets) == 1 and \
                isinstance(pst.targets[0], ast.Name) and \
                pst.targets[0].id not in ('pos', 'size', 'char', 'text'):
            try:
                pre_env[pst.targets[0].id] = _lin(pst.value, base)
                continue
            except (AnalysisError, _NeedCase, KeyError, TypeError):
                break
        break
    # the lexeme variable: the string-valued name assigned in the region
    results = {}
    for found in ((True, ) if raising else (True, False)):
        env = dict(base)
        env.update(pre_env)
        env[ename] = {'e': 1} if found else {1: -1}
        senv = {}
        _exec_region(region, env, senv, found)
        results[found] = (env, senv)
    if raising:
        results[False] = results[True]
    lexnames = sorted(set(results[True][1]) & set(results[False][1]))
    if len(lexnames) != 1:
        raise AnalysisError(
            'scanner idiom: find/slice region does not define exactly one '
            f'lexeme string (found {lexnames})')
    lex = lexnames[0]
    for found in ((True, ) if raising else (True, False)):
        env, senv = results[found]
        got = _simplify(senv[lex], found, term)
        # evaluate with the search really starting at pos (k judged above)
        want = [('slice', {'p0': 1, 1: -1},
                 {'e': 1, 1: 1} if found else {'size': 1})]
        same = len(got) == 1 and got[0][0] == 'slice' and _eq(
            got[0][1], want[0][1]) and _eq(got[0][2], want[0][2])
        case = f'terminator {term!r} found at e' if found else \
            'no terminator before the end of the text'
        verdicts.append(Verdict(
            same, f'lexeme when {case}',
            f'when {case} the lexeme is {_show(got)}, the character loop '
            f'yields {_show(want)} (p0 = pos on entry)'.replace('p0 - 1',
                                                                'pos-1'),
            o))
        wantpos = {'e': 1, 1: 1} if found else {'size': 1}
        gotpos = env.get('pos')
        verdicts.append(Verdict(
            gotpos is not None and _eq(gotpos, wantpos),
            f'cursor when {case}',
            f'when {case} scanning resumes at '
            f'{_fmt(gotpos) if gotpos else "?"}, it must resume at '
            f'{_fmt(wantpos)}', o))
    new = _parse(
        f'{lex} = [char]\n'
        'while pos < size:\n'
        '    char = text[pos]\n'
        '    pos += 1\n'
        f'    {lex}.append(char)\n'
        f'    if char == {term!r}:\n'
        '        break\n'
        f"{lex} = ''.join({lex})\n")
    _copy_loc(new, st0)
    body[i:last + 1] = new
    return True


# --------------------------- I5: search for a character class (regex)
def _class_of_pattern(pat):
    """the set of characters of a pattern that is one positive character
    class of literals (``[ \\t\\n\\r();]``), else None"""
    try:
        import re._parser as sp
    except ImportError:  # pragma: no cover
        import sre_parse as sp
    try:
        items = list(sp.parse(pat))
    except Exception:
        return None
    if len(items) != 1:
        return None
    op, av = items[0]
    if str(op) == 'LITERAL':
        return {chr(av)}
    if str(op) != 'IN':
        return None
    out = set()
    for o, a in av:
        if str(o) == 'LITERAL':
            out.add(chr(a))
        elif str(o) == 'RANGE' and a[1] - a[0] < 64:
            out |= {chr(x) for x in range(a[0], a[1] + 1)}
        else:
            return None
    return out or None


def _class_search(st, m):
    """(result name, chars, start expression) for
    ``D = <compiled class>.search(text, <start>)``"""
    if not (isinstance(st, ast.Assign) and len(st.targets) == 1
            and isinstance(st.targets[0], ast.Name)
            and isinstance(st.value, ast.Call)):
        return None
    c = st.value
    pat = None
    if isinstance(c.func, ast.Attribute) and c.func.attr == 'search' and \
            isinstance(c.func.value, ast.Name) and 1 <= len(
                c.args) <= 2 and not c.keywords and isinstance(
                    c.args[0], ast.Name) and c.args[0].id == 'text':
        ds = m.globals.get(c.func.value.id, [])
        if len(ds) == 1 and isinstance(ds[0], ast.Call) and unparse(
                ds[0].func) == 're.compile' and len(
                    ds[0].args) == 1 and isinstance(
                        ds[0].args[0], ast.Constant) and isinstance(
                            ds[0].args[0].value, str):
            pat = ds[0].args[0].value
        start = c.args[1] if len(c.args) == 2 else ast.Constant(value=0)
    if pat is None:
        return None
    chars = _class_of_pattern(pat)
    if chars is None:
        raise AnalysisError(
            f'scanner idiom: the pattern {pat!r} searched in the text is '
            'not a single class of literal characters')
    return st.targets[0].id, chars, start


def _rewrite_class_search(body, i, verdicts, m):
    st0 = body[i]
    dname, chars, start = _class_search(st0, m)
    base = {'pos': {'p0': 1}, 'size': {'size': 1}}
    sfrom = _norm(_lin(start, base))
    ok_start = sfrom == {'p0': 1}
    verdicts.append(Verdict(
        ok_start, f'search for {sorted(chars)!r} starts at {_fmt(sfrom)}',
        'the search for the end of the token starts at '
        f'{_fmt(sfrom).replace("p0", "pos")}, the first character after the '
        'one that opened the token is at pos', st0))
    # region: statements that mention the match object or assign pos
    last = i
    for j in range(i + 1, len(body)):
        names = {x.id for x in ast.walk(body[j]) if isinstance(x, ast.Name)}
        stores = {x.id for x in ast.walk(body[j])
                  if isinstance(x, ast.Name) and isinstance(x.ctx,
                                                            ast.Store)}
        if dname in names or 'pos' in stores:
            last = j
    region = body[i + 1:last + 1]
    pre_env = {}
    for j in range(i - 1, -1, -1):
        pst = body[j]
        if isinstance(pst, ast.Assign) and len(pst.targets) == 1 and \
                isinstance(pst.targets[0], ast.Name) and \
                pst.targets[0].id not in ('pos', 'size', 'char', 'text'):
            try:
                pre_env[pst.targets[0].id] = _lin(pst.value, base)
                continue
            except (AnalysisError, _NeedCase, KeyError, TypeError):
                break
        break

    def const_tuple(e):
        if isinstance(e, ast.Name) and len(m.globals.get(e.id, [])) == 1:
            e = m.globals[e.id][0]
        if isinstance(e, (ast.Tuple, ast.List, ast.Set)) and all(
                isinstance(x, ast.Constant) for x in e.elts):
            return [x.value for x in e.elts]
        if isinstance(e, ast.Constant) and isinstance(e.value, str):
            return list(e.value)
        return None

    wrapper = [None]

    def specialise(stmts, tch):
        """copy of the region with the match object resolved for the case
        'not found' (tch None) / 'found at e with character tch'"""
        class S(ast.NodeTransformer):

            def visit_Call(self_, n):
                n = self_.generic_visit(n)
                if isinstance(n.func, ast.Attribute) and isinstance(
                        n.func.value, ast.Name) and \
                        n.func.value.id == dname and tch is not None:
                    if n.func.attr == 'start' and not n.args:
                        return ast.Name(id='__e', ctx=ast.Load())
                    if n.func.attr == 'end' and not n.args:
                        return ast.BinOp(left=ast.Name(id='__e',
                                                       ctx=ast.Load()),
                                         op=ast.Add(),
                                         right=ast.Constant(value=1))
                    if n.func.attr == 'group' and (not n.args or (
                            len(n.args) == 1 and isinstance(
                                n.args[0], ast.Constant)
                            and n.args[0].value == 0)):
                        return ast.Constant(value=tch)
                if isinstance(n.func, ast.Name) and n.func.id == 'Node' \
                        and len(n.args) == 1 and not n.keywords:
                    wrapper[0] = 'Node'
                    return n.args[0]
                return n

            def visit_Subscript(self_, n):
                n = self_.generic_visit(n)
                if isinstance(n.value, ast.Name) and n.value.id == dname \
                        and isinstance(n.slice, ast.Constant) and \
                        n.slice.value == 0 and tch is not None:
                    return ast.Constant(value=tch)
                return n

            def visit_Compare(self_, n):
                n = self_.generic_visit(n)
                if len(n.ops) == 1 and isinstance(
                        n.left, ast.Name) and n.left.id == dname and \
                        isinstance(n.comparators[0], ast.Constant) and \
                        n.comparators[0].value is None:
                    if isinstance(n.ops[0], (ast.Is, ast.Eq)):
                        return ast.Constant(value=tch is None)
                    if isinstance(n.ops[0], (ast.IsNot, ast.NotEq)):
                        return ast.Constant(value=tch is not None)
                return n

        return [S().visit(clone(x)) for x in stmts]

    def run(stmts, env, senv, tch):
        for st in stmts:
            if isinstance(st, ast.If):
                t = st.test
                val = None
                neg = False
                while isinstance(t, ast.UnaryOp) and isinstance(t.op,
                                                                ast.Not):
                    neg = not neg
                    t = t.operand
                if isinstance(t, ast.Constant):
                    val = bool(t.value)
                elif isinstance(t, ast.Name) and t.id == dname:
                    val = tch is not None
                elif isinstance(t, ast.Compare) and len(t.ops) == 1 and \
                        isinstance(t.ops[0], (ast.In, ast.NotIn, ast.Eq,
                                              ast.NotEq)):
                    l_ = t.left
                    # text[<e>] is the character found
                    if isinstance(l_, ast.Subscript) and isinstance(
                            l_.value, ast.Name) and l_.value.id == 'text' \
                            and tch is not None:
                        try:
                            if _eq(_lin(l_.slice, env), {'e': 1}):
                                l_ = ast.Constant(value=tch)
                        except (AnalysisError, _NeedCase):
                            pass
                    if isinstance(l_, ast.Constant):
                        rhs = const_tuple(t.comparators[0])
                        if rhs is not None:
                            if isinstance(t.ops[0], (ast.In, ast.NotIn)):
                                val = l_.value in rhs
                            else:
                                val = [l_.value] == rhs or (
                                    len(rhs) == 1 and l_.value == rhs[0])
                            if isinstance(t.ops[0], (ast.NotIn, ast.NotEq)):
                                val = not val
                if val is None:
                    raise AnalysisError(
                        f'scanner idiom: test "{unparse(st.test)}" on the '
                        'result of a class search cannot be decided')
                if neg:
                    val = not val
                run(st.body if val else st.orelse, env, senv, tch)
            else:
                _exec_region([st], env, senv, tch is not None)

    results = {}
    for tch in [None] + sorted(chars):
        env = dict(base)
        env.update(pre_env)
        env['__e'] = {'e': 1}
        senv = {}
        run(specialise(region, tch), env, senv, tch)
        results[tch] = (env, senv)
    lexnames = None
    for tch, (env, senv) in results.items():
        ln = set(senv)
        lexnames = ln if lexnames is None else lexnames & ln
    if not lexnames or len(lexnames) != 1:
        raise AnalysisError('scanner idiom: class-search region does not '
                            'define exactly one lexeme string '
                            f'(found {sorted(lexnames or [])})')
    lex = sorted(lexnames)[0]
    consumed, pushed = [], []
    for tch, (env, senv) in results.items():
        found = tch is not None
        got = _simplify(senv[lex], False, '')
        want = [('slice', {'p0': 1, 1: -1},
                 {'e': 1} if found else {'size': 1})]
        same = len(got) == 1 and got[0][0] == 'slice' and _eq(
            got[0][1], want[0][1]) and _eq(got[0][2], want[0][2])
        case = (f'the token ends at e with {tch!r}' if found
                else 'no delimiter before the end of the text')
        verdicts.append(Verdict(
            same, f'token when {case}',
            f'when {case} the token is {_show(got)}, the character loop '
            f'yields {_show(want)} (p0 = pos on entry)'.replace(
                'p0 - 1', 'pos-1'), st0))
        gotpos = env.get('pos')
        if not found:
            okp = gotpos is not None and _eq(gotpos, {'size': 1})
            verdicts.append(Verdict(
                okp, f'cursor when {case}',
                f'when {case} scanning resumes at '
                f'{_fmt(gotpos) if gotpos else "?"}, it must resume at '
                'size', st0))
        else:
            if gotpos is not None and _eq(gotpos, {'e': 1, 1: 1}):
                consumed.append(tch)
            elif gotpos is not None and _eq(gotpos, {'e': 1}):
                pushed.append(tch)
            else:
                verdicts.append(Verdict(
                    False, f'cursor when {case}',
                    f'when {case} scanning resumes at '
                    f'{_fmt(gotpos) if gotpos else "?"}; it must resume at '
                    'e (the delimiter is looked at again) or e + 1 (it is '
                    'consumed)', st0))
                pushed.append(tch)
    buf = '__cls_buf'
    src = (f'{buf} = [char]\n'
           'while True:\n'
           '    if pos >= size:\n'
           '        break\n'
           '    char = text[pos]\n'
           '    pos += 1\n')
    if consumed:
        src += (f'    if char in {tuple(consumed)!r}:\n'
                '        break\n')
    if pushed:
        src += (f'    if char in {tuple(pushed)!r}:\n'
                '        pos -= 1\n'
                '        break\n')
    src += f'    {buf}.append(char)\n'
    if wrapper[0]:
        src += f"{lex} = {wrapper[0]}(''.join({buf}))\n"
    else:
        src += f"{lex} = ''.join({buf})\n"
    new = _parse(src)
    _copy_loc(new, st0)
    body[i:last + 1] = new
    return True


# ---------------------------------------------------- I2': find and jump
def _is_find_jump(body, i):
    """body[i:i+3] ==  E = text.find(Q, pos) ; if E < 0: <leave> ;
    pos = E + 1   with Q a one-character constant or a name."""
    if i + 2 >= len(body):
        return None
    c = _find_call(body[i])
    if c is None or c.func.attr != 'find' or len(c.args) != 2 or c.keywords:
        return None
    q = c.args[0]
    if not ((isinstance(q, ast.Constant) and isinstance(q.value, str)
             and len(q.value) == 1) or isinstance(q, ast.Name)):
        return None
    if unparse(c.args[1]) != 'pos':
        return None
    e = body[i].targets[0].id
    t = body[i + 1]
    if not (isinstance(t, ast.If) and not t.orelse and unparse(
            t.test).replace(' ', '') in (f'{e}<0', f'{e}==-1')):
        return None
    last = t.body[-1]
    if not isinstance(last, (ast.Return, ast.Break, ast.Raise)):
        return None
    if any(isinstance(x, ast.Name) and x.id in ('pos', e)
           for st_ in t.body for x in ast.walk(st_)):
        return None
    a = body[i + 2]
    if not (isinstance(a, ast.Assign) and unparse(a.targets[0]) == 'pos'
            and unparse(a.value).replace(' ', '') in (f'{e}+1', f'1+{e}')):
        return None
    # the search result must not be used afterwards
    for st_ in body[i + 3:]:
        if any(isinstance(x, ast.Name) and x.id == e for x in ast.walk(st_)):
            return None
    return q, t.body


def _rewrite_find_jump(body, i, q, leave):
    pre = []
    if isinstance(q, ast.Name) and q.id == 'char':
        # the searched character is the one just read: it is overwritten by
        # the character loop, so it is kept under the canonical name first
        pre = _parse('first_char = char\n')
        q = _parse('first_char')[0].value
    new = pre + _parse(
        'while True:\n'
        '    if pos >= size:\n'
        '        pass\n'
        '    char = text[pos]\n'
        '    pos += 1\n'
        f'    if char == {unparse(q)}:\n'
        '        break\n')
    new[len(pre)].body[0].body = [clone(x) for x in leave]
    _copy_loc(new, body[i])
    body[i:i + 3] = new


# ------------------------------ I4: find loop with a cursor of its own
def _match_find_loop(body, i):
    """body[i:] ==  c = pos ; [n = len(text)] ; while True: (c = find(Q, c)
    + 1 ; if c == 0: E = -1; break ; if <Q is not '"' or c at the end or
    text[c] is not '"'>: E = c; break ; c += 1) ; if E < 0: <leave> ;
    X = ..text[pos - 1:E].. ; pos = E
    -> dict of the slots, or None."""
    def is_assign(st, name=None):
        return isinstance(st, ast.Assign) and len(
            st.targets) == 1 and isinstance(st.targets[0], ast.Name) and (
                name is None or st.targets[0].id == name)

    j = i
    if j >= len(body) or not (is_assign(body[j]) and isinstance(
            body[j].value, ast.Name) and body[j].value.id == 'pos'):
        return None
    c = body[j].targets[0].id
    j += 1
    sizes = {'size'}
    while j < len(body) and is_assign(body[j]) and unparse(
            body[j].value) == 'len(text)':
        sizes.add(body[j].targets[0].id)
        j += 1
    if j >= len(body):
        return None
    loop = body[j]
    if not (isinstance(loop, ast.While) and isinstance(
            loop.test, ast.Constant) and loop.test.value is True
            and len(loop.body) == 4 and not loop.orelse):
        return None
    b0, b1, b2, b3 = loop.body
    # b0: c = text.find(Q, c) + 1
    if not (is_assign(b0, c) and isinstance(b0.value, ast.BinOp)
            and isinstance(b0.value.op, ast.Add)):
        return None
    fc, one = b0.value.left, b0.value.right
    if isinstance(fc, ast.Constant):
        fc, one = one, fc
    if not (isinstance(one, ast.Constant) and one.value == 1 and isinstance(
            fc, ast.Call) and isinstance(fc.func, ast.Attribute)
            and fc.func.attr == 'find' and unparse(fc.func.value) == 'text'
            and len(fc.args) == 2 and unparse(fc.args[1]) == c
            and not fc.keywords):
        return None
    q = fc.args[0]
    if not (isinstance(q, ast.Name) and q.id == 'char'):
        return None
    # b1: if c == 0: E = -1; break
    if not (isinstance(b1, ast.If) and not b1.orelse and unparse(
            b1.test).replace(' ', '') in (f'{c}==0', f'{c}<1', f'{c}<=0')
            and len(b1.body) == 2 and is_assign(b1.body[0])
            and unparse(b1.body[0].value) == '-1'
            and isinstance(b1.body[1], ast.Break)):
        return None
    e = b1.body[0].targets[0].id
    # b2: if Q != '"' or c >= n or text[c] != '"': E = c; break
    if not (isinstance(b2, ast.If) and not b2.orelse and isinstance(
            b2.test, ast.BoolOp) and isinstance(b2.test.op, ast.Or)
            and len(b2.body) == 2 and is_assign(b2.body[0], e)
            and unparse(b2.body[0].value) == c
            and isinstance(b2.body[1], ast.Break)):
        return None
    got = set()
    for v in b2.test.values:
        t = unparse(v).replace(' ', '')
        if t in ("char!='\"'", "'\"'!=char"):
            got.add('q')
        elif any(t in (f'{c}>={n}', f'{n}<={c}') for n in sizes):
            got.add('eof')
        elif t in (f"text[{c}]!='\"'", f"'\"'!=text[{c}]"):
            got.add('la')
        else:
            return None
    if got != {'q', 'eof', 'la'} or len(b2.test.values) != 3:
        return None
    # the "at the end" test must come before the look-ahead
    order = [unparse(v).replace(' ', '') for v in b2.test.values]
    if [k for k in order if k.startswith('text[')] and order.index(
            [k for k in order if k.startswith('text[')][0]) < min(
                idx for idx, k in enumerate(order)
                if k.startswith((c + '>=',)) or k.endswith('<=' + c)):
        return None
    # b3: c += 1
    if not (isinstance(b3, ast.AugAssign) and isinstance(b3.op, ast.Add)
            and unparse(b3.target) == c and unparse(b3.value) == '1'):
        return None
    j += 1
    # if E < 0: <leave>
    if j >= len(body) or not (isinstance(body[j], ast.If) and not body[
            j].orelse and unparse(body[j].test).replace(' ', '') in (
                f'{e}<0', f'{e}==-1') and isinstance(
                    body[j].body[-1], (ast.Return, ast.Raise))):
        return None
    leave = body[j].body
    j += 1
    # X = .. text[pos - 1:E] ..
    if j >= len(body) or not isinstance(body[j], ast.Assign):
        return None
    sl = [x for x in ast.walk(body[j].value) if isinstance(x, ast.Subscript)
          and unparse(x.value) == 'text' and isinstance(x.slice, ast.Slice)]
    if len(sl) != 1 or unparse(sl[0].slice.lower).replace(
            ' ', '') != 'pos-1' or unparse(sl[0].slice.upper) != e:
        return None
    lex_stmt, lex_slice = body[j], sl[0]
    j += 1
    if j >= len(body) or not (is_assign(body[j], 'pos') and unparse(
            body[j].value) == e):
        return None
    j += 1
    # the private cursor and the end are not used afterwards
    for st_ in body[j:]:
        if any(isinstance(x, ast.Name) and x.id in (c, e)
               for x in ast.walk(st_)):
            return None
    return {'start': i, 'stop': j, 'leave': leave, 'lex_stmt': lex_stmt,
            'lex_slice': lex_slice}


def _rewrite_find_loop(body, mt):
    new = _parse(
        'first_char = char\n'
        '__span_buf = [char]\n'
        'while True:\n'
        '    if pos >= size:\n'
        '        pass\n'
        '    char = text[pos]\n'
        '    pos += 1\n'
        '    __span_buf.append(char)\n'
        '    if char == first_char:\n'
        "        if char == '\"' and pos < size and text[pos] == '\"':\n"
        '            __span_buf.append(text[pos])\n'
        '            pos += 1\n'
        '            continue\n'
        '        break\n')
    new[2].body[0].body = [clone(x) for x in mt['leave']]
    lex = clone(mt['lex_stmt'])
    join = _parse("x = ''.join(__span_buf)")[0].value
    for x in ast.walk(lex):
        for fld, val in list(ast.iter_fields(x)):
            if isinstance(val, ast.Subscript) and unparse(
                    val) == unparse(mt['lex_slice']):
                setattr(x, fld, join)
            elif isinstance(val, list):
                for k, y in enumerate(val):
                    if isinstance(y, ast.Subscript) and unparse(
                            y) == unparse(mt['lex_slice']):
                        val[k] = join
    if isinstance(lex.value, ast.Subscript) and unparse(
            lex.value) == unparse(mt['lex_slice']):
        lex.value = join
    new.append(lex)
    _copy_loc(new, body[mt['start']])
    body[mt['start']:mt['stop']] = new


# ------------------------------------------------- span -> buffer conversion
def _convert_spans(f, verdicts):
    """``S = pos - 1 ... text[S:pos]``: the lexeme is everything the cursor
    moved over since S.  Rewritten to the buffer form the extraction models:
    the buffer starts with the character that opened the lexeme and every
    forward move of the cursor appends the character moved over."""
    n = 0
    for body in _blocks(f):
        for j0, st in enumerate(body):
            if not (isinstance(st, ast.Assign) and len(st.targets) == 1
                    and isinstance(st.targets[0], ast.Name)):
                continue
            try:
                lf = _lin(st.value, {'pos': {'pos': 1}})
            except (AnalysisError, _NeedCase):
                continue
            if lf.get('pos') != 1 or not set(lf) <= {'pos', 1}:
                continue
            sname = st.targets[0].id
            if sname in ('pos', 'size', 'char', 'text'):
                continue
            tail = body[j0 + 1:]
            uses = []
            for x in [y for t_ in tail for y in ast.walk(t_)]:
                if isinstance(x, ast.Subscript) and isinstance(
                        x.value, ast.Name) and x.value.id == 'text' and \
                        isinstance(x.slice, ast.Slice) and isinstance(
                            x.slice.lower, ast.Name) and \
                        x.slice.lower.id == sname:
                    uses.append(x)
            if not uses:
                continue
            k0 = lf.get(1, 0)
            verdicts.append(Verdict(
                k0 == -1, f'lexeme slice starts at pos{k0:+d}',
                f'the lexeme is the slice starting at pos{k0:+d}; the '
                'character that started it was read at pos-1: the lexeme '
                'loses or gains a character at its beginning', st))
            end_ok = all(isinstance(u.slice.upper, ast.Name)
                         and u.slice.upper.id == 'pos'
                         and u.slice.step is None for u in uses)
            verdicts.append(Verdict(
                end_ok, 'lexeme slice ends at the cursor',
                'the lexeme slice does not end at the position where the '
                'scan stopped: characters are lost or taken from the next '
                'lexeme', st))
            buf = f'__span_buf{n}'
            n += 1
            # region: up to the statement containing the last use
            last = max(idx for idx, t_ in enumerate(tail)
                       if any(u in list(ast.walk(t_)) for u in uses))
            region = tail[:last + 1]
            if _assigns(region, sname):
                raise AnalysisError('scanner idiom: slice start reassigned')

            def conv(blk):
                i_ = 0
                while i_ < len(blk):
                    s_ = blk[i_]
                    if isinstance(s_, ast.Assign) and unparse(
                            s_.value) == 'text[pos]' and unparse(
                                s_.targets[0]) == 'char' and i_ + 1 < len(
                                    blk) and _is_inc(blk[i_ + 1]):
                        blk.insert(i_ + 2, _copy_loc(
                            _parse(f'{buf}.append(char)'), s_)[0])
                        i_ += 3
                        continue
                    if _is_inc(s_):
                        blk.insert(i_, _copy_loc(
                            _parse(f'{buf}.append(text[pos])'), s_)[0])
                        i_ += 2
                        continue
                    if any(isinstance(x, (ast.Assign, ast.AugAssign))
                           and 'pos' in [unparse(t2) for t2 in (
                               x.targets if isinstance(x, ast.Assign)
                               else [x.target])]
                           for x in [s_]):
                        raise AnalysisError(
                            'scanner idiom: cursor moved by '
                            f'"{unparse(s_)}" inside a slice-delimited '
                            'lexeme')
                    for fld in ('body', 'orelse', 'finalbody'):
                        b_ = getattr(s_, fld, None)
                        if isinstance(b_, list) and b_ and isinstance(
                                b_[0], ast.stmt):
                            conv(b_)
                    i_ += 1

            conv(region)
            for u in uses:
                newc = _parse(f"''.join({buf})")[0].value
                _copy_loc([newc], u)
                u.__class__ = ast.Call
                u.__dict__.clear()
                u.__dict__.update(newc.__dict__)
            init = _parse(f'{buf} = [char]' if k0 == -1 else f'{buf} = []')
            _copy_loc(init, st)
            body[j0:j0 + 1] = init
            body[j0 + 1:j0 + 1 + len(region)] = region
            return True
    return False


# -------------------------------------------------------------------- driver
# ------------------------------------------------------- shared emission tail
def _sink_shared_tail(f, notes):
    """``V = None`` at the top of the main loop body, arms that set
    ``V = <node>``, and one trailing ``if V is not None: EMIT``: the tail is
    copied to the end of every arm that sets V at its own level (the arm
    cannot fall through without having set it) and dropped from the arms
    that never mention V.  Anything else is outside this normal form."""
    for loop in [n for n in ast.walk(f) if isinstance(n, ast.While)]:
        body = loop.body
        if len(body) < 3:
            continue
        tail = body[-1]
        if not (isinstance(tail, ast.If) and not tail.orelse and isinstance(
                tail.test, ast.Compare) and len(tail.test.ops) == 1
                and isinstance(tail.test.ops[0], ast.IsNot)
                and isinstance(tail.test.left, ast.Name)
                and isinstance(tail.test.comparators[0], ast.Constant)
                and tail.test.comparators[0].value is None):
            continue
        v = tail.test.left.id
        chain = body[-2]
        if not isinstance(chain, ast.If):
            continue
        inits = [st for st in body[:-2]
                 if isinstance(st, ast.Assign) and len(st.targets) == 1
                 and isinstance(st.targets[0], ast.Name)
                 and st.targets[0].id == v]
        if len(inits) != 1 or not (isinstance(
                inits[0].value, ast.Constant)
                                   and inits[0].value.value is None):
            continue
        # arms of the chain
        arms = []
        c = chain
        while True:
            arms.append(c.body)
            if len(c.orelse) == 1 and isinstance(c.orelse[0], ast.If):
                c = c.orelse[0]
                continue
            if c.orelse:
                arms.append(c.orelse)
            break

        def mentions(stmts):
            return any(isinstance(x, ast.Name) and x.id == v
                       for st in stmts for x in ast.walk(st))

        plan = []
        for arm in arms:
            if not mentions(arm):
                plan.append(False)
                continue
            own = [st for st in arm
                   if isinstance(st, ast.Assign) and len(st.targets) == 1
                   and isinstance(st.targets[0], ast.Name)
                   and st.targets[0].id == v]
            nested = sum(1 for st in arm for x in ast.walk(st)
                         if isinstance(x, ast.Name) and x.id == v
                         and isinstance(x.ctx, ast.Store)) - len(own)
            if len(own) != 1 or nested or (isinstance(
                    own[0].value, ast.Constant)
                                            and own[0].value.value is None):
                raise AnalysisError(
                    f'parse_smtlib: line {arm[0].lineno}: arm sets the '
                    f'shared result "{v}" conditionally; the emission tail '
                    'cannot be attributed to it')
            plan.append(True)
        for arm, has in zip(arms, plan):
            if has:
                arm.extend(clone(st) for st in tail.body)
        body.remove(tail)
        body.remove(inits[0])
        notes.append(f'shared emission tail "if {v} is not None" copied '
                     f'into {sum(plan)} arm(s)')
        return True
    return False


def _lower_ifexp_assign(f):
    """``x = A if T else B`` -> if T: x = A else: x = B (statement form,
    so that the walk over the CFG sees the decision)."""
    n = 0
    for blk in _blocks(f):
        for i, st in enumerate(list(blk)):
            if isinstance(st, ast.Assign) and isinstance(
                    st.value, ast.IfExp) and len(st.targets) == 1:
                a = clone(st)
                a.value = st.value.body
                b = clone(st)
                b.value = st.value.orelse
                new = ast.If(test=st.value.test, body=[a], orelse=[b])
                ast.copy_location(new, st)
                blk[blk.index(st)] = new
                n += 1
    return n



def _blocks(f):
    """All statement lists of the function (for in-place rewriting)."""
    out = []
    for n in ast.walk(f):
        for fld in ('body', 'orelse', 'finalbody'):
            b = getattr(n, fld, None)
            if isinstance(b, list) and b and isinstance(b[0], ast.stmt):
                out.append(b)
    return out


_cache = {}


def _unify_read_variable(f, notes):
    """One variable for the character under the cursor.  A branch of the
    main loop whose inner scanning loop reads into a variable of its own
    (``c2 = text[pos]`` - what inlining a scanning helper leaves behind) is
    rewritten to the single-variable form: the inner variable becomes the
    main one; where the branch still needs the character that opened it
    inside or after the inner loop, that character is first saved
    (``first = char``), as the single-variable form has to do as well."""
    text = f.args.args[0].arg if f.args.args else None
    reads = []
    for st in walk_no_nested(f):
        if isinstance(st, ast.Assign) and len(st.targets) == 1 and isinstance(
                st.targets[0], ast.Name) and isinstance(
                    st.value, ast.Subscript) and isinstance(
                        st.value.value, ast.Name) and \
                st.value.value.id == text and isinstance(
                    st.value.slice, ast.Name):
            reads.append(st)
    names = []
    for r in reads:
        if r.targets[0].id not in names:
            names.append(r.targets[0].id)
    if len(names) < 2:
        return
    _set_parents(f)
    # the main variable: the one read directly in the outermost loop
    def depth(st):
        d, p = 0, getattr(st, '_parent', None)
        while p is not None and p is not f:
            if isinstance(p, (ast.While, ast.For)):
                d += 1
            p = getattr(p, '_parent', None)
        return d
    main = min(reads, key=depth).targets[0].id
    k = 0
    for r in reads:
        c2 = r.targets[0].id
        if c2 == main:
            continue
        # the inner loop and the branch (block) that contains it
        lp = getattr(r, '_parent', None)
        while lp is not None and not isinstance(lp, (ast.While, ast.For)):
            lp = getattr(lp, '_parent', None)
        if lp is None:
            continue
        holder = getattr(lp, '_parent', None)
        blk = None
        for fld in ('body', 'orelse'):
            b = getattr(holder, fld, None)
            if isinstance(b, list) and lp in b:
                blk = b
        if blk is None:
            continue
        idx = blk.index(lp)
        later = blk[idx:]
        uses_main = any(isinstance(y, ast.Name) and y.id == main
                        for st in later for y in ast.walk(st))
        if any(isinstance(y, ast.Name) and y.id == main and isinstance(
                y.ctx, ast.Store) for st in later for y in ast.walk(st)):
            continue
        if uses_main:
            k += 1
            saved = f'first_char' if k == 1 else f'first_char{k}'
            used = {n.id for n in ast.walk(f) if isinstance(n, ast.Name)}
            if saved in used:
                continue
            for st in later:
                for y in ast.walk(st):
                    if isinstance(y, ast.Name) and y.id == main:
                        y.id = saved
            a = ast.Assign(targets=[ast.Name(id=saved, ctx=ast.Store())],
                           value=ast.Name(id=main, ctx=ast.Load()))
            ast.copy_location(a, blk[0])
            ast.fix_missing_locations(a)
            blk.insert(0, a)
            later = blk[idx + 1:]
        for st in later:
            for y in ast.walk(st):
                if isinstance(y, ast.Name) and y.id == c2:
                    y.id = main
        notes.append(f'the characters read into "{c2}" are read into '
                     f'"{main}" (one variable for the character under the '
                     'cursor)')
    _set_parents(f)


def normalised_scanner(m, fname='parse_smtlib'):
    """-> (function AST in normal form, verdicts, notes).  The original
    tree is not modified."""
    k = (id(m), fname)
    if k in _cache:
        return _cache[k]
    f0 = m.func(fname)
    f = clone(f0)
    for a in ('_qualname', '_class', '_module'):
        if hasattr(f0, a):
            setattr(f, a, getattr(f0, a))
    f._parent = getattr(f0, '_parent', None)
    verdicts, notes = [], []
    _unify_read_variable(f, notes)
    _rename(f, _canonical_names(f))
    while _sink_shared_tail(f, notes):
        pass
    _lower_ifexp_assign(f)
    # literal scan by a find loop with a cursor of its own (before the
    # nested finds are hoisted, which would split its first statement)
    again = True
    while again:
        again = False
        for body in _blocks(f):
            for i, st in enumerate(body):
                mt = _match_find_loop(body, i)
                if mt is not None:
                    _rewrite_find_loop(body, mt)
                    notes.append('literal scan by a find loop with a cursor '
                                 'of its own rewritten to a character loop '
                                 f'(line {st.lineno}): str.find returns the '
                                 'first index >= the cursor, i.e. where the '
                                 'character loop stops; "not found" is the '
                                 'end-of-text exit')
                    again = True
                    break
            if again:
                break
    # "end = text.find(c, pos) + 1" -> "end = text.find(c, pos); end = end + 1"
    for body in _blocks(f):
        i_ = 0
        while i_ < len(body):
            st = body[i_]
            if isinstance(st, ast.Assign) and len(st.targets) == 1 and \
                    isinstance(st.targets[0], ast.Name) and not isinstance(
                        st.value, ast.Call):
                inner = [c for c in ast.walk(st.value)
                         if isinstance(c, ast.Call) and isinstance(
                             c.func, ast.Attribute)
                         and c.func.attr in ('find', 'index')
                         and isinstance(c.func.value, ast.Name)
                         and c.func.value.id == 'text']
                if len(inner) == 1:
                    tgt = st.targets[0].id
                    first = _parse(f'{tgt} = 0')[0]
                    first.value = clone(inner[0])
                    _copy_loc([first], st)
                    c = inner[0]
                    c.__class__ = ast.Name
                    c.__dict__.clear()
                    c.id = tgt
                    c.ctx = ast.Load()
                    body.insert(i_, first)
                    i_ += 1
            i_ += 1

    def orig_of(node):
        return node  # positions were copied by clone()

    # characters that can open a lexeme handled by a find (for k == -1)
    start_chars = {';', '"', '|'}
    changed = True
    rounds = 0
    while changed:
        changed = False
        rounds += 1
        if rounds > 20:
            raise AnalysisError('scanner normalisation does not converge')
        for body in _blocks(f):
            for i, st in enumerate(body):
                mt = _match_find_loop(body, i)
                if mt is not None:
                    _rewrite_find_loop(body, mt)
                    notes.append('literal scan by a find loop with a cursor '
                                 'of its own rewritten to a character loop '
                                 f'(line {st.lineno}): str.find returns the '
                                 'first index >= the cursor, i.e. where the '
                                 'character loop stops; "not found" is the '
                                 'end-of-text exit')
                    changed = True
                    break
                if isinstance(st, ast.While) and _reads_text_at_pos(
                        st.test) and not any(
                            isinstance(x, ast.Assign) and unparse(
                                x.value) == 'text[pos]'
                            for x in ast.walk(st)):
                    if not _rewrite_index_scan_buf(body, i):
                        _rewrite_index_scan(body, i, verdicts, orig_of)
                    notes.append('index scan rewritten to a '
                                 f'character loop (line {st.lineno})')
                    changed = True
                    break
                if _class_search(st, m) is not None:
                    _rewrite_class_search(body, i, verdicts, m)
                    notes.append('search for a character class (compiled '
                                 'regular expression) rewritten to a '
                                 f'character loop (line {st.lineno})')
                    changed = True
                    break
                fj = _is_find_jump(body, i)
                if fj is not None:
                    _rewrite_find_jump(body, i, fj[0], fj[1])
                    notes.append('find-and-jump rewritten to a character '
                                 f'loop (line {st.lineno})')
                    changed = True
                    break
                if _find_call(st) is not None:
                    _rewrite_find(body, i, verdicts, orig_of, start_chars)
                    notes.append('find/slice scan rewritten to a '
                                 f'character loop (line {st.lineno})')
                    changed = True
                    break
            if changed:
                break
    nsp = 0
    while _convert_spans(f, verdicts):
        nsp += 1
        if nsp > 10:
            raise AnalysisError('scanner normalisation does not converge')
    if nsp:
        notes.append(f'{nsp} slice-delimited lexeme(s) rewritten to buffers')
    ast.fix_missing_locations(f)
    _set_parents(f)
    _cache[k] = (f, verdicts, notes)
    return _cache[k]
