"""C10 - runs exceeding the time or memory limit are rejected and never
stall ddSMT.  Partial, level 'other': control-flow obligations around the
child process and the limit bookkeeping.  Nothing the kernel does is
decided."""
import ast

from ..astutil import (call_name, calls_in, walk_no_nested, params_of, kw,
                       is_const, opt_read, expand_locals, bind_args)
from ..cfg import cfg_of, expr_owner_node, facts_at, enumerate_paths
from ..loader import Program, AnalysisError, unparse
from ..pathutil import node_calls, describe_path
from ..report import Check

PROP = 'C10'

BLOCKING = ('communicate', 'wait')


def _fn(node):
    n = getattr(node, '_parent', None)
    while n is not None:
        if isinstance(n, ast.FunctionDef):
            return n
        n = getattr(n, '_parent', None)
    return None


def rule_r1_r2_r3(chk, prog):
    chk.rule('C10.R1', 'every blocking call on the child carries a timeout '
             'that flows from execute()\'s timeout parameter')
    chk.rule('C10.R2', 'on expiry the child is killed on every path, the '
             'handler returns a record and does not wait unboundedly')
    chk.rule('C10.R3', 'an expired run cannot look like a finished one: '
             'exit is read before any wait (None), streams are None')
    m = prog.mod('checker')
    f = m.func('execute')
    where = 'checker.execute'
    ps = params_of(f)
    tparam = ps[2]
    nblock = 0
    for c in calls_in(f):
        if isinstance(c.func, ast.Attribute) and c.func.attr in BLOCKING:
            nblock += 1
            t = kw(c, 'timeout')
            if t is None and c.func.attr == 'wait' and c.args:
                t = c.args[0]
            if t is None and c.func.attr == 'communicate' and len(
                    c.args) > 1:
                t = c.args[1]
            ok = t is not None and unparse(expand_locals(f, t)) == tparam
            bounded_const = t is not None and isinstance(
                t, ast.Constant) and isinstance(t.value, (int, float))
            chk.check('C10.R1', where, c, ok or bounded_const,
                      f'{unparse(c)} blocks without a bound derived from '
                      'the time limit: if the command (or a child of it '
                      'that survives the kill and holds the pipes) does not '
                      'finish, ddSMT hangs', loc=m.loc(c), nontrivial=True)
        if isinstance(c.func, ast.Attribute) and c.func.attr in (
                'run', 'check_output', 'call', 'check_call') and unparse(
                    c.func.value) == 'subprocess':
            nblock += 1
            t = kw(c, 'timeout')
            chk.check('C10.R1', where, c, t is not None and unparse(
                t) == tparam, 'subprocess call without the time limit',
                      loc=m.loc(c), nontrivial=True)
    chk.floor('C10.R1', 'blocking calls on the child', nblock, 1)
    # the timeout parameter is not rebound before the wait (ceil happens in
    # limit_resources on its own copy)
    for st in walk_no_nested(f):
        if isinstance(st, (ast.Assign, ast.AugAssign)):
            ts = st.targets if isinstance(st, ast.Assign) else [st.target]
            for t in ts:
                if isinstance(t, ast.Name) and t.id == tparam:
                    chk.check('C10.R1', where, st, False,
                              'execute() rebinds its timeout parameter',
                              loc=m.loc(st))
    # waits outside the check path: informational
    for om in prog.pkg_modules():
        if om.name == 'checker':
            continue
        for c in ast.walk(om.tree):
            if isinstance(c, ast.Call) and (call_name(c) or '').startswith(
                    'subprocess.') and kw(c, 'timeout') is None:
                chk.info('C10.R1', f'unbounded {call_name(c)} outside the '
                         f'check path ({om.name})', loc=om.loc(c))
    # ---- handler
    hs = [h for h in ast.walk(f) if isinstance(h, ast.ExceptHandler)
          and h.type is not None and 'TimeoutExpired' in unparse(h.type)]
    chk.check('C10.R2', where, 'TimeoutExpired handled', len(hs) == 1,
              f'{len(hs)} handlers for subprocess.TimeoutExpired',
              loc=m.loc(f), nontrivial=True)
    if len(hs) != 1:
        return
    h = hs[0]
    cfg = cfg_of(f)
    hn = cfg.node_of[id(h)]
    # the process object waited on
    procs = {unparse(c.func.value) for c in calls_in(f) if isinstance(
        c.func, ast.Attribute) and c.func.attr == 'communicate'}
    proc = sorted(procs)[0] if procs else 'proc'
    paths = enumerate_paths(cfg, hn, lambda n: False)
    ok_kill = bool(paths)
    ok_ret = bool(paths)
    for p in paths:
        calls = [c for n in p.nodes for c in node_calls(n)]
        kills = [c for c in calls if isinstance(c.func, ast.Attribute)
                 and c.func.attr in ('kill', 'terminate')
                 and unparse(c.func.value) == proc]
        if not any(c.func.attr == 'kill' for c in kills):
            ok_kill = False
        if p.end is not cfg.exit:
            ok_ret = False
        last = p.nodes[-2].ast if len(p.nodes) > 1 else None
        if not isinstance(last, ast.Return) or last.value is None:
            ok_ret = False
    chk.check('C10.R2', where, f'{proc}.kill() on every handler path',
              ok_kill, 'some path through the expiry handler does not kill '
              'the child: hung commands accumulate', loc=m.loc(h),
              nontrivial=True)
    chk.check('C10.R2', where, 'handler returns a record', ok_ret,
              'the expiry handler re-raises or falls through instead of '
              'returning a RunInfo', loc=m.loc(h), nontrivial=True)
    # ---- R3: the record of an expired run
    rets = [r for r in ast.walk(h) if isinstance(r, ast.Return)]
    for r in rets:
        v = r.value
        ok = isinstance(v, ast.Call) and call_name(v) == 'RunInfo' and len(
            v.args) == 4
        if ok:
            ex, out, err, rt = v.args
            streams_none = is_const(out) and out.value is None and is_const(
                err) and err.value is None
            exit_txt = unparse(ex)
            # exit: returncode read with no wait/communicate/poll between
            # kill and the read, or the constant None
            waited = any(isinstance(c.func, ast.Attribute) and c.func.attr in
                         ('wait', 'communicate', 'poll')
                         for c in calls_in(h))
            exit_none = (is_const(ex) and ex.value is None) or (
                exit_txt == f'{proc}.returncode' and not waited)
            ok = streams_none and exit_none
            msg = (f'the record of an expired run is RunInfo('
                   f'{exit_txt}, {unparse(out)}, {unparse(err)}, ...): ')
            if not streams_none:
                msg += ('its streams are not None, so it can compare equal '
                        'to a finished run; ')
            if not exit_none:
                msg += ('its exit status is the status of the killed '
                        'process (e.g. -9), a value a run that ended by '
                        'itself can also have; ')
        else:
            msg = 'the expiry handler does not return a 4-field RunInfo'
        chk.check('C10.R3', where, r, ok, msg, loc=m.loc(r), nontrivial=True)
    # finished run: decoded streams, real status
    fin = [r for r in walk_no_nested(f) if isinstance(r, ast.Return)
           and r not in rets and not any(
               isinstance(p, ast.If) for p in _parents(r, f))]
    for r in fin:
        v = r.value
        ok = isinstance(v, ast.Call) and call_name(v) == 'RunInfo' and \
            unparse(v.args[0]) == f'{proc}.returncode' and \
            'decode' in unparse(v.args[1]) and 'decode' in unparse(v.args[2])
        chk.check('C10.R3', where, r, ok,
                  'the record of a finished run does not carry the status '
                  'and decoded streams', loc=m.loc(r), nontrivial=True)


def _stmt_facts(f, st):
    """Guard facts at a statement (for nested defs: at the def statement)."""
    cfg = cfg_of(f)
    n = cfg.node_of.get(id(st))
    if n is None:
        return set()
    IN, _ = cfg.guard_facts()
    return set(IN.get(n) or ())


def _parents(node, stop):
    n = getattr(node, '_parent', None)
    while n is not None and n is not stop:
        yield n
        n = getattr(n, '_parent', None)


def rule_nullness(chk, prog):
    """Corollary of R3: a stream that may be None (expired golden run) is
    never the right operand of ``in``."""
    m = prog.mod('checker')
    n = 0

    def is_stream(t):
        return t.startswith('__GOLDEN') and (t.endswith('.out')
                                             or t.endswith('.err'))

    g = m.func('do_golden_runs')
    scopes = [(g, 'do_golden_runs', None)]
    # helpers of this module that receive a golden stream as an argument
    for hc in calls_in(g):
        hn = call_name(hc)
        if hn in m.funcs and hn != 'execute':
            hps = params_of(m.funcs[hn])
            for pname, a in zip(hps, hc.args):
                if is_stream(unparse(a)):
                    scopes.append((m.funcs[hn], hn, (pname, unparse(a))))
    seen = set()
    for (f, fname, par) in scopes:
        for c in ast.walk(f):
            if isinstance(c, ast.Compare) and isinstance(
                    c.ops[0], (ast.In, ast.NotIn)):
                r = unparse(c.comparators[0])
                if par is None and not is_stream(r):
                    continue
                if par is not None and r != par[0]:
                    continue
                if (id(c), par) in seen:
                    continue
                seen.add((id(c), par))
                n += 1
                facts = facts_at(f, c)
                ok = (f'{r} is None', False) in facts or (
                    f'{r} is not None', True) in facts
                shown = r if par is None else f'{r} (= {par[1]})'
                chk.check('C10.R3', f'checker.{fname}',
                          f'{unparse(c)} [{shown}]', ok,
                          f'"{unparse(c)}" is evaluated although {shown} is '
                          'None when the golden run itself expired '
                          '(--timeout below the command\'s run time): '
                          'TypeError traceback in the main process '
                          'instead of the one-line diagnostic',
                          loc=m.loc(c), nontrivial=True)
    chk.floor('C10.R3', 'match tests against golden streams', n, 2)


def rule_r4(chk, prog):
    chk.rule('C10.R4', 'limits are derived and applied as documented: both '
             'spawn paths call limit_resources; RLIMIT_AS from memout MiB, '
             'RLIMIT_CPU from ceil(timeout); default limit = (golden run '
             'time + 1) * 1.5 of the matching golden record, assigned '
             'exactly when the option is None')
    m = prog.mod('checker')
    f = m.func('execute')
    where = 'checker.execute'
    popens = [c for c in calls_in(f) if (call_name(c) or '').endswith(
        'Popen')]
    cfg = cfg_of(f)
    tparam = params_of(f)[2]

    def is_limit_lambda(e):
        return isinstance(e, ast.Lambda) and isinstance(
            e.body, ast.Call) and call_name(
                e.body) == 'limit_resources' and e.body.args and unparse(
                    e.body.args[0]) == tparam

    def waits(n):
        return any(isinstance(c.func, ast.Attribute) and c.func.attr in (
            'communicate', 'wait') for c in node_calls(n))

    # every path from the entry to the wait: the child on it is limited,
    # either inside the child (preexec_fn) or from the parent (prlimit with
    # the child's pid) before the wait
    paths = enumerate_paths(cfg, cfg.entry, waits, correlate=True)
    nspawn = 0
    for p in paths:
        if p.end in (cfg.exit, cfg.raise_exit):
            continue
        spawn = None
        how = ''
        kwdicts = {}  # name -> has a limiting preexec_fn on this path
        for n in p.nodes[:-1]:
            a = n.ast
            if n.kind == 'stmt' and isinstance(a, ast.Assign) and len(
                    a.targets) == 1:
                t = a.targets[0]
                if isinstance(t, ast.Name) and isinstance(a.value, ast.Dict):
                    kwdicts[t.id] = any(
                        isinstance(k, ast.Constant)
                        and k.value == 'preexec_fn' and is_limit_lambda(v)
                        for k, v in zip(a.value.keys, a.value.values))
                elif isinstance(t, ast.Name) and isinstance(
                        a.value, ast.Call) and call_name(
                            a.value) == 'dict':
                    kwdicts[t.id] = any(
                        k.arg == 'preexec_fn' and is_limit_lambda(k.value)
                        for k in a.value.keywords)
                elif isinstance(t, ast.Subscript) and isinstance(
                        t.value, ast.Name) and isinstance(
                            t.slice, ast.Constant) and \
                        t.slice.value == 'preexec_fn':
                    kwdicts[t.value.id] = is_limit_lambda(a.value)
            for c in node_calls(n):
                if (call_name(c) or '').endswith('Popen'):
                    spawn = (n, c)
                    pre = kw(c, 'preexec_fn')
                    if pre is not None and is_limit_lambda(pre):
                        how = 'preexec_fn'
                    for k in c.keywords:
                        if k.arg is None and isinstance(
                                k.value, ast.Name) and kwdicts.get(
                                    k.value.id):
                            how = 'preexec_fn via **' + k.value.id
                elif spawn and call_name(c) == 'limit_resources' and len(
                        c.args) == 2 and unparse(c.args[0]) == tparam:
                    st = spawn[1]
                    while not isinstance(st, ast.stmt):
                        st = getattr(st, '_parent', None)
                    pv = unparse(st.targets[0]) if isinstance(
                        st, ast.Assign) else None
                    if pv and unparse(c.args[1]) == f'{pv}.pid':
                        how = how or 'prlimit after spawn'
        if spawn is None:
            continue
        nspawn += 1
        chk.check('C10.R4', where,
                  f'{describe_path(p)}: child limited', bool(how),
                  'on this path the command is spawned and waited for '
                  'without limit_resources(timeout) having been applied to '
                  'the child (neither as preexec_fn nor through prlimit '
                  'with its pid): CPU-time and memory limits are not in '
                  'force', loc=m.loc(spawn[1]), nontrivial=True,
                  argument=how)
    chk.floor('C10.R4', 'spawn-to-wait paths', nspawn, 2)
    lr = m.func('limit_resources')
    lw = 'checker.limit_resources'
    lps = params_of(lr)
    tp = lps[0]
    pidp = lps[1] if len(lps) > 1 else 'pid'
    from ..astutil import expand_locals, subst

    def raw_limit_calls(scope):
        return [c for c in ast.walk(scope) if isinstance(c, ast.Call)
                and call_name(c) in ('resource.prlimit',
                                     'resource.setrlimit')]

    # appliers: local callables (lambda bound to a name / nested def) that
    # forward to resource.prlimit / resource.setrlimit
    appliers = {}  # name -> list of (params, vararg, body calls+facts, facts)
    for st in ast.walk(lr):
        if isinstance(st, ast.Assign) and len(st.targets) == 1 and isinstance(
                st.targets[0], ast.Name) and isinstance(
                    st.value, (ast.Name, ast.Attribute)) and unparse(
                        st.value) in ('resource.prlimit',
                                      'resource.setrlimit'):
            # the function itself bound to a local name: lambda *a: f(*a)
            lam = ast.parse(f'lambda *a__: {unparse(st.value)}(*a__)',
                            mode='eval').body
            outer = _stmt_facts(lr, st)
            cs = [(c, set()) for c in raw_limit_calls(lam.body)]
            appliers.setdefault(st.targets[0].id, []).append(
                ([], 'a__', cs, outer))
        if isinstance(st, ast.Assign) and len(st.targets) == 1 and isinstance(
                st.targets[0], ast.Name) and isinstance(st.value,
                                                        ast.Lambda):
            lam = st.value
            outer = _stmt_facts(lr, st)
            cs = [(c, set()) for c in raw_limit_calls(lam.body)]
            appliers.setdefault(st.targets[0].id, []).append(
                ([a.arg for a in lam.args.args],
                 lam.args.vararg.arg if lam.args.vararg else None, cs,
                 outer))
        if isinstance(st, ast.FunctionDef) and st is not lr:
            outer = _stmt_facts(lr, st)
            cs = [(c, set(facts_at(st, c))) for c in raw_limit_calls(st)]
            appliers.setdefault(st.name, []).append(
                ([a.arg for a in st.args.args],
                 st.args.vararg.arg if st.args.vararg else None, cs, outer))
    effective = []  # (kind, args(list of ast), facts)
    in_appliers = {id(c) for v in appliers.values() for (_, _, cs, _) in v
                   for (c, _) in cs}
    for c in raw_limit_calls(lr):
        if id(c) not in in_appliers:
            effective.append((call_name(c), list(c.args),
                              set(facts_at(lr, c)), c))
    for c in calls_in(lr):
        nm = call_name(c)
        if nm not in appliers:
            continue
        site = set(facts_at(lr, c))
        for (ps, va, cs, outer) in appliers[nm]:
            env = {}
            for k_, a in zip(ps, c.args):
                env[k_] = a
            rest = list(c.args[len(ps):])
            for (rc, inner) in cs:
                args = []
                for a in rc.args:
                    if isinstance(a, ast.Starred) and isinstance(
                            a.value, ast.Name) and a.value.id == va:
                        args.extend(rest)
                    else:
                        args.append(subst(a, env))
                effective.append((call_name(rc), args,
                                  site | set(outer) | set(inner), c))
    chk.floor('C10.R4', 'effective setrlimit/prlimit applications',
              len(effective), 4)
    seen = {}
    for (kind, args, facts, c) in effective:
        want_pid = kind == 'resource.prlimit'
        if want_pid:
            okp = bool(args) and unparse(args[0]) == pidp and (
                pidp, True) in facts
            args = args[1:]
        else:
            okp = (pidp, False) in facts
        res_t = unparse(args[0]) if args else '?'
        seen.setdefault(res_t, set()).add(kind)
        chk.check('C10.R4', lw, f'{kind.split(".")[1]}({res_t}) targets '
                  'the child', okp,
                  f'{kind} for {res_t} is not applied '
                  + ('to the given pid under "pid is set"' if want_pid else
                     'in the child itself (no pid) under "pid not set"'),
                  loc=m.loc(c), nontrivial=True)
        lim = expand_locals(lr, args[1]) if len(args) > 1 else None
        if res_t == 'resource.RLIMIT_AS':
            v = unparse(lim).replace(' ', '') if lim is not None else ''
            # bytes per unit of --memout: constant factors at the limit
            # itself times those applied where the option is post-processed
            fac = None
            if isinstance(lim, ast.Tuple) and lim.elts:
                fac = _memout_factor(lim.elts[0])
            wfac, wsites = _memout_write_factor(prog)
            total = fac * wfac if fac is not None and wfac is not None \
                else None
            ok = ('options.args().memout', True) in facts and \
                total == 1024 * 1024
            chk.check('C10.R4', lw, f'{kind.split(".")[1]}: {res_t} = '
                      f'{v[:50]}', ok, 'the memory limit is not memout MiB '
                      'under the memout test: --memout is documented in '
                      f'megabytes, the limit set is memout x {total} bytes '
                      f'(factor {fac} at the limit'
                      + (f', factor {wfac} where the option value is '
                         f'rewritten: {wsites}' if wsites else '') + ')',
                      loc=m.loc(c), nontrivial=True)
        elif res_t == 'resource.RLIMIT_CPU':
            okv = isinstance(lim, ast.Tuple) and len(lim.elts) == 2 and \
                unparse(lim.elts[0]) == unparse(lim.elts[1])
            if okv:
                x = lim.elts[0]
                src = x
                if isinstance(x, ast.Name):
                    ds = [st.value for st in walk_no_nested(lr)
                          if isinstance(st, ast.Assign)
                          and unparse(st.targets[0]) == x.id]
                    src = ds[-1] if ds else x
                okv = unparse(src) == f'math.ceil({tp})'
            under = any(isinstance(a, ast.If) and unparse(a.test) == tp
                        and any(c in list(ast.walk(b)) for b in a.body)
                        for a in _parents(c, lr))
            ok = ((tp, True) in facts or under) and okv
            chk.check('C10.R4', lw, f'{kind.split(".")[1]}: {res_t}', ok,
                      'the CPU limit is not ceil(timeout) under the timeout '
                      'test', loc=m.loc(c), nontrivial=True)
    ok = set(seen) == {'resource.RLIMIT_AS', 'resource.RLIMIT_CPU'} and all(
        v == {'resource.prlimit', 'resource.setrlimit'}
        for v in seen.values())
    chk.check('C10.R4', lw, f'limits set: {sorted(seen)}', ok,
              f'limit_resources sets {sorted(seen)} '
              f'({ {k: sorted(v) for k, v in seen.items()} }); documented: '
              'the address space (RLIMIT_AS, --memout) and CPU time '
              '(RLIMIT_CPU), each from the parent (prlimit) and in the '
              'child (setrlimit) - e.g. RLIMIT_DATA does not count shared/'
              'file-backed mappings, so a command can allocate far beyond '
              '--memout and finish normally', loc=m.loc(lr), nontrivial=True)
    # defaults
    g = m.func('do_golden_runs')
    gw = 'checker.do_golden_runs'
    found = {}
    for st in walk_no_nested(g):
        if isinstance(st, ast.Assign) and len(st.targets) == 1:
            o = opt_read(st.targets[0])
            if o in ('timeout', 'timeout_cc'):
                found.setdefault(o, []).append(st)
    for opt, gold in (('timeout', '__GOLDEN'), ('timeout_cc',
                                                '__GOLDEN_CC')):
        sts = found.get(opt, [])
        ok = len(sts) == 1
        msg = f'{len(sts)} assignments of the default for --{opt}'
        if ok:
            st = sts[0]
            v = st.value
            consts = sorted(c.value for c in ast.walk(v) if isinstance(
                c, ast.Constant) and isinstance(c.value, (int, float)))
            attrs = [unparse(a) for a in ast.walk(v) if isinstance(
                a, ast.Attribute) and a.attr == 'runtime']
            shape = False
            # (<gold>.runtime + 1) * 1.5   [optionally rounded]
            inner = v
            if isinstance(inner, ast.Call) and call_name(inner) in (
                    'round', 'math.ceil') and inner.args:
                inner = inner.args[0]
            if isinstance(inner, ast.BinOp) and isinstance(
                    inner.op, ast.Mult):
                a, b = inner.left, inner.right
                if is_const(a):
                    a, b = b, a
                if is_const(b) and b.value == 1.5 and isinstance(
                        a, ast.BinOp) and isinstance(a.op, ast.Add):
                    x, y = a.left, a.right
                    if is_const(x):
                        x, y = y, x
                    shape = is_const(y) and y.value == 1 and unparse(
                        x) == f'{gold}.runtime'
            facts = facts_at(g, st.value)
            guard = (f'options.args().{opt} is None', True) in facts
            # "exactly when the option is None": the only other facts the
            # assignment may depend on are the presence of the command
            allowed = {f'options.args().{opt} is None',
                       'options.args().cmd_cc', 'options.args().cmd'}
            foreign = sorted(t for (t, p) in facts
                             if 'options.args().' in t and t not in allowed)
            ok = shape and guard and not foreign
            msg = ''
            if not shape:
                msg += (f'default for --{opt} is "{unparse(v)}", documented '
                        f'({gold}.runtime + 1) * 1.5; ')
            if not guard:
                msg += f'not guarded by "{opt} is None"; '
            if foreign:
                msg += (f'additionally guarded by {foreign}: under that '
                        f'condition --{opt} stays None and the '
                        'corresponding command runs without any time limit')
        chk.check('C10.R4', gw, f'default of --{opt}', ok, msg, loc=m.loc(g),
                  nontrivial=True)
    # the default is in place before the first candidate check: assignments
    # happen inside do_golden_runs, which dominates the reductions (R5)


def _memout_factor(e):
    """Product of the constant factors of ``<memout> * k1 * k2 ...``."""
    if opt_read(e) == 'memout' or (isinstance(e, ast.Attribute)
                                   and e.attr == 'memout'):
        return 1
    if isinstance(e, ast.BinOp) and isinstance(e.op, ast.Mult):
        for a, b in ((e.left, e.right), (e.right, e.left)):
            if isinstance(b, ast.Constant) and isinstance(
                    b.value, int) and not isinstance(b.value, bool):
                f = _memout_factor(a)
                return None if f is None else f * b.value
            if isinstance(b, ast.BinOp) and isinstance(
                    b.op, (ast.Mult, ast.Pow, ast.LShift)):
                try:
                    k = eval(compile(ast.Expression(b), '<k>', 'eval'),
                             {'__builtins__': {}}, {})
                except Exception:
                    continue
                f = _memout_factor(a)
                return None if f is None else f * k
    return None


def _memout_write_factor(prog):
    """(product of constant factors, sites) over every store to the
    ``memout`` attribute of the option namespace; None if a store is not a
    rescaling of the option's own value."""
    fac = 1
    sites = []
    for m in prog.pkg_modules():
        if 'tests' in m.rel():
            continue
        for st in ast.walk(m.tree):
            if isinstance(st, ast.Assign):
                for t in st.targets:
                    if isinstance(t, ast.Attribute) and t.attr == 'memout':
                        f = _memout_factor(st.value)
                        sites.append(m.loc(st))
                        if f is None:
                            return None, sites
                        fac *= f
            elif isinstance(st, ast.AugAssign) and isinstance(
                    st.target, ast.Attribute) and st.target.attr == 'memout':
                sites.append(m.loc(st))
                if isinstance(st.op, ast.Mult) and isinstance(
                        st.value, ast.Constant) and isinstance(
                            st.value.value, int):
                    fac *= st.value.value
                else:
                    try:
                        fac *= eval(compile(ast.Expression(st.value), '<k>',
                                            'eval'), {'__builtins__': {}},
                                    {}) if isinstance(st.op, ast.Mult) \
                            else None
                    except Exception:
                        return None, sites
    return fac, sites


def rule_r5(chk, prog):
    chk.rule('C10.R5', 'match strings are validated against the golden run '
             '(exit status != 0 on failure) before any minimisation; the '
             'cross-check siblings likewise')
    m = prog.mod('checker')
    g = m.func('do_golden_runs')
    gw = 'checker.do_golden_runs'
    cfg = cfg_of(g)
    want = {
        'match_out': '__GOLDEN.out', 'match_err': '__GOLDEN.err',
        'match_out_cc': '__GOLDEN_CC.out', 'match_err_cc': '__GOLDEN_CC.err'
    }
    exits = [c for c in calls_in(g) if call_name(c) == 'sys.exit']
    raises = [r for r in ast.walk(g) if isinstance(r, ast.Raise)
              and r.exc is not None]

    def ev(e, val, opt, stream):
        """Truth value of a condition over the atoms A = "stream is None",
        B = "match in stream"; None if it mentions something else."""
        if isinstance(e, ast.UnaryOp) and isinstance(e.op, ast.Not):
            v = ev(e.operand, val, opt, stream)
            return None if v is None else (not v)
        if isinstance(e, ast.BoolOp):
            vs = [ev(x, val, opt, stream) for x in e.values]
            if any(v is None for v in vs):
                return None
            return all(vs) if isinstance(e.op, ast.And) else any(vs)
        if isinstance(e, ast.Compare) and len(e.ops) == 1:
            l, op, r = unparse(e.left), e.ops[0], unparse(e.comparators[0])
            if l == stream and r == 'None':
                if isinstance(op, ast.Is):
                    return val['A']
                if isinstance(op, ast.IsNot):
                    return not val['A']
            if l == f'options.args().{opt}' and r == stream:
                if isinstance(op, ast.In):
                    return val['B']
                if isinstance(op, ast.NotIn):
                    return not val['B']
        return None

    from ..shape import parse_expr
    from ..astutil import subst

    def nonzero_exit(c):
        if isinstance(c, ast.Call):
            code = c.args[0] if c.args else None
            return code is not None and is_const(code) and \
                code.value not in (0, None, False)
        return True

    # exit sites with the facts that hold there; an exit inside a helper of
    # this module is taken with the helper's facts instantiated at each of
    # its call sites in do_golden_runs (one level)
    sites = []
    for (c, anchor) in [(c, c) for c in exits] + [(r, r.exc)
                                                  for r in raises]:
        if nonzero_exit(c):
            sites.append(set(facts_at(g, anchor)))
    for hc in calls_in(g):
        hn = call_name(hc)
        if hn not in m.funcs or hn == 'execute' or hc.keywords:
            continue
        h = m.funcs[hn]
        hps = params_of(h)
        if len(hc.args) > len(hps):
            continue
        env = dict(zip(hps, hc.args))
        hex_ = [(x, x) for x in calls_in(h) if call_name(x) == 'sys.exit'
                and nonzero_exit(x)] + [
                    (r, r.exc) for r in ast.walk(h)
                    if isinstance(r, ast.Raise) and r.exc is not None]
        for (x, anchor) in hex_:
            fs = set(facts_at(g, hc))
            for (t, pol) in facts_at(h, anchor):
                e = parse_expr(t)
                if e is None:
                    continue
                fs.add((unparse(subst(e, env)), pol))
            sites.append(fs)
    for opt, stream in want.items():
        ok = False
        for facts in sites:
            if (f'options.args().{opt}', True) not in facts:
                continue
            # the exit must be reached whenever the stream is missing or
            # lacks the match string: for every such valuation all facts
            # that speak about (stream, match) must hold
            rel = []
            for (t, pol) in facts:
                e = parse_expr(t)
                if e is None:
                    continue
                if ev(e, {'A': False, 'B': False}, opt, stream) is not None:
                    rel.append((e, pol))
            if not rel:
                continue
            good = True
            for A in (True, False):
                for B in (True, False):
                    should_exit = A or not B
                    if A and B:
                        continue  # a None stream contains nothing
                    reached = all(ev(e, {'A': A, 'B': B}, opt, stream) == pol
                                  for (e, pol) in rel)
                    if should_exit and not reached:
                        good = False
            if good:
                ok = True
        msg = (f'--{opt.replace("_", "-")} is never checked against '
               f'{stream}: a golden run whose output lacks the string does '
               'not stop ddSMT with status 1; every candidate is then '
               'rejected (or, worse, minimisation proceeds against a '
               'criterion the original input does not meet)')
        chk.check('C10.R5', gw, f'validation of {opt} against {stream}', ok,
                  msg, loc=m.loc(g), nontrivial=True,
                  argument='the exit is reached for every valuation of '
                  '(stream is None, match in stream) in which the stream '
                  'is missing or lacks the match')
    # ordering in ddsmt_main
    cli = prog.mod('cli')
    mainf = cli.func('ddsmt_main')
    mcfg = cfg_of(mainf)
    marks = {}
    for c in calls_in(mainf):
        nm = call_name(c)
        if nm in ('checker.do_golden_runs', 'strategy_ddmin.reduce',
                  'strategy_hierarchical.reduce'):
            marks[expr_owner_node(mcfg, c)] = nm
    IN, _ = mcfg.dominators_facts(marks)
    nred = 0
    for n, nm in marks.items():
        if nm.endswith('.reduce'):
            nred += 1
            chk.check('C10.R5', 'cli.ddsmt_main', nm,
                      'checker.do_golden_runs' in (IN[n] or ()),
                      f'{nm} is not dominated by do_golden_runs()',
                      loc=cli.loc(n.ast), nontrivial=True)
    chk.floor('C10.R5', 'reduce calls in ddsmt_main', nred, 2)


def rule_r6(chk, prog):
    chk.rule('C10.R6', 'the exit with status 1 (golden run lacks the match '
             'string, usage errors) is not intercepted: no __exit__ method '
             'returns a true value, which would suppress SystemExit and '
             'every other exception leaving its with-block')
    n = 0
    for m in prog.pkg_modules():
        if 'tests' in m.rel():
            continue
        for q, f in m.funcs.items():
            if q.split('.')[-1] != '__exit__' or '<locals>' in q:
                continue
            n += 1
            bad = []
            for r in walk_no_nested(f):
                if not isinstance(r, ast.Return) or r.value is None:
                    continue
                v = expand_locals(f, r.value)

                def may_be_true(e):
                    """False: certainly falsy; True: truthy for some
                    state (a constant true value, or a value computed from
                    the state of the object / the program)"""
                    if isinstance(e, ast.Constant):
                        return bool(e.value)
                    if isinstance(e, ast.IfExp):
                        return may_be_true(e.body) or may_be_true(e.orelse)
                    if isinstance(e, ast.BoolOp) and isinstance(
                            e.op, ast.And):
                        return all(may_be_true(x) for x in e.values)
                    if isinstance(e, ast.BoolOp):
                        return any(may_be_true(x) for x in e.values)
                    if isinstance(e, ast.UnaryOp) and isinstance(
                            e.op, ast.Not):
                        return not (isinstance(e.operand, ast.Constant)
                                    and e.operand.value)
                    return True

                if may_be_true(v):
                    bad.append(r)
            chk.check('C10.R6', f'{m.name}.{q}', 'returns nothing true',
                      not bad,
                      f'"{unparse(bad[0]) if bad else ""}": a true result '
                      'of __exit__ suppresses the exception that leaves the '
                      'with-block - ddsmt_main runs inside "with '
                      'Profiler(...)", so the sys.exit(1) of the golden-run '
                      'check is swallowed and ddsmt goes on / ends with '
                      'status 0', loc=m.loc(bad[0] if bad else f),
                      nontrivial=True)
    chk.floor('C10.R6', '__exit__ methods', n, 1)


def rule_r7(chk, prog):
    chk.rule('C10.R7', 'a time limit is read when a check runs, not when the '
             'module is imported: options that ddSMT assigns at run time '
             '(the default time limits after the golden runs) never occur in '
             'a parameter default, a decorator, a class body or at module '
             'level')
    written = {}
    for m in prog.pkg_modules():
        if 'tests' in m.rel():
            continue
        for st in ast.walk(m.tree):
            tgts = []
            if isinstance(st, ast.Assign):
                tgts = st.targets
            elif isinstance(st, ast.AugAssign):
                tgts = [st.target]
            for t in tgts:
                o = opt_read(t)
                if o:
                    written.setdefault(o, m.loc(st))
    n = 0
    for m in prog.pkg_modules():
        if 'tests' in m.rel():
            continue

        def import_time_exprs():
            for x in ast.walk(m.tree):
                if isinstance(x, (ast.FunctionDef, ast.AsyncFunctionDef,
                                  ast.Lambda)):
                    for d in x.args.defaults + [
                            k for k in x.args.kw_defaults if k is not None]:
                        yield ('default argument of '
                               + getattr(x, 'name', '<lambda>'), d)
                    for d in getattr(x, 'decorator_list', []):
                        yield (f'decorator of {x.name}', d)
                elif isinstance(x, ast.ClassDef):
                    for st in x.body:
                        if not isinstance(st, (ast.FunctionDef,
                                               ast.ClassDef)):
                            yield (f'body of class {x.name}', st)
            for st in m.tree.body:
                if not isinstance(st, (ast.FunctionDef, ast.ClassDef,
                                       ast.Import, ast.ImportFrom)):
                    yield ('module level', st)

        for (what, e) in import_time_exprs():
            for a in ast.walk(e):
                if isinstance(a, (ast.FunctionDef, ast.Lambda)):
                    continue
                o = opt_read(a) if isinstance(a, ast.Attribute) else None
                if not o:
                    continue
                n += 1
                ok = o not in written
                chk.check('C10.R7', m.name, f'{what}: {unparse(a)}', ok,
                          f'--{o.replace("_", "-")} is read at import time '
                          f'({what}) but assigned later at run time '
                          f'({written.get(o)}): the value seen by every '
                          'check is the one from the command line (None '
                          'when the option was not given), so the automatic '
                          'time limit never takes effect and a candidate on '
                          'which the command hangs stalls ddSMT',
                          loc=m.loc(a), nontrivial=True)
    chk.instance('C10.R7', 'package', f'{n} option reads at import time; '
                 f'options assigned at run time: {sorted(written)}', True,
                 'none of them is assigned later', nontrivial=False)
    if not {'timeout', 'timeout_cc'} <= set(written):
        raise AnalysisError('C10.R7: the run-time assignment of the default '
                            'time limits was not found')


WALL_CLOCKS = ('time.time', 'time.monotonic', 'time.perf_counter',
               'time.time_ns', 'time.monotonic_ns', 'time.perf_counter_ns')
CPU_CLOCKS = ('time.process_time', 'time.thread_time', 'time.process_time_ns',
              'time.thread_time_ns', 'time.clock', 'os.times',
              'resource.getrusage')


def rule_r8(chk, prog):
    chk.rule('C10.R8', 'the run time recorded for a run is wall-clock time '
             'around the child: the default limit (golden run time + 1) * '
             '1.5 is derived from it, and a CPU clock of ddSMT itself does '
             'not see the command at all')
    m = prog.mod('checker')
    f = m.func('execute')
    n = 0
    for r in walk_no_nested(f):
        if not (isinstance(r, ast.Return) and isinstance(
                r.value, ast.Call) and call_name(r.value) == 'RunInfo'):
            continue
        v = r.value
        rt = v.args[3] if len(v.args) > 3 else kw(v, 'runtime')
        if rt is None or isinstance(rt, ast.Constant):
            continue
        if isinstance(rt, ast.Name) and rt.id in params_of(f):
            continue  # the expired run reports the limit itself
        n += 1
        e = expand_locals(f, rt)
        clocks = [call_name(c) for c in ast.walk(e)
                  if isinstance(c, ast.Call) and (call_name(c) or '') in
                  WALL_CLOCKS + CPU_CLOCKS]
        bad = [c for c in clocks if c in CPU_CLOCKS]
        ok = bool(clocks) and not bad and len(set(clocks)) == 1
        chk.check('C10.R8', 'checker.execute', f'runtime = {unparse(e)[:60]}',
                  ok,
                  f'the recorded run time is computed from {clocks or "?"}: '
                  + ('a CPU clock of the ddSMT process does not include the '
                     'time the command runs, so the golden run time reads '
                     'as about 0 and the automatic time limit is 1.5 s '
                     'whatever the command needs - slower candidates (or a '
                     'slower machine) are rejected as timeouts'
                     if bad else 'start and end must be read from one '
                     'wall clock'), loc=m.loc(r), nontrivial=True)
    chk.floor('C10.R8', 'records with a measured run time', n, 1)


def run(tier):
    prog = Program()
    chk = Check(
        PROP, 'other', tier,
        clauses_decided=[
            'every wait on the child is bounded by the time limit',
            'kill on expiry on every handler path; handler returns',
            'expired runs are distinguishable from finished ones; streams '
            'that may be None are not searched',
            'limits applied on both spawn paths, derived as documented, '
            'defaults assigned exactly when the option is None',
            'match strings validated before minimisation',
        ],
        clauses_not_decided=[
            'delivery of SIGKILL/SIGXCPU, RLIMIT_AS accounting, '
            'grandchildren holding the pipes (kernel behaviour)',
            'the wall-time bound as a number',
        ])
    chk.guard(rule_r1_r2_r3, chk, prog)
    chk.guard(rule_nullness, chk, prog)
    chk.guard(rule_r4, chk, prog)
    chk.guard(rule_r5, chk, prog)
    chk.guard(rule_r6, chk, prog)
    chk.guard(rule_r7, chk, prog)
    chk.guard(rule_r8, chk, prog)
    from .. import memo

    def _memo_rule(chk, prog):
        chk.rule('C10.R9', 'memoised functions of the checker: the cached value depends only on the cache key')
        memo.report(chk, prog, 'C10.R9', 'memoised functions of the checker',
                    lambda m, q: m.name == 'checker',
                    'a limit cached before the automatic time limit is stored (or before the options change) is the one every later check runs with: the command is no longer stopped after the configured time')

    chk.guard(_memo_rule, chk, prog)
    # ... nor by a jump out of a finally block, which discards the
    # SystemExit in flight just as a true __exit__ does (shared with C05.R9)
    from . import c05 as _c05
    sub5 = Check('C05', 'other', tier, [], [])
    chk.guard(_c05.rule_r9, sub5, prog)
    Check.restrict(sub5, lambda wh, what: 'finally' in str(what)
                   or wh.startswith(('__main__', 'cli')))
    chk.adopt('C10.R10', 'the exit with status 1 is not discarded by a '
              'return / break / continue inside a finally block (shared '
              'with C05.R9)', sub5)
    from .. import streams
    chk.guard(streams.report, chk, prog, 'C10.R11',
              'the run record carries each stream under its own name (the '
              'golden-run validation of --match-out / --match-err reads the '
              'stream it names)',
              'a golden run that lacks the match string on the named stream is not refused with status 1 (and one that has it is)')
    from .. import sigchld
    chk.guard(sigchld.report, chk, prog, 'C10.R12',
              'the disposition of SIGCHLD is never changed and no process '
              'waits for "any child": a command killed by its CPU / memory '
              'limit is seen as killed',
              'candidates on which the command dies from a limit or a signal are recorded with exit code 0 and accepted')
    from . import c09 as _c09b
    sub09b = Check('C09', 'other', tier, [], [])
    chk.guard(_c09b.rule_r6, sub09b, prog)
    Check.restrict(sub09b, lambda wh, what: 'tmpfiles' in str(wh))
    chk.adopt('C10.R13', 'each checking process / thread has its own '
              'candidate file (pid and thread id evaluated per call): a '
              'candidate on which the command does not terminate is not '
              'overwritten by a harmless one while the command starts up '
              '(shared with C09.R6)', sub09b)
    # each command runs under its own limit (shared with C09.R2)
    from . import c09 as _c09c
    sub09c = Check('C09', 'other', tier, [], [])
    chk.guard(_c09c.rule_r2, sub09c, prog)
    Check.restrict(sub09c, lambda wh, what: 'timeout' in str(what))
    chk.adopt('C10.R14', 'the command runs under --timeout and the '
              'cross-check command under --timeout-cc: a hanging cross '
              'check is stopped at its own limit (shared with the timeout '
              'part of C09.R2)', sub09c)
    extra = None
    if tier == 'thorough':
        from .. import selftest
        extra = selftest.run_for(PROP)
    return chk.finish(extra)
