"""C10 - runs exceeding the time or memory limit are rejected and never
stall ddSMT.  Partial, level 'other': control-flow obligations around the
child process and the limit bookkeeping.  Nothing the kernel does is
decided."""
import ast

from ..astutil import (call_name, calls_in, walk_no_nested, params_of, kw,
                       is_const, opt_read, expand_locals, bind_args)
from ..cfg import cfg_of, expr_owner_node, facts_at, enumerate_paths
from ..loader import Program, AnalysisError, unparse
from ..pathutil import node_calls
from ..report import Check

PROP = 'C10'

BLOCKING = ('communicate', 'wait')


def _fn(node):
    n = getattr(node, '_parent', None)
    while n is not None:
        if isinstance(n, ast.FunctionDef):
            return n
        n = getattr(n, '_parent', None)
    return None


def rule_r1_r2_r3(chk, prog):
    chk.rule('C10.R1', 'every blocking call on the child carries a timeout '
             'that flows from execute()\'s timeout parameter')
    chk.rule('C10.R2', 'on expiry the child is killed on every path, the '
             'handler returns a record and does not wait unboundedly')
    chk.rule('C10.R3', 'an expired run cannot look like a finished one: '
             'exit is read before any wait (None), streams are None')
    m = prog.mod('checker')
    f = m.func('execute')
    where = 'checker.execute'
    ps = params_of(f)
    tparam = ps[2]
    nblock = 0
    for c in calls_in(f):
        if isinstance(c.func, ast.Attribute) and c.func.attr in BLOCKING:
            nblock += 1
            t = kw(c, 'timeout')
            if t is None and c.func.attr == 'wait' and c.args:
                t = c.args[0]
            if t is None and c.func.attr == 'communicate' and len(
                    c.args) > 1:
                t = c.args[1]
            ok = t is not None and unparse(expand_locals(f, t)) == tparam
            bounded_const = t is not None and isinstance(
                t, ast.Constant) and isinstance(t.value, (int, float))
            chk.check('C10.R1', where, c, ok or bounded_const,
                      f'{unparse(c)} blocks without a bound derived from '
                      'the time limit: if the command (or a child of it '
                      'that survives the kill and holds the pipes) does not '
                      'finish, ddSMT hangs', loc=m.loc(c), nontrivial=True)
        if isinstance(c.func, ast.Attribute) and c.func.attr in (
                'run', 'check_output', 'call', 'check_call') and unparse(
                    c.func.value) == 'subprocess':
            nblock += 1
            t = kw(c, 'timeout')
            chk.check('C10.R1', where, c, t is not None and unparse(
                t) == tparam, 'subprocess call without the time limit',
                      loc=m.loc(c), nontrivial=True)
    chk.floor('C10.R1', 'blocking calls on the child', nblock, 1)
    # the timeout parameter is not rebound before the wait (ceil happens in
    # limit_resources on its own copy)
    for st in walk_no_nested(f):
        if isinstance(st, (ast.Assign, ast.AugAssign)):
            ts = st.targets if isinstance(st, ast.Assign) else [st.target]
            for t in ts:
                if isinstance(t, ast.Name) and t.id == tparam:
                    chk.check('C10.R1', where, st, False,
                              'execute() rebinds its timeout parameter',
                              loc=m.loc(st))
    # waits outside the check path: informational
    for om in prog.pkg_modules():
        if om.name == 'checker':
            continue
        for c in ast.walk(om.tree):
            if isinstance(c, ast.Call) and (call_name(c) or '').startswith(
                    'subprocess.') and kw(c, 'timeout') is None:
                chk.info('C10.R1', f'unbounded {call_name(c)} outside the '
                         f'check path ({om.name})', loc=om.loc(c))
    # ---- handler
    hs = [h for h in ast.walk(f) if isinstance(h, ast.ExceptHandler)
          and h.type is not None and 'TimeoutExpired' in unparse(h.type)]
    chk.check('C10.R2', where, 'TimeoutExpired handled', len(hs) == 1,
              f'{len(hs)} handlers for subprocess.TimeoutExpired',
              loc=m.loc(f), nontrivial=True)
    if len(hs) != 1:
        return
    h = hs[0]
    cfg = cfg_of(f)
    hn = cfg.node_of[id(h)]
    # the process object waited on
    procs = {unparse(c.func.value) for c in calls_in(f) if isinstance(
        c.func, ast.Attribute) and c.func.attr == 'communicate'}
    proc = sorted(procs)[0] if procs else 'proc'
    paths = enumerate_paths(cfg, hn, lambda n: False)
    ok_kill = bool(paths)
    ok_ret = bool(paths)
    for p in paths:
        calls = [c for n in p.nodes for c in node_calls(n)]
        kills = [c for c in calls if isinstance(c.func, ast.Attribute)
                 and c.func.attr in ('kill', 'terminate')
                 and unparse(c.func.value) == proc]
        if not any(c.func.attr == 'kill' for c in kills):
            ok_kill = False
        if p.end is not cfg.exit:
            ok_ret = False
        last = p.nodes[-2].ast if len(p.nodes) > 1 else None
        if not isinstance(last, ast.Return) or last.value is None:
            ok_ret = False
    chk.check('C10.R2', where, f'{proc}.kill() on every handler path',
              ok_kill, 'some path through the expiry handler does not kill '
              'the child: hung commands accumulate', loc=m.loc(h),
              nontrivial=True)
    chk.check('C10.R2', where, 'handler returns a record', ok_ret,
              'the expiry handler re-raises or falls through instead of '
              'returning a RunInfo', loc=m.loc(h), nontrivial=True)
    # ---- R3: the record of an expired run
    rets = [r for r in ast.walk(h) if isinstance(r, ast.Return)]
    for r in rets:
        v = r.value
        ok = isinstance(v, ast.Call) and call_name(v) == 'RunInfo' and len(
            v.args) == 4
        if ok:
            ex, out, err, rt = v.args
            streams_none = is_const(out) and out.value is None and is_const(
                err) and err.value is None
            exit_txt = unparse(ex)
            # exit: returncode read with no wait/communicate/poll between
            # kill and the read, or the constant None
            waited = any(isinstance(c.func, ast.Attribute) and c.func.attr in
                         ('wait', 'communicate', 'poll')
                         for c in calls_in(h))
            exit_none = (is_const(ex) and ex.value is None) or (
                exit_txt == f'{proc}.returncode' and not waited)
            ok = streams_none and exit_none
            msg = (f'the record of an expired run is RunInfo('
                   f'{exit_txt}, {unparse(out)}, {unparse(err)}, ...): ')
            if not streams_none:
                msg += ('its streams are not None, so it can compare equal '
                        'to a finished run; ')
            if not exit_none:
                msg += ('its exit status is the status of the killed '
                        'process (e.g. -9), a value a run that ended by '
                        'itself can also have; ')
        else:
            msg = 'the expiry handler does not return a 4-field RunInfo'
        chk.check('C10.R3', where, r, ok, msg, loc=m.loc(r), nontrivial=True)
    # finished run: decoded streams, real status
    fin = [r for r in walk_no_nested(f) if isinstance(r, ast.Return)
           and r not in rets and not any(
               isinstance(p, ast.If) for p in _parents(r, f))]
    for r in fin:
        v = r.value
        ok = isinstance(v, ast.Call) and call_name(v) == 'RunInfo' and \
            unparse(v.args[0]) == f'{proc}.returncode' and \
            'decode' in unparse(v.args[1]) and 'decode' in unparse(v.args[2])
        chk.check('C10.R3', where, r, ok,
                  'the record of a finished run does not carry the status '
                  'and decoded streams', loc=m.loc(r), nontrivial=True)


def _stmt_facts(f, st):
    """Guard facts at a statement (for nested defs: at the def statement)."""
    cfg = cfg_of(f)
    n = cfg.node_of.get(id(st))
    if n is None:
        return set()
    IN, _ = cfg.guard_facts()
    return set(IN.get(n) or ())


def _parents(node, stop):
    n = getattr(node, '_parent', None)
    while n is not None and n is not stop:
        yield n
        n = getattr(n, '_parent', None)


def rule_nullness(chk, prog):
    """Corollary of R3: a stream that may be None (expired golden run) is
    never the right operand of ``in``."""
    m = prog.mod('checker')
    n = 0
    for fname in ('do_golden_runs', ):
        f = m.func(fname)
        for c in ast.walk(f):
            if isinstance(c, ast.Compare) and isinstance(
                    c.ops[0], (ast.In, ast.NotIn)):
                r = unparse(c.comparators[0])
                if r.startswith('__GOLDEN') and (r.endswith('.out')
                                                 or r.endswith('.err')):
                    n += 1
                    facts = facts_at(f, c)
                    ok = (f'{r} is None', False) in facts or (
                        f'{r} is not None', True) in facts
                    chk.check('C10.R3', f'checker.{fname}', c, ok,
                              f'"{unparse(c)}" is evaluated although {r} is '
                              'None when the golden run itself expired '
                              '(--timeout below the command\'s run time): '
                              'TypeError traceback in the main process '
                              'instead of the one-line diagnostic',
                              loc=m.loc(c), nontrivial=True)
    chk.floor('C10.R3', 'match tests against golden streams', n, 2)


def rule_r4(chk, prog):
    chk.rule('C10.R4', 'limits are derived and applied as documented: both '
             'spawn paths call limit_resources; RLIMIT_AS from memout MiB, '
             'RLIMIT_CPU from ceil(timeout); default limit = (golden run '
             'time + 1) * 1.5 of the matching golden record, assigned '
             'exactly when the option is None')
    m = prog.mod('checker')
    f = m.func('execute')
    where = 'checker.execute'
    popens = [c for c in calls_in(f) if (call_name(c) or '').endswith(
        'Popen')]
    cfg = cfg_of(f)
    tparam = params_of(f)[2]
    for c in popens:
        pre = kw(c, 'preexec_fn')
        ok = False
        how = ''
        if pre is not None and isinstance(pre, ast.Lambda) and isinstance(
                pre.body, ast.Call) and call_name(
                    pre.body) == 'limit_resources' and unparse(
                        pre.body.args[0]) == tparam:
            ok = True
            how = 'preexec_fn'
        else:
            # post-spawn: limit_resources(timeout, proc.pid) dominated by the
            # spawn, before the wait
            st = c
            while not isinstance(st, ast.stmt):
                st = getattr(st, '_parent', None)
            if isinstance(st, ast.Assign):
                pv = unparse(st.targets[0])
                for c2 in calls_in(f):
                    if call_name(c2) == 'limit_resources' and len(
                            c2.args) == 2 and unparse(
                                c2.args[0]) == tparam and unparse(
                                    c2.args[1]) == f'{pv}.pid':
                        # same branch
                        if facts_at(f, c2) == facts_at(f, c):
                            ok = True
                            how = 'prlimit after spawn'
        chk.check('C10.R4', where, c, ok,
                  'this spawn path does not apply limit_resources(timeout) '
                  'to the child: CPU-time and memory limits are not in '
                  'force', loc=m.loc(c), nontrivial=True, argument=how)
    lr = m.func('limit_resources')
    lw = 'checker.limit_resources'
    calls = [c for c in calls_in(lr) if call_name(c) == 'setlimit']
    seen = {}
    for c in calls:
        res = unparse(c.args[0])
        seen[res] = c
    ok = set(seen) == {'resource.RLIMIT_AS', 'resource.RLIMIT_CPU'}
    chk.check('C10.R4', lw, f'limits set: {sorted(seen)}', ok,
              f'limit_resources sets {sorted(seen)}; documented: the address '
              'space (RLIMIT_AS, --memout) and CPU time (RLIMIT_CPU) - e.g. '
              'RLIMIT_DATA does not count shared/file-backed mappings, so a '
              'command can allocate far beyond --memout and finish normally',
              loc=m.loc(lr), nontrivial=True)
    if 'resource.RLIMIT_AS' in seen:
        c = seen['resource.RLIMIT_AS']
        facts = facts_at(lr, c)
        v = unparse(c.args[1]).replace(' ', '')
        ok = ('options.args().memout', True) in facts and v.startswith(
            '(options.args().memout*1024*1024,')
        chk.check('C10.R4', lw, c, ok, 'the memory limit is not memout MiB '
                  'under the memout test', loc=m.loc(c), nontrivial=True)
    if 'resource.RLIMIT_CPU' in seen:
        c = seen['resource.RLIMIT_CPU']
        facts = facts_at(lr, c)
        tp = params_of(lr)[0]
        under = any(isinstance(a, ast.If) and unparse(a.test) == tp
                    and any(c in list(ast.walk(b)) for b in a.body)
                    for a in _parents(c, lr))
        # the limit value: (X, X) with X = math.ceil(<timeout parameter>)
        lim = c.args[1]
        okv = isinstance(lim, ast.Tuple) and len(lim.elts) == 2 and unparse(
            lim.elts[0]) == unparse(lim.elts[1])
        if okv:
            x = lim.elts[0]
            src = x
            if isinstance(x, ast.Name):
                ds = [st.value for st in walk_no_nested(lr)
                      if isinstance(st, ast.Assign)
                      and unparse(st.targets[0]) == x.id]
                src = ds[-1] if ds else x
            okv = unparse(src) == f'math.ceil({tp})'
        ok = ((tp, True) in facts or under) and okv
        chk.check('C10.R4', lw, c, ok, 'the CPU limit is not ceil(timeout) '
                  'under the timeout test', loc=m.loc(c), nontrivial=True)
    # setlimit targets the child: prlimit(pid, ...) when a pid is given,
    # setrlimit(...) (inside the child, via preexec_fn) otherwise
    bodies = []
    for st in ast.walk(lr):
        if isinstance(st, ast.Assign) and unparse(
                st.targets[0]) == 'setlimit' and isinstance(st.value,
                                                            ast.Lambda):
            bodies.append((st, st.value.body, [a.arg for a in [
                st.value.args.vararg] if a]))
        if isinstance(st, ast.FunctionDef) and st.name == 'setlimit':
            rets = [r.value for r in ast.walk(st)
                    if isinstance(r, ast.Return) and r.value is not None]
            exprs = rets or [x.value for x in st.body
                             if isinstance(x, ast.Expr)]
            if len(exprs) == 1:
                bodies.append((st, exprs[0], [st.args.vararg.arg]
                               if st.args.vararg else []))
    pidp = params_of(lr)[1] if len(params_of(lr)) > 1 else 'pid'
    shapes = set()
    for (st, body, va) in bodies:
        v = va[0] if va else None
        t = unparse(body).replace(' ', '')
        facts = facts_at(lr, st if isinstance(st, ast.stmt) else st)
        if t == f'resource.prlimit({pidp},*{v})':
            shapes.add('prlimit' if (pidp, True) in facts_at(lr, body)
                       or (pidp, True) in _stmt_facts(lr, st) else 'prlimit?')
        elif t == f'resource.setrlimit(*{v})':
            shapes.add('setrlimit')
        else:
            shapes.add('other:' + t)
    ok = shapes == {'prlimit', 'setrlimit'}
    chk.check('C10.R4', lw, 'limit applied to the child (prlimit(pid) / '
              'setrlimit in the child)', ok, f'setlimit is {sorted(shapes)}',
              loc=m.loc(lr), nontrivial=True)
    # defaults
    g = m.func('do_golden_runs')
    gw = 'checker.do_golden_runs'
    found = {}
    for st in walk_no_nested(g):
        if isinstance(st, ast.Assign) and len(st.targets) == 1:
            o = opt_read(st.targets[0])
            if o in ('timeout', 'timeout_cc'):
                found.setdefault(o, []).append(st)
    for opt, gold in (('timeout', '__GOLDEN'), ('timeout_cc',
                                                '__GOLDEN_CC')):
        sts = found.get(opt, [])
        ok = len(sts) == 1
        msg = f'{len(sts)} assignments of the default for --{opt}'
        if ok:
            st = sts[0]
            v = st.value
            consts = sorted(c.value for c in ast.walk(v) if isinstance(
                c, ast.Constant) and isinstance(c.value, (int, float)))
            attrs = [unparse(a) for a in ast.walk(v) if isinstance(
                a, ast.Attribute) and a.attr == 'runtime']
            shape = False
            # (<gold>.runtime + 1) * 1.5   [optionally rounded]
            inner = v
            if isinstance(inner, ast.Call) and call_name(inner) in (
                    'round', 'math.ceil') and inner.args:
                inner = inner.args[0]
            if isinstance(inner, ast.BinOp) and isinstance(
                    inner.op, ast.Mult):
                a, b = inner.left, inner.right
                if is_const(a):
                    a, b = b, a
                if is_const(b) and b.value == 1.5 and isinstance(
                        a, ast.BinOp) and isinstance(a.op, ast.Add):
                    x, y = a.left, a.right
                    if is_const(x):
                        x, y = y, x
                    shape = is_const(y) and y.value == 1 and unparse(
                        x) == f'{gold}.runtime'
            facts = facts_at(g, st.value)
            guard = (f'options.args().{opt} is None', True) in facts
            foreign = [t for (t, p) in facts
                       if t.startswith('options.args().timeout')
                       and ' is None' in t
                       and t != f'options.args().{opt} is None']
            ok = shape and guard and not foreign
            msg = ''
            if not shape:
                msg += (f'default for --{opt} is "{unparse(v)}", documented '
                        f'({gold}.runtime + 1) * 1.5; ')
            if not guard:
                msg += f'not guarded by "{opt} is None"; '
            if foreign:
                msg += (f'additionally guarded by {foreign}: with the other '
                        f'limit given explicitly --{opt} stays None and the '
                        'corresponding command runs without any time limit')
        chk.check('C10.R4', gw, f'default of --{opt}', ok, msg, loc=m.loc(g),
                  nontrivial=True)
    # the default is in place before the first candidate check: assignments
    # happen inside do_golden_runs, which dominates the reductions (R5)


def rule_r5(chk, prog):
    chk.rule('C10.R5', 'match strings are validated against the golden run '
             '(exit status != 0 on failure) before any minimisation; the '
             'cross-check siblings likewise')
    m = prog.mod('checker')
    g = m.func('do_golden_runs')
    gw = 'checker.do_golden_runs'
    cfg = cfg_of(g)
    want = {
        'match_out': '__GOLDEN.out', 'match_err': '__GOLDEN.err',
        'match_out_cc': '__GOLDEN_CC.out', 'match_err_cc': '__GOLDEN_CC.err'
    }
    exits = [c for c in calls_in(g) if call_name(c) == 'sys.exit']
    raises = [r for r in ast.walk(g) if isinstance(r, ast.Raise)
              and r.exc is not None]

    def ev(e, val, opt, stream):
        """Truth value of a condition over the atoms A = "stream is None",
        B = "match in stream"; None if it mentions something else."""
        if isinstance(e, ast.UnaryOp) and isinstance(e.op, ast.Not):
            v = ev(e.operand, val, opt, stream)
            return None if v is None else (not v)
        if isinstance(e, ast.BoolOp):
            vs = [ev(x, val, opt, stream) for x in e.values]
            if any(v is None for v in vs):
                return None
            return all(vs) if isinstance(e.op, ast.And) else any(vs)
        if isinstance(e, ast.Compare) and len(e.ops) == 1:
            l, op, r = unparse(e.left), e.ops[0], unparse(e.comparators[0])
            if l == stream and r == 'None':
                if isinstance(op, ast.Is):
                    return val['A']
                if isinstance(op, ast.IsNot):
                    return not val['A']
            if l == f'options.args().{opt}' and r == stream:
                if isinstance(op, ast.In):
                    return val['B']
                if isinstance(op, ast.NotIn):
                    return not val['B']
        return None

    from ..shape import parse_expr
    for opt, stream in want.items():
        ok = False
        for site in [(c, c) for c in exits] + [(r, r.exc) for r in raises]:
            c, anchor = site
            if isinstance(c, ast.Call):
                code = c.args[0] if c.args else None
                nonzero = code is not None and is_const(code) and \
                    code.value not in (0, None, False)
                if not nonzero:
                    continue
            facts = facts_at(g, anchor)
            if (f'options.args().{opt}', True) not in facts:
                continue
            # the exit must be reached whenever the stream is missing or
            # lacks the match string: for every such valuation all facts
            # that speak about (stream, match) must hold
            rel = []
            for (t, pol) in facts:
                e = parse_expr(t)
                if e is None:
                    continue
                if ev(e, {'A': False, 'B': False}, opt, stream) is not None:
                    rel.append((e, pol))
            if not rel:
                continue
            good = True
            for A in (True, False):
                for B in (True, False):
                    should_exit = A or not B
                    if A and B:
                        continue  # a None stream contains nothing
                    reached = all(ev(e, {'A': A, 'B': B}, opt, stream) == pol
                                  for (e, pol) in rel)
                    if should_exit and not reached:
                        good = False
            if good:
                ok = True
        msg = (f'--{opt.replace("_", "-")} is never checked against '
               f'{stream}: a golden run whose output lacks the string does '
               'not stop ddSMT with status 1; every candidate is then '
               'rejected (or, worse, minimisation proceeds against a '
               'criterion the original input does not meet)')
        chk.check('C10.R5', gw, f'validation of {opt} against {stream}', ok,
                  msg, loc=m.loc(g), nontrivial=True,
                  argument='the exit is reached for every valuation of '
                  '(stream is None, match in stream) in which the stream '
                  'is missing or lacks the match')
    # ordering in ddsmt_main
    cli = prog.mod('cli')
    mainf = cli.func('ddsmt_main')
    mcfg = cfg_of(mainf)
    marks = {}
    for c in calls_in(mainf):
        nm = call_name(c)
        if nm in ('checker.do_golden_runs', 'strategy_ddmin.reduce',
                  'strategy_hierarchical.reduce'):
            marks[expr_owner_node(mcfg, c)] = nm
    IN, _ = mcfg.dominators_facts(marks)
    nred = 0
    for n, nm in marks.items():
        if nm.endswith('.reduce'):
            nred += 1
            chk.check('C10.R5', 'cli.ddsmt_main', nm,
                      'checker.do_golden_runs' in (IN[n] or ()),
                      f'{nm} is not dominated by do_golden_runs()',
                      loc=cli.loc(n.ast), nontrivial=True)
    chk.floor('C10.R5', 'reduce calls in ddsmt_main', nred, 2)


def run(tier):
    prog = Program()
    chk = Check(
        PROP, 'other', tier,
        clauses_decided=[
            'every wait on the child is bounded by the time limit',
            'kill on expiry on every handler path; handler returns',
            'expired runs are distinguishable from finished ones; streams '
            'that may be None are not searched',
            'limits applied on both spawn paths, derived as documented, '
            'defaults assigned exactly when the option is None',
            'match strings validated before minimisation',
        ],
        clauses_not_decided=[
            'delivery of SIGKILL/SIGXCPU, RLIMIT_AS accounting, '
            'grandchildren holding the pipes (kernel behaviour)',
            'the wall-time bound as a number',
        ])
    chk.guard(rule_r1_r2_r3, chk, prog)
    chk.guard(rule_nullness, chk, prog)
    chk.guard(rule_r4, chk, prog)
    chk.guard(rule_r5, chk, prog)
    extra = None
    if tier == 'thorough':
        from .. import selftest
        extra = selftest.run_for(PROP)
    return chk.finish(extra)
