"""E4 (part): folding of the option declarations and of the mutator registry.

Constant propagation over a closed expression language (dict/list/tuple/str
literals, dict(...) with keywords); anything else => AnalysisError.
"""
import ast

from ..astutil import call_name, walk_no_nested, kw, dotted
from ..loader import AnalysisError, unparse

_cache = {}


def _lit(e):
    if e is None:
        return None
    if isinstance(e, ast.Constant):
        return e.value
    if isinstance(e, (ast.List, ast.Tuple)):
        return [_lit(x) for x in e.elts]
    d = dotted(e)
    if d is not None:
        return d
    return unparse(e)


def dest_of(option_strings, dest_kw):
    if dest_kw is not None:
        return dest_kw
    longs = [o for o in option_strings if o.startswith('--')]
    if longs:
        return longs[0][2:].replace('-', '_')
    shorts = [o for o in option_strings if o.startswith('-')]
    if shorts:
        return shorts[0][1:].replace('-', '_')
    if option_strings:
        return option_strings[0].replace('-', '_')
    return None


def _declarations(prog):
    """All add_argument(...) calls that build the parser."""
    decls = []
    # every function of the option-building modules may contribute (the
    # parser construction is sometimes split into helpers)
    sites = []
    for modname in ('options', 'mutators'):
        m_ = prog.mod(modname)
        for q in m_.funcs:
            if '<locals>' not in q:
                sites.append((modname, q))
    for m in prog.pkg_modules():
        if m.name.startswith('mutators_') and 'get_mutator_options' in m.funcs:
            sites.append((m.name, 'get_mutator_options'))
    prog.mod('options').func('parse_options')
    for modname, fname in sites:
        m = prog.mod(modname)
        f = m.func(fname)
        for c in walk_no_nested(f):
            if isinstance(c, ast.Call) and isinstance(
                    c.func, ast.Attribute) and c.func.attr == 'add_argument':
                strs = []
                for a in c.args:
                    if isinstance(a, ast.Constant) and isinstance(
                            a.value, str):
                        strs.append(a.value)
                    else:
                        raise AnalysisError(
                            f'{m.loc(c)}: add_argument with a non-literal '
                            f'option string {unparse(a)}')
                dkw = kw(c, 'dest')
                if dkw is not None and not isinstance(dkw, ast.Constant):
                    raise AnalysisError(
                        f'{m.loc(c)}: add_argument with computed dest')
                act = kw(c, 'action')
                decls.append({
                    'options': strs,
                    'dest': dest_of(strs, dkw.value if dkw else None),
                    'action': _lit(act),
                    'type': _lit(kw(c, 'type')),
                    'default': _lit(kw(c, 'default')),
                    'has_default': kw(c, 'default') is not None,
                    'nargs': _lit(kw(c, 'nargs')),
                    'choices': _lit(kw(c, 'choices')),
                    'loc': m.loc(c),
                })
    return decls


def declarations(prog):
    k = ('decl', id(prog))
    if k not in _cache:
        _cache[k] = _declarations(prog)
    return _cache[k]


def option_table(prog):
    """dest -> declaration (first one wins; duplicates are C14's business)"""
    table = {}
    for d in declarations(prog):
        if d['dest'] is not None and d['dest'] not in table:
            table[d['dest']] = d
    return table


def fold_str_dict(e, what):
    """dict literal / dict(k='v') with string keys and values."""
    if isinstance(e, ast.Dict):
        res = {}
        for k, v in zip(e.keys, e.values):
            if not (isinstance(k, ast.Constant) and isinstance(k.value, str)
                    and isinstance(v, ast.Constant)
                    and isinstance(v.value, str)):
                raise AnalysisError(
                    f'{what}: registry entry {unparse(k)}: {unparse(v)} is '
                    'not a pair of string literals')
            if k.value in res:
                raise AnalysisError(
                    f'{what}: duplicate registry key {k.value!r}')
            res[k.value] = v.value
        return res
    if isinstance(e, ast.Call) and call_name(e) == 'dict' and not e.args:
        res = {}
        for k in e.keywords:
            if k.arg is None or not (isinstance(k.value, ast.Constant)
                                     and isinstance(k.value.value, str)):
                raise AnalysisError(f'{what}: dict(...) with non-literal')
            res[k.arg] = k.value.value
        return res
    raise AnalysisError(
        f'{what}: registry is not a dict literal ({unparse(e)[:60]})')


def module_registry(m):
    """Fold <module>.get_mutators() -> {class name: option string}."""
    f = m.func('get_mutators')
    rets = [n for n in walk_no_nested(f) if isinstance(n, ast.Return)]
    if len(rets) != 1:
        raise AnalysisError(
            f'{m.rel()}: get_mutators() has {len(rets)} return statements; '
            'the folder handles exactly one dict literal')
    stmts = [s for s in f.body if not (isinstance(s, ast.Expr) and isinstance(
        s.value, ast.Constant))]
    if len(stmts) != 1:
        raise AnalysisError(
            f'{m.rel()}: get_mutators() does more than return a literal')
    v = rets[0].value
    if isinstance(v, ast.Name) and len(m.globals.get(v.id, [])) == 1 and \
            isinstance(m.globals[v.id][0], ast.Dict):
        # one dict object built at import time and handed out to every
        # caller (C14.R9 then demands that nobody modifies it)
        SHARED_REGISTRIES.add(m.name)
        v = m.globals[v.id][0]
    return fold_str_dict(v, f'{m.rel()}:get_mutators')


# modules whose get_mutators() returns a shared module-level dict
SHARED_REGISTRIES = set()


def registry(prog):
    """group -> (module name, {class: option})  folded from
    mutators.get_all_mutators()."""
    k = ('reg', id(prog))
    if k in _cache:
        return _cache[k]
    m = prog.mod('mutators')
    f = m.func('get_all_mutators')
    rets = [n for n in walk_no_nested(f) if isinstance(n, ast.Return)]
    if len(rets) != 1 or not isinstance(rets[0].value, ast.Dict):
        raise AnalysisError('mutators.get_all_mutators() is not a single '
                            'dict literal')
    res = {}
    for kx, v in zip(rets[0].value.keys, rets[0].value.values):
        if not (isinstance(kx, ast.Constant) and isinstance(kx.value, str)):
            raise AnalysisError('get_all_mutators: non-literal group name')
        if not (isinstance(v, ast.Tuple) and len(v.elts) == 2
                and isinstance(v.elts[0], ast.Name)
                and isinstance(v.elts[1], ast.Call)
                and call_name(v.elts[1]) == f'{v.elts[0].id}.get_mutators'):
            raise AnalysisError(
                f'get_all_mutators: entry {kx.value!r} is not '
                '(module, module.get_mutators())')
        r = prog.resolve_name(m, v.elts[0].id)
        if not r or r[0] != 'module':
            raise AnalysisError(
                f'get_all_mutators: {v.elts[0].id} is not a module of the '
                'package')
        if kx.value in res:
            raise AnalysisError(f'duplicate group {kx.value!r}')
        res[kx.value] = (r[1].name, module_registry(r[1]))
    _cache[k] = res
    return res
