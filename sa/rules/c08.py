"""C08 - the reader tokenises SMT-LIB text as the standard prescribes.

The scanner nodeio.parse_smtlib is a hand-written automaton.  Its decision
table (state x character class -> action) is *extracted* from the CFG by
partially evaluating the character tests for a representative of each class,
and compared cell by cell with the SMT-LIB 2.6 lexicon (section 3.1).
"""
import ast

from ..astutil import call_name, walk_no_nested, is_const, kw, opt_read
from ..cfg import cfg_of
from ..loader import Program, AnalysisError, unparse
from ..report import Check
from ..scanner_norm import normalised_scanner

PROP = 'C08'

CLASSES = {
    'SP': ' ', 'TAB': '\t', 'LF': '\n', 'CR': '\r', 'LP': '(', 'RP': ')',
    'SEMI': ';', 'DQ': '"', 'BAR': '|', 'BSL': '\\', 'OTHER': 'a',
    'DIGIT': '0', 'HASH': '#', 'COLON': ':', 'MINUS': '-', 'DOT': '.',
}
WS = ('SP', 'TAB', 'LF', 'CR')
# look-ahead characters tried in every inner cell (None: the character
# itself, for tests of the form text[pos] == char / first_char)
LOOKAHEADS = (('la=DQ', '"'), ('la=BAR', '|'), ('la=x', 'x'),
              ('la=same', None), ('la=SEMI', ';'), ('la=LF', '\n'),
              ('la=LP', '('), ('la=RP', ')'), ('la=SP', ' '))


def char_set_const(m, e, depth=0):
    """Set of characters denoted by a constant expression (string, tuple /
    list / set of characters, frozenset(...), unions and concatenations,
    string.ascii_letters etc., module-level names); None if it is not one."""
    import string as _string
    if depth > 6 or e is None:
        return None
    if isinstance(e, ast.Constant) and isinstance(e.value, str):
        return set(e.value)
    if isinstance(e, (ast.Tuple, ast.List, ast.Set)):
        out = set()
        for x in e.elts:
            if not (isinstance(x, ast.Constant) and isinstance(x.value, str)
                    and len(x.value) == 1):
                return None
            out.add(x.value)
        return out
    if isinstance(e, ast.Call) and call_name(e) in (
            'frozenset', 'set', 'tuple', 'list', 'sorted') and len(
                e.args) == 1:
        return char_set_const(m, e.args[0], depth + 1)
    if isinstance(e, ast.BinOp) and isinstance(e.op, (ast.Add, ast.BitOr)):
        a = char_set_const(m, e.left, depth + 1)
        b = char_set_const(m, e.right, depth + 1)
        return None if a is None or b is None else a | b
    if isinstance(e, ast.BinOp) and isinstance(e.op, ast.Sub):
        a = char_set_const(m, e.left, depth + 1)
        b = char_set_const(m, e.right, depth + 1)
        return None if a is None or b is None else a - b
    if isinstance(e, ast.Attribute) and isinstance(
            e.value, ast.Name) and e.value.id == 'string' and hasattr(
                _string, e.attr) and isinstance(
                    getattr(_string, e.attr), str):
        return set(getattr(_string, e.attr))
    if isinstance(e, ast.Name) and len(m.globals.get(e.id, [])) == 1:
        return char_set_const(m, m.globals[e.id][0], depth + 1)
    return None


def lexclass(ch):
    """SMT-LIB 2.6 lexical class of a character, as a named class."""
    for k, v in CLASSES.items():
        if v == ch:
            return k
    if ch in ' \t\n\r':
        return {' ': 'SP', '\t': 'TAB', '\n': 'LF', '\r': 'CR'}[ch]
    if ch.isdigit():
        return 'DIGIT'
    return 'OTHER'


class Explorer:
    """Walks the CFG from a read point ``char = text[pos]`` for one concrete
    character, forking on tests that do not depend on the character."""

    def __init__(self, cfg, mod):
        self.cfg = cfg
        self.mod = mod
        self.reads = [n for n in cfg.nodes if self.is_read(n)]

    @staticmethod
    def is_read(n):
        a = n.ast
        return n.kind == 'stmt' and isinstance(a, ast.Assign) and len(
            a.targets) == 1 and isinstance(a.targets[0], ast.Name) and \
            a.targets[0].id == 'char' and unparse(a.value) == 'text[pos]'

    def ev_test(self, e, env):
        """True/False/('fork', label) for a test expression."""
        if isinstance(e, ast.Constant):
            return bool(e.value)
        if isinstance(e, ast.UnaryOp) and isinstance(e.op, ast.Not):
            v = self.ev_test(e.operand, env)
            if isinstance(v, tuple):
                neg = v[2] if len(v) > 2 else False
                return ('fork', v[1], not neg)
            return not v
        if isinstance(e, ast.BoolOp):
            vals = [self.ev_test(v, env) for v in e.values]
            if isinstance(e.op, ast.And):
                if any(v is False for v in vals):
                    return False
                forks = [v for v in vals if isinstance(v, tuple)]
                if not forks:
                    return True
                if len(forks) == 1:
                    return forks[0]
                return ('fork', ' and '.join(f[1] for f in forks))
            else:
                if any(v is True for v in vals):
                    return True
                forks = [v for v in vals if isinstance(v, tuple)]
                if not forks:
                    return False
                if len(forks) == 1:
                    return forks[0]
                return ('fork', ' or '.join(f[1] for f in forks))
        if isinstance(e, ast.Compare) and len(e.ops) == 1:
            l, op, r = e.left, e.ops[0], e.comparators[0]
            lt, rt = unparse(l), unparse(r)

            def val(x):
                if isinstance(x, ast.Constant) and isinstance(x.value, str):
                    return x.value
                if isinstance(x, ast.Name) and x.id in env and \
                        env[x.id] is not None:
                    return env[x.id]
                if unparse(x) == 'text[pos]':
                    # the character under the cursor: the look-ahead after
                    # the read was consumed, the character itself after it
                    # was put back
                    off = env.get('__off__', 1)
                    if off == 1:
                        return env.get('__la__')
                    if off == 0:
                        return env.get('char')
                    return None
                if isinstance(x, ast.Name) and x.id in self.consts:
                    return self.consts[x.id]
                return None

            if isinstance(op, (ast.Eq, ast.NotEq)):
                a, b = val(l), val(r)
                if a is not None and b is not None and isinstance(
                        a, str) and isinstance(b, str):
                    res = a == b
                    return res if isinstance(op, ast.Eq) else not res
            if isinstance(op, (ast.In, ast.NotIn)):
                a = val(l)
                coll = None
                if isinstance(r, (ast.Tuple, ast.List, ast.Set)) and all(
                        isinstance(x, ast.Constant) for x in r.elts):
                    coll = [x.value for x in r.elts]
                elif isinstance(r, ast.Constant) and isinstance(r.value, str):
                    coll = list(r.value)
                elif isinstance(r, ast.Name) and r.id in self.consts:
                    coll = list(self.consts[r.id])
                if a is not None and coll is not None:
                    res = a in coll
                    return res if isinstance(op, ast.In) else not res
            txt = unparse(e)
            if {lt, rt} == {'pos', 'size'}:
                # canonical question: "pos < size" (more input available)
                more = {('pos', ast.Lt): False, ('pos', ast.GtE): True,
                        ('size', ast.Gt): False, ('size', ast.LtE): True}
                k = (lt, type(op))
                if k in more:
                    return ('fork', 'pos < size', more[k])
            if {lt, rt} == {'cur_expr', 'None'} and env.get(
                    '__cur__') is not None and isinstance(
                        op, (ast.Is, ast.IsNot, ast.Eq, ast.NotEq)):
                # the open list was just set on this path
                isnone = env['__cur__'] == 'none'
                return isnone if isinstance(op, (ast.Is, ast.Eq)) \
                    else not isnone
            if any(k in txt for k in ('pos', 'size', 'cur_expr', 'exprs')) \
                    and 'char' not in txt:
                if isinstance(op, (ast.IsNot, ast.NotEq)):
                    pos_txt = txt.replace(' is not ', ' is ').replace(
                        ' != ', ' == ')
                    return ('fork', pos_txt, True)
                return ('fork', txt, False)
        if isinstance(e, ast.Name) and e.id in ('cur_expr', 'exprs'):
            return ('fork', e.id, False)
        if isinstance(e, ast.Call) and isinstance(
                e.func, ast.Attribute) and e.func.attr == 'startswith' and \
                isinstance(e.func.value, ast.Name) and \
                e.func.value.id == 'text' and len(e.args) == 2 and unparse(
                    e.args[1]) == 'pos' and env.get('__la__') is not None:
            # text.startswith(C, pos): the next character is C (false at
            # the end of the text, which rule R3 judges)
            cs = None
            if isinstance(e.args[0], ast.Constant) and isinstance(
                    e.args[0].value, str) and len(e.args[0].value) == 1:
                cs = {e.args[0].value}
            elif isinstance(e.args[0], ast.Tuple):
                cs = {x.value for x in e.args[0].elts
                      if isinstance(x, ast.Constant)}
            if cs is not None:
                return env['__la__'] in cs
        if isinstance(e, ast.Call) and isinstance(
                e.func, ast.Attribute) and isinstance(
                    e.func.value, ast.Name) and e.func.value.id == 'char' \
                and env.get('char') is not None and not e.args:
            meth = e.func.attr
            if meth in ('isspace', 'isdigit', 'isalpha', 'isalnum',
                        'isprintable'):
                return getattr(env['char'], meth)()
        raise AnalysisError(
            f'parse_smtlib: test "{unparse(e)}" at {self.mod.loc(e)} is '
            'outside the modelled scanner idioms (char ==/in constants, '
            'first_char, look-ahead text[pos], EOF and depth tests)')

    def explore(self, start, char, first_char, la):
        """All paths from read point ``start`` (having just read ``char``)
        to the next read point / return.  Returns list of dicts."""
        out = []
        env0 = {'char': char, 'first_char': first_char, '__la__': la,
                '__off__': 0}

        def step(n, env, events, decisions, seen):
            # n: node to execute next
            while True:
                if n is self.cfg.exit or n is self.cfg.raise_exit:
                    out.append({'end': 'exit', 'events': [
                        x for x in events if not x.startswith('?')],
                                'decisions': decisions})
                    return
                if (self.is_read(n) and n is not start) or (
                        n is start and events):
                    out.append({'end': n, 'events': [
                        x for x in events if not x.startswith('?')],
                                'decisions': decisions})
                    return
                if n in seen and n.kind != 'test':
                    raise AnalysisError(
                        'parse_smtlib: cycle without a character read at '
                        f'{self.mod.loc(n.ast)}')
                seen = seen | {n}
                a = n.ast
                if n.kind == 'test':
                    v = self.ev_test(a.test, env)
                    if isinstance(v, tuple):
                        label = v[1]
                        neg = v[2] if len(v) > 2 else False
                        known = None
                        if label == 'pos < size' and env.get(
                                '__off__', 1) <= 0:
                            # the cursor is on the character just read
                            known = True
                        elif 'pos' in label:
                            # same EOF question while the cursor did not
                            # move has the same answer
                            for k in range(len(events) - 1, -1, -1):
                                if events[k].replace(' ', '') in (
                                        'pos+=1', 'pos-=1'):
                                    break
                                if events[k].startswith('?' + label + '='):
                                    known = events[k].endswith('=True')
                                    break
                        for e in n.succ:
                            if e.kind not in ('true', 'false'):
                                continue
                            answer = (e.kind == 'true') != neg
                            if known is not None and answer != known:
                                continue
                            step(e.dst, dict(env),
                                 events + [f'?{label}={answer}'],
                                 decisions + [(label, answer)], seen)
                        return
                    nxt = [e for e in n.succ
                           if e.kind == ('true' if v else 'false')]
                    if not nxt:
                        # while True has no false edge
                        raise AnalysisError('parse_smtlib: dead branch')
                    n = nxt[0].dst
                    continue
                if n.kind == 'stmt':
                    if isinstance(a, ast.Return):
                        out.append({'end': 'return', 'events': [
                            x for x in events if not x.startswith('?')],
                                    'decisions': decisions})
                        return
                    if isinstance(a, (ast.Break, ast.Continue, ast.Pass)):
                        pass
                    elif n is start:
                        events = events + ['<read>']
                    else:
                        t = unparse(a)
                        events = events + [t]
                        if t.replace(' ', '') in ('pos+=1', 'pos-=1'):
                            env = dict(env)
                            env['__off__'] = env.get('__off__', 0) + (
                                1 if '+' in t else -1)
                        if isinstance(a, ast.Assign) and isinstance(
                                a.targets[0], ast.Name):
                            nm = a.targets[0].id
                            if nm == 'first_char' and unparse(
                                    a.value) == 'char':
                                env = dict(env)
                                env['first_char'] = env['char']
                            elif nm == 'cur_expr':
                                env = dict(env)
                                v_ = a.value
                                if isinstance(v_, ast.Constant) and \
                                        v_.value is None:
                                    env['__cur__'] = 'none'
                                elif isinstance(v_, ast.List) or unparse(
                                        v_) in ('exprs[-1]', 'exprs.pop()'):
                                    # elements of the stack are lists
                                    env['__cur__'] = 'list'
                                else:
                                    env['__cur__'] = None
                            elif nm == 'char':
                                raise AnalysisError(
                                    'parse_smtlib: char assigned from '
                                    f'"{unparse(a.value)}"')
                nxt = [e for e in n.succ if e.kind != 'exc']
                if len(nxt) != 1:
                    raise AnalysisError(
                        f'parse_smtlib: node {n} has {len(nxt)} successors')
                n = nxt[0].dst

        step(start, env0, [], [], frozenset())
        return out


def _classify(path, bufname):
    ev = path['events']
    appended = sum(1 for e in ev if e.endswith('.append(char)'))
    extra = sum(1 for e in ev if '.append(text[pos])' in e)
    consumed = sum(1 for e in ev if e.replace(' ', '') == 'pos+=1')
    dec = sum(1 for e in ev if e.replace(' ', '') == 'pos-=1')
    # the character is left for whoever reads next iff the cursor has not
    # moved past it: consumed and put back, or only peeked at
    pushback = consumed - dec <= 0
    emits = [e for e in ev if 'Node(' in e or e.startswith('yield ')
             or '= Node(' in e]
    return appended, extra, pushback, consumed, emits


def extract_table(chk, prog):
    m = prog.mod('nodeio')
    # normal form: canonical names, span idioms (index scan / str.find with
    # slices) rewritten to character loops; their bounds are judged there
    f, verdicts, notes = normalised_scanner(m)
    chk.rule('C08.R6', 'scans written with slices (index scan, str.find) '
             'delimit the same lexeme and resume at the same position as '
             'the character loop they abbreviate')
    for v in verdicts:
        chk.check('C08.R6', 'nodeio.parse_smtlib', v.what, v.ok, v.msg,
                  loc=m.loc(v.node), nontrivial=True)
    for nt in notes:
        chk.info('C08.R6', nt)
    cfg = cfg_of(f)
    ex = Explorer(cfg, m)
    # module-level constant tuples/sets of characters (neutral refactoring)
    ex.consts = {}
    for name, vals in m.globals.items():
        if len(vals) == 1:
            v = char_set_const(m, vals[0])
            if v is not None:
                ex.consts[name] = v
    # character classes induced by the scanner's own tests: one
    # representative per cell of the partition that all character sets and
    # constants appearing in its tests make of the printable characters
    sets_ = []
    for x in ast.walk(f):
        if isinstance(x, ast.Compare) and len(x.ops) == 1:
            for side in (x.left, x.comparators[0]):
                cs = char_set_const(m, side)
                if cs:
                    sets_.append(frozenset(cs))
    universe = [chr(i) for i in range(32, 127)] + ['\t', '\n', '\r',
                                                   '\x0b', '\xe9']
    cells = {}
    for ch in universe:
        key = tuple(ch in s_ for s_ in sets_) + (lexclass(ch), )
        cells.setdefault(key, ch)
    have = set(CLASSES.values())
    for key, ch in sorted(cells.items(), key=lambda kv: kv[1]):
        if ch not in have and not any(
                tuple(c2 in s_ for s_ in sets_) + (lexclass(c2), ) == key
                for c2 in have):
            CLASSES[f'C{ord(ch)}'] = ch
            have.add(ch)
    if len(ex.reads) < 3:
        raise AnalysisError(
            f'parse_smtlib: only {len(ex.reads)} character read points '
            '"char = text[pos]" found; the scanner no longer has the '
            'character-loop form this extraction models')
    # the TOP read point: the one not nested in an inner while
    def depth(n):
        d = 0
        p = getattr(n.ast, '_parent', None)
        while p is not None and p is not f:
            if isinstance(p, ast.While):
                d += 1
            p = getattr(p, '_parent', None)
        return d

    tops = [r for r in ex.reads if depth(r) == 1]
    if len(tops) != 1:
        raise AnalysisError('parse_smtlib: TOP read point not unique')
    top = tops[0]
    # identify inner states by the TOP transition that enters them
    table = {}
    entry = {}
    for cname, ch in CLASSES.items():
        paths = ex.explore(top, ch, None, None)
        table[('TOP', cname)] = paths
        for p in paths:
            if p['end'] not in ('exit', 'return') and p['end'] is not top:
                entry.setdefault(p['end'], set()).add(cname)
    states = {}
    for node, classes in entry.items():
        if 'DQ' in classes or 'BAR' in classes:
            states['LITERAL'] = node
        elif 'SEMI' in classes:
            states['COMMENT'] = node
        elif 'OTHER' in classes:
            states['TOKEN'] = node
    for need in ('LITERAL', 'COMMENT', 'TOKEN'):
        if need not in states:
            raise AnalysisError(
                f'parse_smtlib: no inner scanning loop for {need} found')
    for sname, node in states.items():
        variants = [('STRING', '"'), ('QUOTED', '|')] if sname == 'LITERAL' \
            else [(sname, None)]
        for vname, fc in variants:
            for cname, ch in CLASSES.items():
                for la_name, la in LOOKAHEADS:
                    la = ch if la is None else la
                    paths = ex.explore(node, ch, fc, la)
                    table[(vname, cname, la_name)] = paths
    return m, f, cfg, ex, top, states, table


_ws_cache = {}


def reader_whitespace(prog):
    """Characters (of the representative classes) the reader skips at top
    level, read off its decision table; if the table cannot be extracted the
    standard set is assumed (C08 itself reports the extraction problem)."""
    k = id(prog)
    if k in _ws_cache:
        return _ws_cache[k]
    ws = set()
    try:
        sub = Check('C08', 'other', 'quick', [], [])
        m, f, cfg, ex, top, states, table = extract_table(sub, prog)
        for cname, ch in CLASSES.items():
            skips = True
            for p in table[('TOP', cname)]:
                if any(d[0] == 'pos < size' and d[1] is False
                       for d in p['decisions']):
                    continue
                ev = [e for e in p['events'] if e != '<read>'
                      and e.replace(' ', '') != 'pos+=1']
                if ev or p['end'] is not top:
                    skips = False
            if skips:
                ws.add(ch)
    except AnalysisError:
        ws = {' ', '\t', '\n', '\r'}
    _ws_cache[k] = ws
    return ws


def rule_r1(chk, m, f, top, states, table):
    chk.rule('C08.R1', 'scanner decision table == SMT-LIB 2.6 lexicon '
             '(white space SP/TAB/LF/CR; ( ) ; terminate a token; "" inside '
             'a string continues it; | ends a quoted symbol; LF ends a '
             'comment)')
    where = 'nodeio.parse_smtlib'
    loc = m.loc(f)
    ncell = 0

    def ends_at(p):
        return p['end']

    # ---- TOP
    for cname in CLASSES:
        paths = table[('TOP', cname)]
        ncell += 1
        kinds = set()
        for p in paths:
            if any(d[0] == 'pos < size' and d[1] is False
                   for d in p['decisions']):
                continue  # end of input after this character (rule R3)
            if cname == 'RP' and any(d[0].strip() == 'exprs'
                                     and d[1] is False
                                     for d in p['decisions']):
                # unmatched ")": outside the property's quantifier
                # (balanced parentheses); not crashing here is C04's rule
                continue
            if p['end'] is top or p['end'] in ('exit', 'return'):
                ev = ' ; '.join(p['events'])
                if 'cur_expr = []' in ev or 'exprs.append(' in ev:
                    kinds.add('open')
                elif 'exprs.pop()' in ev:
                    kinds.add('close')
                elif len([e for e in p['events'] if e != '<read>'
                          and e.replace(' ', '') != 'pos+=1']) == 0:
                    kinds.add('skip')
                else:
                    kinds.add('other:' + ev[:40])
            else:
                for s, n in states.items():
                    if p['end'] is n:
                        kinds.add('start:' + s)
        cname0 = cname
        cname = lexclass(CLASSES[cname])
        if cname in WS:
            want = {'skip'}
        elif cname == 'LP':
            want = {'open'}
        elif cname == 'RP':
            want = {'close'}
        elif cname == 'SEMI':
            want = {'start:COMMENT'}
        elif cname in ('DQ', 'BAR'):
            want = {'start:LITERAL'}
        else:
            want = {'start:TOKEN'}
        ok = kinds == want
        msg = (f'at top level, class {cname0} ({CLASSES[cname0]!r}) leads '
               f'to {sorted(kinds)}, the standard prescribes {sorted(want)}')
        if cname == 'CR' and not ok:
            msg += (' - carriage return is white space in SMT-LIB: '
                    '"(a\\r\\nb)" yields the leaf "a\\r"')
        chk.check('C08.R1', where, f'TOP x {cname0} -> {sorted(kinds)}', ok,
                  msg, loc=loc, nontrivial=True)
    # ---- inner states
    def cell(state, cname, la):
        paths = table[(state, cname, la)]
        res = set()
        for p in paths:
            eof = [d for d in p['decisions'] if d[0] == 'pos < size']
            appended, extra, pushback, consumed, emits = _classify(p, None)
            cont = p['end'] is states.get(
                'LITERAL' if state in ('STRING', 'QUOTED') else state)
            # a path that hits EOF right after this char is judged by R3
            at_eof = any(d[1] is False for d in eof)
            if at_eof and not cont:
                # still classify what happened to the character itself
                pass
            kind = []
            kind.append('append' if appended else 'drop')
            if extra:
                kind.append('+lookahead')
            if pushback:
                kind.append('pushback')
            kind.append('continue' if cont else 'end')
            res.add((' '.join(kind), at_eof))
        return res

    def expect(state, cname, la):
        cname = lexclass(CLASSES[cname])
        if state == 'TOKEN':
            if cname in WS:
                # consumed here, or left for the top level which skips it
                # (TOP x WS = skip is an armed cell of its own)
                return [{'drop end'}, {'drop pushback end'}]
            if cname in ('LP', 'RP', 'SEMI'):
                return {'drop pushback end'}
            if cname in ('DQ', 'BAR'):
                return None  # informational
            return {'append continue'}
        if state == 'STRING':
            if cname == 'DQ':
                return {'append +lookahead continue'} if la in (
                    'la=DQ', 'la=same') else {'append end'}
            return {'append continue'}
        if state == 'QUOTED':
            if cname == 'BAR':
                return {'append end'}
            return {'append continue'}
        if state == 'COMMENT':
            if cname == 'LF':
                return {'append end'}
            if cname == 'CR':
                return None
            return {'append continue'}

    for state in ('TOKEN', 'STRING', 'QUOTED', 'COMMENT'):
        for cname in CLASSES:
            for la, _ in LOOKAHEADS:
                got_all = cell(state, cname, la)
                # judge the not-at-EOF behaviour; (EOF is rule R3)
                got = {k for (k, at_eof) in got_all if not at_eof}
                if not got:
                    got = {k for (k, at_eof) in got_all}
                want = expect(state, cname, la)
                ncell += 1
                if want is None:
                    chk.info('C08.R1', f'{state} x {cname}: {sorted(got)} '
                             '(informational cell: the property separates '
                             'lexemes)')
                    continue
                # a string's closing quote at EOF cannot look ahead
                if isinstance(want, list):
                    ok = got in want
                    want = want[0]
                else:
                    ok = got == want
                msg = (f'in state {state}, class {cname} '
                       f'({CLASSES[cname]!r}, {la}) is handled as '
                       f'{sorted(got)}; the standard prescribes '
                       f'{sorted(want)}')
                chk.check('C08.R1', where,
                          f'{state} x {cname} [{la}] -> {sorted(got)}', ok,
                          msg, loc=loc, nontrivial=True)
    chk.extra['C08.R1_cells'] = ncell
    chk.extra['exhaustive'] = True


def rule_r2(chk, m, f, cfg, top, states, table):
    chk.rule('C08.R2', 'the four lexeme kinds are emitted the same way: '
             'appended to the open list if there is one (is not None), '
             'yielded otherwise')
    where = 'nodeio.parse_smtlib'
    seen = {}
    for key, paths in table.items():
        state = key[0]
        for p in paths:
            ev = p['events']
            emits = [e for e in ev
                     if e.startswith('cur_expr.append(')
                     or e.startswith('yield ')
                     or e.startswith('exprs[-1].append(')]
            if not emits:
                continue
            kind = state if state != 'TOP' else ('CLOSE' if any(
                'exprs.pop()' in e for e in ev) else 'TOP')
            if kind == 'TOP':
                continue
            for e in emits:
                dec = [d for d in p['decisions'] if 'cur_expr' in d[0]
                       or d[0].strip() == 'exprs' or d[0] == 'not exprs']
                sig = (kind, e.split('(')[0], tuple(dec))
                seen.setdefault(kind, set()).add(sig)
    kinds = {'STRING': 'string literal', 'QUOTED': 'quoted symbol',
             'COMMENT': 'comment', 'TOKEN': 'token'}
    for kind, label in kinds.items():
        sigs = seen.get(kind, set())
        chk.floor('C08.R2', f'emission paths of {label}', len(sigs), 1)
        ok = True
        why = []
        for (k, how, dec) in sigs:
            tests = [d for d in dec if 'cur_expr' in d[0]]
            if not tests:
                ok = False
                why.append(f'{how} without any test whether a list is open '
                           '(a lexeme at top level is appended to None)')
                continue
            t, val = tests[-1]
            if t.strip() in ('cur_expr', ):
                ok = False
                why.append('open-list test uses truthiness "if cur_expr": '
                           'an empty open list counts as closed, so a '
                           f'{label} right after "(" is yielded before its '
                           'enclosing expression')
                continue
            is_open = None
            if t.strip() == 'cur_expr is None':
                is_open = not val
            if is_open is None:
                ok = False
                why.append(f'unrecognised open-list test {t}')
                continue
            if is_open and not how.startswith('cur_expr.append'):
                ok = False
                why.append(f'with an open list the {label} is not appended '
                           f'({how})')
            if not is_open and not how.startswith('yield'):
                ok = False
                why.append(f'at top level the {label} is not yielded '
                           f'({how})')
        chk.check('C08.R2', where, f'emission of {label}', ok,
                  '; '.join(sorted(set(why))), loc=m.loc(f), nontrivial=True)


def rule_r3(chk, m, f, cfg, top, states, table):
    chk.rule('C08.R3', 'no lexeme is dropped at end of input: a token or '
             'comment being scanned when the text ends is emitted')
    where = 'nodeio.parse_smtlib'
    for state in ('TOKEN', 'COMMENT'):
        bad = False
        n = 0
        for key, paths in table.items():
            if key[0] != state:
                continue
            for p in paths:
                eof = any(d[0] == 'pos < size' and d[1] is False
                          for d in p['decisions'])
                if not eof:
                    continue
                if p['end'] not in ('return', 'exit'):
                    continue
                # only paths on which the buffer is still open (the char
                # just read continued the lexeme)
                if not any(e.endswith('.append(char)') for e in p['events']):
                    continue
                n += 1
                ev = p['events']
                emitted = any('Node(' in e or e.startswith('yield ')
                              for e in ev)
                if not emitted:
                    bad = True
        chk.floor('C08.R3', f'end-of-input paths in state {state}', n, 1)
        chk.check('C08.R3', where, f'{state}: buffer emitted at end of '
                  'input', not bad,
                  f'a {state.lower()} that ends the text is silently '
                  'dropped (the function returns while the buffer is open): '
                  '"(a b)\\nfoo" is read as "(a b)"', loc=m.loc(f),
                  nontrivial=True)


def rule_unterminated(chk, m, f, cfg, top, states, table, rid):
    """A string literal / quoted symbol that is still open when the text
    ends is not a lexeme: no leaf is made of the fragment (every writer
    appends a separator after a leaf, which the open literal swallows on
    re-reading)."""
    where = 'nodeio.parse_smtlib'
    n = 0
    bad = None
    for key, paths in table.items():
        if key[0] not in ('STRING', 'QUOTED'):
            continue
        # the delimiter itself may close the literal: not an open one
        if key[1] == {'STRING': 'DQ', 'QUOTED': 'BAR'}[key[0]]:
            continue
        for p in paths:
            eof = any(d == ('pos < size', False) for d in p['decisions'])
            if not eof or p['end'] not in ('return', 'exit'):
                continue
            # the character just read did not close the literal
            if not any(e.endswith('.append(char)') for e in p['events']):
                continue
            n += 1
            if any('Node(' in e or e.startswith('yield ')
                   for e in p['events']):
                bad = bad or (key, p['events'])
    chk.floor(rid, 'end-of-input paths inside a literal', n, 2)
    chk.check(rid, where, 'an unterminated literal yields no leaf',
              bad is None,
              f'when the text ends inside a {bad[0][0].lower() if bad else ""}'
              ' literal the fragment is made a leaf '
              f'({[e for e in (bad[1] if bad else []) if "Node(" in e][:1]})'
              ': the tree then holds a leaf that is not a token - every '
              'rendering appends a separator which the open literal '
              'swallows, so it parses back to a different leaf',
              loc=m.loc(f), nontrivial=True)


def rule_r4(chk, m, f, cfg, top, states, table):
    chk.rule('C08.R4', 'characters inside string literals, quoted symbols '
             'and comments never touch the structure')
    where = 'nodeio.parse_smtlib'
    for key, paths in table.items():
        state = key[0]
        if state not in ('STRING', 'QUOTED', 'COMMENT'):
            continue
        node = states['LITERAL' if state != 'COMMENT' else 'COMMENT']
        for p in paths:
            if p['end'] is not node:
                continue
            bad = [e for e in p['events']
                   if 'cur_expr' in e or 'exprs' in e or e.startswith(
                       'yield')]
            chk.check('C08.R4', where, f'{state} x {key[1]} continues',
                      not bad, f'while scanning a {state.lower()} the '
                      f'character class {key[1]} changes the structure: '
                      f'{bad[:2]}', loc=m.loc(f), nontrivial=True)


LOSSY_STR = ('replace', 'strip', 'lstrip', 'rstrip', 'lower', 'upper',
             'casefold', 'expandtabs', 'translate', 'splitlines', 'split',
             'join', 'encode', 'decode', 'normalize', 'sub', 'subn',
             'removeprefix', 'removesuffix', 'title', 'swapcase')


def _lossy_call(e):
    for x in ast.walk(e):
        if isinstance(x, ast.Call) and isinstance(
                x.func, ast.Attribute) and x.func.attr in LOSSY_STR:
            return x
    return None


def rule_r5(chk, prog):
    chk.rule('C08.R5', 'the scanner sees the characters of the file: the '
             'text parameter is not rewritten before/while scanning, and '
             'every caller passes the content of a file opened without '
             'newline translation')
    m = prog.mod('nodeio')
    f = m.func('parse_smtlib')
    where = 'nodeio.parse_smtlib'
    tp = f.args.args[0].arg
    n = 0
    for st in walk_no_nested(f):
        tgts = []
        if isinstance(st, ast.Assign):
            tgts = st.targets
        elif isinstance(st, (ast.AugAssign, ast.AnnAssign)):
            tgts = [st.target]
        elif isinstance(st, ast.NamedExpr):
            tgts = [st.target]
        for t in tgts:
            if any(isinstance(x, ast.Name) and x.id == tp
                   for x in ast.walk(t)):
                n += 1
                val = getattr(st, 'value', None)
                lc = _lossy_call(val) if val is not None else None
                if lc is None and not isinstance(st, ast.AugAssign):
                    raise AnalysisError(
                        f'C08.R5: {m.loc(st)}: "{tp}" is rebound by '
                        f'"{unparse(st)}", an expression this rule does '
                        'not recognise')
                chk.check('C08.R5', where, st, False,
                          f'the text is rewritten before it is scanned ('
                          f'{unparse(lc) if lc else unparse(st)}): the '
                          'rewrite also applies inside string literals, '
                          'quoted symbols and comments, whose text then '
                          'differs from the lexeme in the input',
                          loc=m.loc(st), nontrivial=True)
    chk.instance('C08.R5', where, f'parameter "{tp}" is never rebound',
                 n == 0, 'no assignment to the parameter in the function',
                 nontrivial=False, loc=m.loc(f))
    # call sites
    ncall = 0
    for cm in prog.pkg_modules():
        if 'tests' in cm.rel():
            continue
        for c in ast.walk(cm.tree):
            if not (isinstance(c, ast.Call) and (call_name(c) or '').split(
                    '.')[-1] == 'parse_smtlib' and c.args):
                continue
            ncall += 1
            fn = c
            while fn is not None and not isinstance(
                    fn, (ast.FunctionDef, ast.Module)):
                fn = getattr(fn, '_parent', None)
            wh = f'{cm.name}.{getattr(fn, "_qualname", "<module>")}'
            a = c.args[0]
            if isinstance(fn, ast.FunctionDef):
                from ..astutil import expand_locals
                a = expand_locals(fn, a)
            lc = _lossy_call(a)
            if lc is not None:
                chk.check('C08.R5', wh, c, False,
                          f'the text is rewritten ({unparse(lc)}) before it '
                          'reaches the scanner', loc=cm.loc(c),
                          nontrivial=True)
                continue
            if isinstance(a, ast.Call) and isinstance(
                    a.func, ast.Attribute) and a.func.attr in (
                        'read_text', 'read_bytes'):
                # pathlib: read_text() opens in text mode with universal
                # newline translation (a newline= argument exists only from
                # Python 3.13 on); read_bytes() hands over bytes
                nl = kw(a, 'newline')
                ok = a.func.attr == 'read_text' and isinstance(
                    nl, ast.Constant) and nl.value == ''
                chk.check('C08.R5', wh, a, ok,
                          'the input file is read with '
                          f'{a.func.attr}(), i.e. in text mode '
                          'with universal newline translation: CR LF (and '
                          'CR) inside string literals, quoted symbols and '
                          'comments reach the scanner as LF, the token text '
                          'differs from the lexeme in the file'
                          if a.func.attr == 'read_text' else
                          'the scanner is handed bytes, not text',
                          loc=cm.loc(a), nontrivial=True)
                continue
            if not (isinstance(a, ast.Call) and isinstance(
                    a.func, ast.Attribute) and a.func.attr == 'read'
                    and not a.args):
                raise AnalysisError(
                    f'C08.R5: {cm.loc(c)}: argument "{unparse(a)}" of '
                    'parse_smtlib is not <file>.read()')
            src = a.func.value
            opens = []
            if isinstance(src, ast.Call):
                opens = [src]
            elif isinstance(src, ast.Name):
                p = getattr(c, '_parent', None)
                while p is not None and not isinstance(p, ast.FunctionDef):
                    if isinstance(p, ast.With):
                        for it in p.items:
                            if isinstance(it.optional_vars, ast.Name) and \
                                    it.optional_vars.id == src.id and \
                                    isinstance(it.context_expr, ast.Call):
                                opens.append(it.context_expr)
                    p = getattr(p, '_parent', None)
                if not opens and isinstance(fn, ast.FunctionDef):
                    for st in ast.walk(fn):
                        if isinstance(st, ast.Assign) and any(
                                isinstance(t, ast.Name) and t.id == src.id
                                for t in st.targets) and isinstance(
                                    st.value, ast.Call):
                            opens.append(st.value)
            opens = [o for o in opens if (call_name(o) or '') in (
                'open', 'io.open')]
            if not opens:
                raise AnalysisError(
                    f'C08.R5: {cm.loc(c)}: cannot find the open() call that '
                    f'produces "{unparse(src)}"')
            for o in opens:
                nl = kw(o, 'newline')
                mode = o.args[1] if len(o.args) > 1 else kw(o, 'mode')
                binary = isinstance(mode, ast.Constant) and 'b' in str(
                    mode.value)
                ok = binary or (isinstance(nl, ast.Constant)
                                and nl.value == '')
                chk.check('C08.R5', wh, o, ok,
                          'the input file is opened in text mode with '
                          'universal newline translation: CR LF (and CR) '
                          'inside string literals, quoted symbols and '
                          'comments reach the scanner as LF, the token text '
                          'differs from the lexeme in the file',
                          loc=cm.loc(o), nontrivial=True)
                # ... and decoded like every other file of the run (the
                # writers use the default encoding): no codec of its own,
                # no error handler that replaces or drops bytes
                enc = kw(o, 'encoding')
                err = kw(o, 'errors')
                okc = (enc is None or (isinstance(enc, ast.Constant) and (
                    enc.value is None or str(enc.value).lower().replace(
                        '_', '-') in ('utf-8', 'utf8')))) and (
                            err is None or (isinstance(err, ast.Constant)
                                            and err.value in (None,
                                                              'strict')))
                chk.check('C08.R5', wh, f'{unparse(o)[:50]} [codec]', okc,
                          'the input file is decoded with '
                          f'encoding={unparse(enc) if enc else "default"}'
                          f', errors={unparse(err) if err else "strict"}: '
                          'the characters inside string literals, quoted '
                          'symbols and comments that reach the scanner '
                          'are not the characters of the file (and what '
                          'the writers emit with the default codec is '
                          'another byte sequence)', loc=cm.loc(o),
                          nontrivial=True)
    chk.floor('C08.R5', 'call sites of parse_smtlib', ncall, 2)


SMTLIB_DELIMS = set(' \t\n\r();"|')


def rule_r9(chk, prog):
    chk.rule('C08.R9', 'lexing decisions depend only on the characters '
             'SMT-LIB 2.6 gives a lexical role: white space, parentheses, '
             '";", \'"\' and "|" - every character constant the scanner '
             'compares with (==, !=, in, find/index/startswith) is one of '
             'them; in particular a backslash has no escape role')
    m = prog.mod('nodeio')
    f = m.func('parse_smtlib')
    where = 'nodeio.parse_smtlib'
    n = 0

    def consts(e):
        if isinstance(e, ast.Constant) and isinstance(e.value, str):
            yield e
        elif isinstance(e, (ast.Tuple, ast.List, ast.Set)):
            for x in e.elts:
                yield from consts(x)
        elif isinstance(e, ast.Name) and len(m.globals.get(e.id, [])) == 1:
            yield from consts(m.globals[e.id][0])
        elif isinstance(e, ast.Call) and call_name(e) in (
                'frozenset', 'set', 'tuple') and e.args:
            yield from consts(e.args[0])

    sites = []
    for x in walk_no_nested(f):
        if isinstance(x, ast.Compare):
            for o in [x.left] + list(x.comparators):
                for c in consts(o):
                    sites.append((x, c))
        elif isinstance(x, ast.Call) and isinstance(
                x.func, ast.Attribute) and x.func.attr in (
                    'find', 'index', 'rfind', 'startswith', 'endswith',
                    'count', 'partition', 'split') and x.args:
            for c in consts(x.args[0]):
                sites.append((x, c))
    for (x, c) in sites:
        if c.value == '':
            continue
        n += 1
        extra = sorted(set(c.value) - SMTLIB_DELIMS)
        chk.check('C08.R9', where, x, not extra,
                  f'"{unparse(x)[:70]}" makes a lexing decision depend on '
                  f'{extra!r}, which has no lexical role in SMT-LIB 2.6 '
                  '(a string literal ends at the first quote that is not '
                  'doubled, a quoted symbol at the next "|"): lexemes '
                  'containing it are cut differently from the standard',
                  loc=m.loc(x), nontrivial=True)
    chk.floor('C08.R9', 'character constants in scanner tests', n, 8)


def rule_r11(chk, prog):
    chk.rule('C08.R11', 'every call of the reader starts from scratch: the '
             'containers it fills while scanning (the stack of open '
             's-expressions, the current list, the token buffers) are '
             'created inside the call, not at module level')
    m = prog.mod('nodeio')
    f = m.func('parse_smtlib')
    where = 'nodeio.parse_smtlib'
    MUTM = ('append', 'extend', 'pop', 'clear', 'insert', 'remove', 'add',
            'update', 'popleft', 'appendleft')
    local_bound = {a.arg for a in f.args.args}
    for x in ast.walk(f):
        if isinstance(x, ast.Name) and isinstance(x.ctx, ast.Store):
            local_bound.add(x.id)
    gl = {n for x in ast.walk(f) if isinstance(x, ast.Global)
          for n in x.names}
    n = 0
    seen = set()
    for c in ast.walk(f):
        base = None
        if isinstance(c, ast.Call) and isinstance(
                c.func, ast.Attribute) and c.func.attr in MUTM:
            base = c.func.value
        elif isinstance(c, (ast.Assign, ast.AugAssign)):
            t = c.targets[0] if isinstance(c, ast.Assign) else c.target
            if isinstance(t, ast.Subscript):
                base = t.value
            elif isinstance(t, ast.Name) and t.id in gl:
                base = t
        if base is None:
            continue
        while isinstance(base, ast.Subscript):
            base = base.value
        if not isinstance(base, ast.Name):
            continue
        n += 1
        # a local bound to a module-level container is that container
        name = base.id
        if name in local_bound and name not in gl:
            ds = [st.value for st in ast.walk(f) if isinstance(
                st, ast.Assign) and any(isinstance(t2, ast.Name)
                                        and t2.id == name
                                        for t2 in st.targets)]
            alias = [d for d in ds if isinstance(d, ast.Name)
                     and d.id in m.globals and d.id not in local_bound]
            if not alias:
                continue
            name = alias[0].id
        if name in seen:
            continue
        if name in m.globals or name in gl:
            seen.add(name)
            chk.check('C08.R11', where, c, False,
                      f'the reader fills the module-level container '
                      f'"{name}" ("{unparse(c)[:50]}"): what one call '
                      'leaves in it (the open s-expressions of a truncated '
                      'input, say) is still there when the next text is '
                      'read, which then comes back nested in stale '
                      'expressions or not at all', loc=m.loc(c),
                      nontrivial=True)
    chk.instance('C08.R11', where, f'{n} container updates, all on '
                 'containers created inside the call', not seen,
                 'no module-level container is filled', nontrivial=True)
    chk.floor('C08.R11', 'container updates in the reader', n, 5)


def rule_r7(chk, prog):
    chk.rule('C08.R7', 'one lexer: a lexeme ends at the FIRST terminator '
             '(searches for several terminators are never combined with '
             'max()), and nobody but parse_smtlib interprets the raw text of '
             'the input file')
    m = prog.mod('nodeio')
    f = m.func('parse_smtlib')
    tp = f.args.args[0].arg
    defs = {}
    for st in walk_no_nested(f):
        if isinstance(st, ast.Assign) and len(st.targets) == 1 and \
                isinstance(st.targets[0], ast.Name):
            defs.setdefault(st.targets[0].id, []).append(st.value)

    def is_search(e, depth=0):
        if isinstance(e, ast.Call) and isinstance(
                e.func, ast.Attribute) and e.func.attr in (
                    'find', 'index') and isinstance(
                        e.func.value, ast.Name) and e.func.value.id == tp:
            return True
        if isinstance(e, ast.BinOp) and isinstance(e.op, (ast.Add, ast.Sub)):
            return is_search(e.left, depth) or is_search(e.right, depth)
        if isinstance(e, ast.Name) and depth < 2 and len(
                defs.get(e.id, [])) == 1:
            return is_search(defs[e.id][0], depth + 1)
        return False

    n = 0
    for c in walk_no_nested(f):
        if isinstance(c, ast.Call) and isinstance(
                c.func, ast.Name) and c.func.id in ('max', 'min'):
            srch = [a for a in c.args if is_search(a)]
            if len(srch) >= 2:
                n += 1
                bad = c.func.id == 'max'
                chk.check('C08.R7', 'nodeio.parse_smtlib', c, not bad,
                          f'{unparse(c)} takes the LATER of the positions '
                          'found: when both characters occur, the lexeme '
                          'runs past the first terminator (a comment '
                          'swallows the following lines up to the last '
                          'carriage return / line feed found)',
                          loc=m.loc(c), nontrivial=True)
    # readers of the input file
    nread = 0
    for cm in prog.pkg_modules():
        if 'tests' in cm.rel():
            continue
        for c in ast.walk(cm.tree):
            if not (isinstance(c, ast.Call) and isinstance(
                    c.func, ast.Attribute) and c.func.attr in (
                        'read', 'readlines', 'readline') and not c.args):
                continue
            src = c.func.value
            op = None
            if isinstance(src, ast.Call) and (call_name(src) or '') in (
                    'open', 'io.open'):
                op = src
            elif isinstance(src, ast.Name):
                p = getattr(c, '_parent', None)
                while p is not None and not isinstance(
                        p, (ast.FunctionDef, ast.Module)):
                    if isinstance(p, ast.With):
                        for it in p.items:
                            if isinstance(it.optional_vars, ast.Name) and \
                                    it.optional_vars.id == src.id and \
                                    isinstance(it.context_expr, ast.Call):
                                op = it.context_expr
                    p = getattr(p, '_parent', None)
            if op is None or not op.args:
                continue
            fn0 = c
            while fn0 is not None and not isinstance(
                    fn0, (ast.FunctionDef, ast.Module)):
                fn0 = getattr(fn0, '_parent', None)
            pth = op.args[0]
            if isinstance(fn0, ast.FunctionDef):
                from ..astutil import expand_locals
                pth = expand_locals(fn0, pth)
            if opt_read(pth) != 'infile':
                continue
            nread += 1
            par = getattr(c, '_parent', None)
            ok = isinstance(par, ast.Call) and (call_name(par) or '').split(
                '.')[-1] == 'parse_smtlib' and par.args and par.args[0] is c
            fn = c
            while fn is not None and not isinstance(
                    fn, (ast.FunctionDef, ast.Module)):
                fn = getattr(fn, '_parent', None)
            if not ok and isinstance(par, ast.Assign) and len(
                    par.targets) == 1 and isinstance(
                        par.targets[0], ast.Name) and par.value is c:
                # bound to a local first: every use of that local is the
                # argument of parse_smtlib (or len())
                nm = par.targets[0].id
                uses = [x for x in ast.walk(fn) if isinstance(x, ast.Name)
                        and x.id == nm and isinstance(x.ctx, ast.Load)]
                stores = [x for x in ast.walk(fn) if isinstance(x, ast.Name)
                          and x.id == nm and isinstance(x.ctx, ast.Store)]

                def fine(u):
                    pu = getattr(u, '_parent', None)
                    return isinstance(pu, ast.Call) and u in pu.args and (
                        (call_name(pu) or '').split('.')[-1] in (
                            'parse_smtlib', 'len'))

                ok = len(stores) == 1 and bool(uses) and all(
                    fine(u) for u in uses)
                if not ok:
                    par = next((getattr(u, '_parent', None) for u in uses
                                if not fine(u)), par)
            wh = f'{cm.name}.{getattr(fn, "_qualname", "<module>")}'
            chk.check('C08.R7', wh, c, ok,
                      'the text of the input file is interpreted by code '
                      'other than parse_smtlib '
                      f'({unparse(par)[:70] if par is not None else ""}): '
                      'a second, cruder lexer (counting or matching '
                      'characters regardless of string literals, quoted '
                      'symbols and comments) decides about inputs the '
                      'reader tokenises correctly', loc=cm.loc(c),
                      nontrivial=True)
    chk.floor('C08.R7', 'reads of the input file', nread, 2)


def rule_r8(chk, prog):
    chk.rule('C08.R8', 'regular expressions the reader uses for string '
             'literals and quoted symbols describe exactly the standard\'s '
             'lexemes (no backslash escapes, line breaks allowed, "" inside '
             'a string)')
    from ..regexlex import regex_delimited
    import re._parser as rp
    import re._constants as rc
    m = prog.mod('nodeio')
    n = 0
    for c in ast.walk(m.tree):
        if not (isinstance(c, ast.Call) and (call_name(c) or '') in (
                're.compile', 're.match', 're.search', 're.fullmatch',
                're.finditer', 're.findall') and c.args and isinstance(
                    c.args[0], ast.Constant) and isinstance(
                        c.args[0].value, str)):
            continue
        pat = c.args[0].value
        fl = c.args[-1] if len(c.args) > 1 and 'compile' in (
            call_name(c) or '') else kw(c, 'flags')
        dotall = fl is not None and ('DOTALL' in unparse(fl)
                                     or unparse(fl).endswith('.S'))
        # top-level alternatives, by their source text
        alts, depth, cur, esc, incls = [], 0, '', False, False
        for ch in pat:
            if esc:
                cur += ch
                esc = False
                continue
            if ch == '\\':
                cur += ch
                esc = True
                continue
            if ch == '[':
                incls = True
            elif ch == ']':
                incls = False
            elif not incls and ch == '(':
                depth += 1
            elif not incls and ch == ')':
                depth -= 1
            if ch == '|' and depth == 0 and not incls:
                alts.append(cur)
                cur = ''
            else:
                cur += ch
        alts.append(cur)
        for a in alts:
            body = a.lstrip('^')
            q = '"' if body.startswith('"') else (
                '|' if body.startswith('\\|') else None)
            if q is None:
                continue
            n += 1
            ok, why = regex_delimited(a, dotall, q, True, q == '"')
            chk.check('C08.R8', 'nodeio', f'pattern {a!r}', ok,
                      f'the reader scans {"string literals" if q == chr(34) else "quoted symbols"} '
                      f'with the pattern {a!r}: {why}', loc=m.loc(c),
                      nontrivial=True)
    chk.instance('C08.R8', 'nodeio', f'{n} literal pattern(s) judged', True,
                 'the character loops are judged by R1-R4',
                 nontrivial=False)


def run(tier):
    prog = Program()
    chk = Check(
        PROP, 'other', tier,
        clauses_decided=[
            'decision table of the scanner (5 states x 16 character '
            'classes x look-ahead) equals the SMT-LIB 2.6 lexicon on all '
            'armed cells',
            'uniform two-way emission of all lexeme kinds',
            'flush of an open token/comment at end of input',
            'literal/comment contents do not touch the structure',
        ],
        clauses_not_decided=[
            'Unicode classes beyond the listed representatives',
            'informational cells: " and | inside a token, CR as comment '
            'terminator',
            'unbalanced input (covered by C04)',
        ],
        assumptions=[
            'every character outside the listed classes is handled like '
            'the representative OTHER (the scanner only compares with '
            'constants)',
        ])
    chk.guard(rule_r5, chk, prog)
    chk.guard(rule_r7, chk, prog)
    chk.guard(rule_r8, chk, prog)
    chk.guard(rule_r9, chk, prog)
    chk.guard(rule_r11, chk, prog)
    tab = chk.guard(extract_table, chk, prog)
    if tab is not None:
        m, f, cfg, ex, top, states, table = tab
        chk.guard(rule_r1, chk, m, f, top, states, table)
        chk.guard(rule_r2, chk, m, f, cfg, top, states, table)
        chk.guard(rule_r3, chk, m, f, cfg, top, states, table)
        chk.guard(rule_r4, chk, m, f, cfg, top, states, table)
    from .. import depthrec
    chk.guard(depthrec.report, chk, prog, 'C08.R10',
              'no function of the tree core that reads SMT-LIB text recurses over the nesting depth (directly, through helpers, generators, tuple comparison, deepcopy or the generic pickler)',
              [('nodeio', 'parse_smtlib')],
              'the reader raises RecursionError instead of returning the nesting structure of a deeply nested input')
    from .. import ctortext
    chk.guard(ctortext.report_ctor, chk, prog, 'C08.R12',
              'the leaf constructor stores the text it is given (state, '
              'children, or the argument itself through str()): the reader '
              'builds every leaf with it',
              'the token texts returned by the reader differ from the text of the file (and two different texts become equal nodes)')
    chk.guard(ctortext.report_asserts, chk, prog, 'C08.R13',
              'the reader and the constructors accept every leaf text: their '
              'assertions test types and arities only',
              'the reader aborts on standard-conforming text instead of returning its structure')
    extra = None
    if tier == 'thorough':
        from .. import selftest
        extra = selftest.run_for(PROP)
    return chk.finish(extra)
