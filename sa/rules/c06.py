"""C06 - the output file is a complete accepted input at every instant.

Decided: publish-by-rename discipline for the output file, write ban on the
input file, interrupt path, lifetime anchoring of the temporary directory.
These are the conditions under which "every crash point" needs no
enumeration: rename(2) is atomic, a truncating open is not."""
import ast

from ..astutil import (call_name, calls_in, walk_no_nested, params_of, kw,
                       is_const, opt_read, global_decls)
from ..cfg import cfg_of, expr_owner_node
from ..fileeffects import inventory, Provenance
from ..loader import Program, AnalysisError, unparse
from ..report import Check

PROP = 'C06'


def _fn(node):
    n = getattr(node, '_parent', None)
    while n is not None:
        if isinstance(n, ast.FunctionDef):
            return n
        n = getattr(n, '_parent', None)
    return None


def rule_r1(chk, prog, effects):
    chk.rule('C06.R1', 'the output file is only ever replaced atomically: '
             'content goes to a sibling temporary that is closed before '
             'os.replace/os.rename onto the output path')
    out_writes = [e for e in effects if e.writes and 'OUTFILE' in e.prov]
    chk.floor('C06.R1', 'write effects reaching the output file',
              len(out_writes), 1)
    publishers = set()
    for e in out_writes:
        ok = e.kind == 'replace-dst'
        msg = ''
        if e.kind in ('open', 'os.open'):
            msg = (f'the output file is opened for writing in place '
                   f'({e.detail}): between the open and the last write a '
                   'reader or an interrupt sees an empty, truncated or '
                   'mixed file (one write per token/line follows)')
        elif e.kind == 'truncate':
            msg = 'the output file is truncated in place'
        elif not ok:
            msg = f'output file modified in place by {e.kind} ({e.detail})'
        chk.check('C06.R1', e.where, e.call, ok, msg, loc=e.mod.loc(e.call),
                  nontrivial=True,
                  argument='provenance of the path argument: '
                  f'{sorted(e.prov)}')
        if ok:
            publishers.add((e.mod.name, e.func._qualname if e.func else ''))
    # each publisher: tmp sibling written inside a with-block that is closed
    # before the rename, rename on every normal path after the write
    pv = Provenance(prog)
    for e in out_writes:
        if e.kind != 'replace-dst' or e.func is None:
            continue
        f = e.func
        m = e.mod
        where = e.where
        cfg = cfg_of(f)
        rep = e.call
        src = rep.args[0]
        sprov = pv.of(m, f, src)
        sib = any(t == 'DERIVED(OUTFILE)' for t in sprov)
        chk.check('C06.R1', where, f'temporary {unparse(src)}', sib,
                  f'the file renamed onto the output is "{unparse(src)}" '
                  f'with provenance {sorted(sprov)}: it must be a sibling '
                  'derived from the output path (same directory, so the '
                  'rename stays on one file system and is atomic)',
                  loc=m.loc(rep), nontrivial=True)
        # the same name is opened 'w' in a with statement that ends before
        # the rename
        withs = [w for w in walk_no_nested(f) if isinstance(w, ast.With)]
        good_with = None
        for w in withs:
            for it in w.items:
                c = it.context_expr
                if isinstance(c, ast.Call) and call_name(c) == 'open' and \
                        c.args and unparse(c.args[0]) == unparse(src):
                    good_with = w
                # os.fdopen(fd, 'w') with fd = os.open(tmp, O_WRONLY |
                # O_CREAT | O_TRUNC ..): the same file object
                if isinstance(c, ast.Call) and call_name(c) in (
                        'os.fdopen', 'open', 'io.open') and c.args and \
                        isinstance(c.args[0], ast.Name):
                    from ..astutil import resolve_near
                    d = resolve_near(f, c.args[0], c)
                    if isinstance(d, ast.Call) and call_name(
                            d) == 'os.open' and d.args and unparse(
                                d.args[0]) == unparse(src):
                        fl = d.args[1] if len(d.args) > 1 else None
                        if isinstance(fl, ast.Name) and len(m.globals.get(
                                fl.id, [])) == 1:
                            fl = m.globals[fl.id][0]
                        ft = unparse(fl) if fl is not None else ''
                        if all(k in ft for k in ('O_WRONLY', 'O_CREAT',
                                                 'O_TRUNC')):
                            good_with = w
        okw = good_with is not None
        # ... and it is truncated (or created exclusively) when opened: a
        # leftover temporary of a killed run with the same pid is not kept
        # as a prefix of what is published
        if good_with is not None:
            for it in good_with.items:
                c = it.context_expr
                if isinstance(c, ast.Call) and call_name(c) in (
                        'open', 'io.open') and c.args and unparse(
                            c.args[0]) == unparse(src):
                    mode = c.args[1] if len(c.args) > 1 else kw(c, 'mode')
                    mt = mode.value if isinstance(mode, ast.Constant) \
                        else None
                    chk.check('C06.R1', where, f'temporary opened with mode '
                              f'{mt!r}', isinstance(mt, str) and (
                                  'w' in mt or 'x' in mt) and 'a' not in mt,
                              f'the temporary is opened with mode {mt!r}: '
                              'it is not truncated, so a partial temporary '
                              'left behind by a killed run with the same '
                              'process id becomes the beginning of the '
                              'published output file (a mixed file)',
                              loc=m.loc(c), nontrivial=True)
        inside = False
        if okw:
            p = getattr(rep, '_parent', None)
            while p is not None and p is not f:
                if p is good_with:
                    inside = True
                p = getattr(p, '_parent', None)
        chk.check('C06.R1', where, 'temporary written in a with-block closed '
                  'before the rename', okw and not inside,
                  'the temporary is not written inside "with open(tmp, '
                  '\'w\')" that is left (file closed, data flushed) before '
                  'the rename', loc=m.loc(rep), nontrivial=True)
        if okw:
            # rename post-dominates the with on normal paths
            wn = cfg.node_of[id(good_with)]
            rn = expr_owner_node(cfg, rep)
            INB, OUTB = cfg.must_backward(gen=lambda n: ['rename']
                                          if n is rn else [])
            pd = OUTB.get(wn)
            chk.check('C06.R1', where, 'rename on every normal path after '
                      'the write', pd is not None and 'rename' in pd,
                      'some normal path from the write reaches the end of '
                      'the function without renaming: the output file is '
                      'not updated', loc=m.loc(rep), nontrivial=True)
            # the renderer writes to the with-target
            tgt = good_with.items[0].optional_vars
            wc = [c for c in calls_in(good_with) if (call_name(c) or
                                                     '').endswith(
                                                         'write_smtlib')]
            okr = len(wc) == 1 and tgt is not None and unparse(
                wc[0].args[0]) == unparse(tgt)
            chk.check('C06.R1', where, 'content rendered into the temporary',
                      okr, 'write_smtlib does not render into the '
                      'temporary file object', loc=m.loc(good_with),
                      nontrivial=True)
    # on exceptional paths the temporary is not renamed: a rename inside an
    # except handler / finally would publish a partial file
    for e in out_writes:
        if e.kind != 'replace-dst':
            continue
        p = getattr(e.call, '_parent', None)
        in_handler = False
        while p is not None and not isinstance(p, ast.FunctionDef):
            if isinstance(p, ast.ExceptHandler):
                in_handler = True
            if isinstance(p, ast.Try) and any(
                    e.call in list(ast.walk(s)) for s in p.finalbody):
                in_handler = True
            p = getattr(p, '_parent', None)
        chk.check('C06.R1', e.where, 'no publish on exceptional paths',
                  not in_handler, 'the rename happens in an exception '
                  'handler / finally: a partially written temporary would '
                  'be published', loc=e.mod.loc(e.call), nontrivial=True)
    return out_writes


def rule_r2(chk, prog, effects):
    chk.rule('C06.R2', 'nothing writes the input file (no writing call '
             'receives a path with provenance infile)')
    n = 0
    for e in effects:
        if any('INFILE' in t for t in e.prov):
            n += 1
            chk.check('C06.R2', e.where, e.call, not e.writes,
                      f'{e.kind} ({e.detail}) modifies a path with '
                      f'provenance {sorted(e.prov)}: ddSMT must never write '
                      'its input file', loc=e.mod.loc(e.call),
                      nontrivial=True)
    chk.floor('C06.R2', 'file effects on the input file (reads)', n, 1)
    # positive fixture: the rule must fire on a known-bad example
    import os
    from ..loader import Module
    from ..report import VERIF
    fx = os.path.join(VERIF, 'fixtures', 'writes_infile.py')
    if not os.path.isfile(fx):
        raise AnalysisError('fixture fixtures/writes_infile.py missing')
    fm = Module('fixture', fx, open(fx).read())

    class FP:
        modules = {'fixture': fm}

        def resolve_expr(self, mod, expr):
            return None

        def resolve_name(self, mod, name):
            return None

    fe = inventory(FP())
    hit = [e for e in fe if e.writes and any('INFILE' in t for t in e.prov)]
    if len(hit) < 2:
        raise AnalysisError('C06.R2 self-check: the write-to-infile fixture '
                            f'is not detected ({len(hit)} hits)')
    chk.instance('C06.R2', 'fixtures/writes_infile.py',
                 f'{len(hit)} planted writes detected', True,
                 'zero-count rule: positive example must match on every run')


def rule_r3(chk, prog):
    chk.rule('C06.R3', 'an interrupt reaches the orderly exit: main handles '
             'KeyboardInterrupt; nothing below swallows it')
    mm = prog.mod('__main__')
    f = mm.func('main')
    hs = [h for h in ast.walk(f) if isinstance(h, ast.ExceptHandler)]
    names = set()
    for h in hs:
        if h.type is None:
            names.add('<bare>')
        else:
            for x in ast.walk(h.type):
                if isinstance(x, ast.Name):
                    names.add(x.id)
    chk.check('C06.R3', '__main__.main', 'KeyboardInterrupt handled',
              'KeyboardInterrupt' in names, 'main() has no handler for '
              'KeyboardInterrupt: an interrupt ends in a traceback',
              loc=mm.loc(f), nontrivial=True)
    n = 0
    for m in prog.pkg_modules():
        for h in ast.walk(m.tree):
            if not isinstance(h, ast.ExceptHandler):
                continue
            fn = _fn(h)
            q = fn._qualname if fn is not None else '<module>'
            if m.name == '__main__' and q == 'main':
                continue
            catches = h.type is None
            if h.type is not None:
                for x in ast.walk(h.type):
                    if isinstance(x, ast.Name) and x.id in (
                            'BaseException', 'KeyboardInterrupt'):
                        catches = True
            if not catches:
                continue
            n += 1
            reraises = any(isinstance(s, ast.Raise) for s in ast.walk(h))
            chk.check('C06.R3', f'{m.name}.{q}', h, reraises,
                      'this handler catches KeyboardInterrupt (or '
                      'everything) and does not re-raise: an interrupt is '
                      'swallowed, ddSMT carries on and the run is not '
                      'reported as interrupted', loc=m.loc(h),
                      nontrivial=True)
    chk.instance('C06.R3', 'package', f'{n} handlers able to catch '
                 'KeyboardInterrupt below main examined', True,
                 'except Exception does not catch KeyboardInterrupt')


def rule_r4(chk, prog, effects):
    chk.rule('C06.R4', 'the temporary directory dies with the process: a '
             'TemporaryDirectory object held in a module-level binding; all '
             'temporary paths are built from its name; no os._exit')
    t = prog.mod('tmpfiles')
    init = t.func('init')
    gl = global_decls(init)
    tds = [st for st in walk_no_nested(init) if isinstance(st, ast.Assign)
           and isinstance(st.value, ast.Call) and call_name(
               st.value) == 'tempfile.TemporaryDirectory']
    ok = len(tds) == 1 and isinstance(
        tds[0].targets[0], ast.Name) and tds[0].targets[0].id in gl
    chk.check('C06.R4', 'tmpfiles.init', 'TemporaryDirectory bound to a '
              'module global', ok,
              'the temporary directory is not a tempfile.TemporaryDirectory '
              'held by a module-level name: mkdtemp() is never cleaned up '
              'when the run does not reach its last statement (interrupt, '
              'sys.exit, MemoryError); a local is finalised at once',
              loc=t.loc(init), nontrivial=True)
    tdname = tds[0].targets[0].id if ok else '__TMPDIR'
    # the launcher scripts (bin/ddsmt) included: they run in the main
    # process after main() has returned
    for m in prog.modules.values():
        for c in ast.walk(m.tree):
            if isinstance(c, ast.Call) and call_name(c) in (
                    'tempfile.mkdtemp', 'tempfile.mkstemp'):
                chk.check('C06.R4', m.name, c, False,
                          f'{call_name(c)} creates a temporary that nobody '
                          'removes on interrupt', loc=m.loc(c),
                          nontrivial=True)
            if isinstance(c, ast.Call) and call_name(c) in ('os._exit', ):
                chk.check('C06.R4', m.name, c, False,
                          'os._exit skips the removal of the temporary '
                          'directory', loc=m.loc(c))
            # the process ends itself with a signal: no interpreter
            # shutdown, so the TemporaryDirectory finalizer never runs
            if isinstance(c, ast.Call) and call_name(c) in (
                    'os.abort', 'signal.raise_signal'):
                chk.check('C06.R4', m.name, c, False,
                          f'{call_name(c)} ends the process without '
                          'interpreter shutdown: the temporary directory '
                          'stays behind', loc=m.loc(c), nontrivial=True)
            if isinstance(c, ast.Call) and call_name(c) in (
                    'os.kill', 'os.killpg') and c.args:
                tgt = unparse(c.args[0]).replace(' ', '')
                own = tgt in ('os.getpid()', 'os.getpgid(0)', 'os.getpgrp()',
                              '0', 'os.getpgid(os.getpid())')
                if own:
                    chk.check('C06.R4', m.name, c, False,
                              'the process signals itself: it dies without '
                              'interpreter shutdown, the TemporaryDirectory '
                              'finalizer never runs and the temporary '
                              'directory (binary copy, candidate file) '
                              'stays behind after an interrupt',
                              loc=m.loc(c), nontrivial=True)
                elif call_name(c) == 'os.killpg' and tgt.startswith(
                        'os.getpgid('):
                    # the group of a child: ddSMT's own group unless every
                    # way the child is started puts it into a new one
                    fn_ = _fn(c)
                    spawns = [p_ for p_ in (calls_in(fn_) if fn_ is not None
                                            else [])
                              if (call_name(p_) or '').endswith('Popen')]
                    own_group = [p_ for p_ in spawns
                                 if not (is_const(kw(p_, 'start_new_session'),
                                                  True)
                                         or 'setsid' in unparse(
                                             kw(p_, 'preexec_fn') or
                                             ast.Constant(value=None))
                                         or 'setpgrp' in unparse(
                                             kw(p_, 'preexec_fn') or
                                             ast.Constant(value=None)))]
                    chk.check('C06.R4', m.name, c, bool(spawns)
                              and not own_group,
                              f'{unparse(c)[:60]} signals the process group '
                              'of the child, but '
                              f'{len(own_group)} of {len(spawns)} spawn '
                              'path(s) leave the child in ddSMT\'s own '
                              'group: the signal kills ddSMT itself (no '
                              'clean-up, no diagnostic, exit by signal)',
                              loc=m.loc(c), nontrivial=True)
                elif not isinstance(c.args[0], (ast.Name, ast.Attribute)):
                    raise AnalysisError(
                        f'{m.loc(c)}: target of {call_name(c)} not '
                        f'recognised ({tgt})')
    # every temp path is built from <TMPDIR>.name
    n = 0
    for q, f in t.funcs.items():
        for c in calls_in(f):
            if call_name(c) == 'os.path.join' and c.args:
                n += 1
                from ..astutil import expand_locals
                chk.check('C06.R4', f'tmpfiles.{q}', c,
                          unparse(expand_locals(f, c.args[0])) ==
                          f'{tdname}.name',
                          'a temporary path is not placed inside the '
                          'self-removing directory', loc=t.loc(c),
                          nontrivial=True)
    chk.floor('C06.R4', 'temporary path constructions', n, 3)
    # the directory object is not closed/cleaned early
    for m in prog.pkg_modules():
        for c in ast.walk(m.tree):
            if isinstance(c, ast.Call) and isinstance(
                    c.func, ast.Attribute) and c.func.attr == 'cleanup':
                chk.info('C06.R4', f'explicit cleanup() call at {m.loc(c)}')
    # TMP writes stay in TMP: (informational)
    for e in effects:
        if e.writes and e.prov <= {'TMP'}:
            pass


# --------------------------------------------------------------------- R6
def sigint_findings(mod, worker_inits=()):
    """(call, why) for every change of the SIGINT disposition in ``mod``
    after which an interrupt no longer raises KeyboardInterrupt in the
    process that executes it."""
    out = []
    ncalls = 0
    for fn in ast.walk(mod.tree):
        if not isinstance(fn, (ast.FunctionDef, ast.Module)):
            continue
        if isinstance(fn, ast.FunctionDef) and fn.name in worker_inits:
            continue  # runs in the pool's worker processes only
        body_calls = [c for c in (walk_no_nested(fn) if isinstance(
            fn, ast.FunctionDef) else ast.iter_child_nodes(fn))
                      if isinstance(c, ast.Call)] if isinstance(
                          fn, ast.FunctionDef) else [
                              c for st in fn.body
                              if not isinstance(st, (ast.FunctionDef,
                                                     ast.ClassDef))
                              for c in ast.walk(st)
                              if isinstance(c, ast.Call)]
        sig = [c for c in body_calls
               if (call_name(c) or '') in ('signal.signal', )
               and len(c.args) == 2 and unparse(c.args[0]).endswith(
                   'SIGINT')]
        if not sig:
            continue
        ncalls += len(sig)
        sig.sort(key=lambda c: (c.lineno, c.col_offset))
        # names holding a previous disposition
        saved = set()
        for st in ast.walk(fn):
            if isinstance(st, ast.Assign) and isinstance(
                    st.value, ast.Call) and (call_name(st.value) or '') in (
                        'signal.signal', 'signal.getsignal'):
                for t in st.targets:
                    if isinstance(t, ast.Name):
                        saved.add(t.id)
        for k, c in enumerate(sig):
            h = unparse(c.args[1])
            if h.endswith('SIG_DFL'):
                out.append((c, 'SIGINT is set to SIG_DFL: from here on an '
                            'interrupt kills the process at once instead of '
                            'raising KeyboardInterrupt - main()\'s handler, '
                            'the finalisers and the removal of the '
                            'temporary directory are skipped (Python\'s '
                            'disposition is signal.default_int_handler; '
                            'restore the value signal.signal() returned)'))
            elif h.endswith('SIG_IGN'):
                later = [unparse(c2.args[1]) for c2 in sig[k + 1:]]
                restored = any(
                    l in saved or l.endswith('default_int_handler')
                    for l in later)
                if not restored:
                    out.append((c, 'SIGINT is ignored and the previous '
                                'disposition is not restored in this '
                                'function: the process can no longer be '
                                'interrupted in an orderly way'))
    return out, ncalls


def rule_r8(chk, prog):
    chk.rule('C06.R8', 'the paths the user gave are the paths ddSMT works '
             'with: the input-file and output-file options are not '
             'reassigned after parsing, except to an absolute / normalised '
             'spelling of the same option (no symlink resolution, no value '
             'derived from the other path)')
    pv = Provenance(prog)
    n = 0
    for m in prog.pkg_modules():
        if 'tests' in m.rel() or m.name == 'options':
            continue
        for st in ast.walk(m.tree):
            tg = []
            if isinstance(st, ast.Assign):
                tg = st.targets
            elif isinstance(st, ast.AugAssign):
                tg = [st.target]
            for t in tg:
                o = opt_read(t)
                if o not in ('infile', 'outfile'):
                    continue
                n += 1
                fn = st
                while fn is not None and not isinstance(fn,
                                                        ast.FunctionDef):
                    fn = getattr(fn, '_parent', None)
                val = st.value
                prov = pv.of(m, fn, val)
                want = 'INFILE' if o == 'infile' else 'OUTFILE'
                resolving = [c for c in ast.walk(val) if isinstance(
                    c, ast.Call) and (call_name(c) or '').split('.')[-1] in (
                        'realpath', 'readlink', 'resolve', 'samefile')]
                # locals: follow one level for the resolving calls
                if fn is not None:
                    for x in ast.walk(val):
                        if isinstance(x, ast.Name):
                            for d in ast.walk(fn):
                                if isinstance(d, ast.Assign) and any(
                                        isinstance(t2, ast.Name)
                                        and t2.id == x.id
                                        for t2 in d.targets):
                                    resolving += [
                                        c for c in ast.walk(d.value)
                                        if isinstance(c, ast.Call) and (
                                            call_name(c) or '').split(
                                                '.')[-1] in ('realpath',
                                                             'readlink',
                                                             'resolve')]
                # the other path must not flow into this one at all (not
                # even as a "fragment" such as its base name)
                other = 'infile' if o == 'outfile' else 'outfile'
                seen_n, work_e, mixes = set(), [val], False
                while work_e:
                    e_ = work_e.pop()
                    for x in ast.walk(e_):
                        if opt_read(x) == other:
                            mixes = True
                        if isinstance(x, ast.Name) and fn is not None and \
                                x.id not in seen_n:
                            seen_n.add(x.id)
                            for d in ast.walk(fn):
                                if isinstance(d, ast.Assign) and any(
                                        isinstance(t2, ast.Name)
                                        and t2.id == x.id
                                        for t2 in d.targets):
                                    work_e.append(d.value)
                if mixes:
                    prov = set(prov) | {f'mentions {other}'}
                ok = prov == {want} and not resolving
                chk.check('C06.R8', f'{m.name}.'
                          f'{fn._qualname if fn is not None else ""}', st,
                          ok, f'"{unparse(st)[:70]}" replaces the {o} '
                          f'option by a value with provenance '
                          f'{sorted(prov)}'
                          + (' through symlink resolution' if resolving
                             else '')
                          + ': the file that is read, written or handed to '
                          'the command is no longer the one the user named '
                          '(an output derived from the input\'s name can be '
                          'the input itself; a resolved input has another '
                          'name and extension)', loc=m.loc(st),
                          nontrivial=True)
    chk.instance('C06.R8', 'scope', f'{n} reassignments of the path options',
                 True, 'zero-count rule (witnesses: C01_30, C09_30)')


def rule_r6(chk, prog):
    chk.rule('C06.R6', 'the main process keeps Python\'s SIGINT disposition '
             '(KeyboardInterrupt): it is never set to SIG_DFL, and ignored '
             'only between a save and a restore of the previous handler')
    n = 0
    worker_inits = set()
    for m in prog.pkg_modules():
        for c in ast.walk(m.tree):
            if isinstance(c, ast.Call):
                v = kw(c, 'initializer')
                if v is not None:
                    worker_inits.add(unparse(v).split('.')[-1])
    for m in prog.pkg_modules():
        if 'tests' in m.rel():
            continue
        fs, k = sigint_findings(m, worker_inits)
        n += k
        for (c, why) in fs:
            fn = _fn(c)
            q = fn._qualname if fn is not None else '<module>'
            chk.check('C06.R6', f'{m.name}.{q}', c, False, why,
                      loc=m.loc(c), nontrivial=True)
    # zero-count rule: the detector must fire on the fixture
    import os
    from ..loader import Module
    from ..report import VERIF
    fx = os.path.join(VERIF, 'fixtures', 'sigint_disposition.py')
    if not os.path.isfile(fx):
        raise AnalysisError('fixture fixtures/sigint_disposition.py missing')
    fm = Module('fixture', fx, open(fx).read())
    fs, k = sigint_findings(fm)
    where = sorted({_fn(c).name for (c, _) in fs})
    if where != ['bad_default', 'bad_ignore_forever']:
        raise AnalysisError('C06.R6 self-check: the SIGINT fixture is '
                            f'judged {where}')
    chk.instance('C06.R6', 'package', f'{n} changes of the SIGINT '
                 'disposition examined; fixture: 2 planted defects '
                 'detected, save/restore idiom accepted', True,
                 'zero-count rule with positive example')


def run(tier):
    prog = Program()
    chk = Check(
        PROP, 'other', tier,
        clauses_decided=[
            'output file replaced only by rename of a closed sibling '
            'temporary (atomic publish)',
            'no write effect on the input file',
            'KeyboardInterrupt reaches main() unswallowed',
            'temporary directory removal is tied to the process lifetime',
            'every adoption is followed by a write of the adopted input '
            '(shared with C05.R5)',
        ],
        clauses_not_decided=[
            'SIGKILL vs the temporary directory (nobody can clean up)',
            'file-system specific rename semantics; power loss (no fsync '
            'demanded: the property speaks of interrupt/kill of ddSMT)',
        ],
        assumptions=['os.replace / rename(2) within one directory is atomic'])
    effects = inventory(prog)
    chk.guard(rule_r1, chk, prog, effects)
    chk.guard(rule_r2, chk, prog, effects)
    chk.guard(rule_r3, chk, prog)
    chk.guard(rule_r4, chk, prog, effects)
    from . import c05
    chk.guard(c05.rule_adopt_write, chk, prog, 'C06.R5')
    chk.guard(rule_r6, chk, prog)
    chk.guard(rule_r8, chk, prog)
    # nobody else publishes anything: a write of the output file outside
    # the adoption sites (say, in a finally block of the driver) replaces
    # the last accepted input by something older (shared with C01.R2)
    from . import c01
    sub01 = Check('C01', 'other', tier, [], [])
    chk.guard(c01.rule_r2, sub01, prog)
    Check.restrict(sub01, lambda wh, what: 'write_smtlib_to_file' in what)
    chk.adopt('C06.R7', 'the output file is written at the adoption sites '
              'only, with the adopted list: after an interrupt it holds the '
              'last accepted input (shared with the write part of C01.R2)',
              sub01)
    from .. import idkeys
    chk.guard(idkeys.report, chk, prog, 'C06.R9', 'no object address (builtin id()) outlives the function that took it: none keys a module-level or object-level container, is stored on an object or put into a record',
              'the text written for a candidate is the cached text of a freed one: the file handed on is not the rendering of an accepted input')
    # what is written is what was accepted (shared with C05.R4: the result a
    # worker reports as accepted is the list it had checked)
    from . import c05 as _c05b
    sub05b = Check('C05', 'other', tier, [], [])
    chk.guard(_c05b.rule_r4, sub05b, prog)
    Check.restrict(sub05b, lambda wh, what: str(what).startswith(
        ('Result(', '(False,', '(True,')))
    chk.adopt('C06.R10', 'the list a worker reports as accepted is the list '
              'the command has just accepted, so the file written from it '
              'holds an accepted input (shared with the echo part of '
              'C05.R4)', sub05b)
    from . import c05 as _c05w
    sub05w = Check('C05', 'other', tier, [], [])
    chk.guard(_c05w.rule_r9, sub05w, prog)
    chk.adopt('C06.R11', 'a failed write of the output file is not '
              'swallowed (no status value that a caller may ignore, no '
              'return inside finally): after an interrupt the file holds '
              'the LAST accepted input, not an older one (shared with '
              'C05.R9)', sub05w)
    extra = None
    if tier == 'thorough':
        from .. import selftest
        extra = selftest.run_for(PROP)
    return chk.finish(extra)
