"""C07 - rendering and re-parsing is the identity, in every output mode.
Partial, level 'other': the renderer contract (verbatim, once, in order,
separated, not post-processed, alphabet agreement with the reader)."""
import ast

from ..astutil import (call_name, calls_in, walk_no_nested, params_of, kw,
                       is_const, opt_read, single_defs)
from ..cfg import (cfg_of, loop_body_paths, expr_owner_node, facts_at,
                   enumerate_paths)
from ..loader import Program, AnalysisError, unparse
from ..pathutil import (path_method_calls, facts_before, describe_path,
                        node_calls)
from ..report import Check

PROP = 'C07'

EMITTERS = ('__write_smtlib', '__write_smtlib_pretty')


def _writes(f, fileparam):
    return [c for c in ast.walk(f) if isinstance(c, ast.Call) and isinstance(
        c.func, ast.Attribute) and c.func.attr == 'write' and unparse(
            c.func.value) == fileparam]


def _ws_locals(f):
    """Locals of f that only ever hold white space (indentation)."""
    res = set()
    cands = {}
    for st in walk_no_nested(f):
        if isinstance(st, ast.Assign) and len(st.targets) == 1 and isinstance(
                st.targets[0], ast.Name):
            cands.setdefault(st.targets[0].id, []).append(st.value)
        if isinstance(st, ast.AugAssign) and isinstance(st.target, ast.Name):
            cands.setdefault(st.target.id, []).append(st.value)
    for name, vals in cands.items():
        ok = True
        for v in vals:
            if isinstance(v, ast.Constant) and isinstance(
                    v.value, str) and v.value.strip(' \t') == '':
                continue
            if isinstance(v, ast.Subscript) and unparse(v.value) == name:
                continue
            if isinstance(v, ast.BinOp) and isinstance(v.op, ast.Add) and \
                    unparse(v.left) == name and isinstance(
                        v.right, ast.Constant) and isinstance(
                            v.right.value, str) and v.right.value.strip(
                                ' ') == '':
                continue
            ok = False
        if ok:
            res.add(name)
    return res


def classify_write_arg(f, a, wsl, nodevar):
    """List of pieces: ('const', text) | ('leaf', expr) | ('node', expr) |
    ('ws', name) | ('bad', text)."""
    pieces = []
    if isinstance(a, ast.Constant) and isinstance(a.value, str):
        return [('const', a.value)]
    if isinstance(a, ast.JoinedStr):
        for p in a.values:
            if isinstance(p, ast.Constant):
                pieces.append(('const', str(p.value)))
            else:
                if p.format_spec is not None or p.conversion != -1:
                    pieces.append(('bad', unparse(p)))
                    continue
                pieces.extend(classify_write_arg(f, p.value, wsl, nodevar))
        return pieces
    t = unparse(a)
    if t == f'{nodevar}.data':
        return [('leaf', t)]
    if t == f'{nodevar}.data[0]':
        return [('head', t)]
    if t == nodevar:
        return [('node', t)]
    if isinstance(a, ast.Name) and a.id in wsl:
        return [('ws', a.id)]
    if isinstance(a, ast.Call) and call_name(a) == 'str' and len(
            a.args) == 1:
        return classify_write_arg(f, a.args[0], wsl, nodevar)
    if isinstance(a, ast.BinOp) and isinstance(a.op, ast.Add):
        return classify_write_arg(f, a.left, wsl, nodevar) + \
            classify_write_arg(f, a.right, wsl, nodevar)
    return [('bad', t)]


def _popvar(loop, work):
    for st in ast.walk(loop):
        if isinstance(st, ast.Assign) and isinstance(
                st.value, ast.Call) and isinstance(
                    st.value.func, ast.Attribute) and \
                st.value.func.attr == 'pop' and unparse(
                    st.value.func.value) == work:
            t = st.targets[0]
            return t.elts[0].id if isinstance(t, ast.Tuple) else t.id
    raise AnalysisError('renderer: popped variable not found')


def rule_emitters(chk, prog, reader_ws):
    chk.rule('C07.R1', 'leaf text reaches the file verbatim (identity / '
             'plain interpolation only)')
    chk.rule('C07.R2', 'each node is emitted exactly once, children pushed '
             'completely and in order (head written separately only for '
             'lists with a leaf head)')
    chk.rule('C07.R3', 'separators: no two leaves adjacent without white '
             'space; a comment is followed by a newline; consecutive '
             'top-level expressions are separated')
    m = prog.mod('nodeio')
    for fname in EMITTERS:
        f = m.func(fname)
        where = f'nodeio.{fname}'
        ps = params_of(f)
        filep = ps[0]
        cfg = cfg_of(f)
        loops = [n for n in walk_no_nested(f) if isinstance(n, ast.While)]
        if len(loops) != 1 or not isinstance(loops[0].test, ast.Name):
            raise AnalysisError(f'{fname}: work-list loop not recognised')
        loop = loops[0]
        work = loop.test.id
        head = cfg.node_of[id(loop)]
        ex = _popvar(loop, work)
        wsl = _ws_locals(f)
        pretty = 'pretty' in fname
        flagvar = None
        for st in walk_no_nested(f):
            if isinstance(st, ast.Assign) and isinstance(
                    st.targets[0], ast.Name) and isinstance(
                        st.value, ast.Constant) and isinstance(
                            st.value.value, bool):
                flagvar = st.targets[0].id
        # R1: all write arguments
        ws = _writes(f, filep)
        chk.floor('C07.R1', f'write sites in {fname}', len(ws), 4)
        for w in ws:
            if len(w.args) != 1:
                chk.check('C07.R1', where, w, False, 'write with != 1 arg',
                          loc=m.loc(w))
                continue
            pcs = classify_write_arg(f, w.args[0], wsl, ex)
            bad = [p for p in pcs if p[0] == 'bad']
            chk.check('C07.R1', where, w, not bad,
                      f'leaf text is transformed on its way to the file: '
                      f'{[b[1] for b in bad]} (only the node\'s own text, '
                      'plain interpolation and constant separators may be '
                      'written)', loc=m.loc(w), nontrivial=True)
            for p in pcs:
                if p[0] == 'const':
                    okc = all(c in ' \t\n()' for c in p[1])
                    chk.check('C07.R1', where, f'constant {p[1]!r}', okc,
                              f'constant {p[1]!r} written by the renderer is '
                              'neither a bracket nor white space: it becomes '
                              'a token of its own or part of one',
                              loc=m.loc(w), nontrivial=True)
        # per-path obligations
        paths = loop_body_paths(cfg, loop)
        nit = 0
        for p in paths:
            if p.end is not head:
                if p.end in (cfg.exit, cfg.raise_exit) and not isinstance(
                        p.nodes[-2].ast, ast.Assert):
                    chk.check('C07.R2', where, describe_path(p), False,
                              'the renderer can stop before the work list '
                              'is empty', loc=m.loc(loop))
                continue
            nit += 1
            desc = describe_path(p)
            facts = set(p.facts)
            wr = [(i, n, c) for (i, n, c) in path_method_calls(
                p, recv=filep, attr='write')]
            pieces = []
            for (i, n, c) in wr:
                for pc in classify_write_arg(f, c.args[0], wsl, ex):
                    pieces.append((i, pc))
            pushes = [(i, n, c) for (i, n, c) in path_method_calls(p)
                      if unparse(c.func.value) == work
                      and c.func.attr in ('append', 'extend')]
            is_leaf = (f'{ex}.is_leaf()', True) in facts
            not_leaf = (f'{ex}.is_leaf()', False) in facts
            closing = (f'{ex} is None', True) in facts or ('visited',
                                                           True) in facts
            abstract = []
            for (i, pc) in pieces:
                if pc[0] == 'const':
                    for ch in pc[1]:
                        abstract.append({'(': 'LP', ')': 'RP', ' ': 'WS',
                                         '\t': 'WS', '\n': 'NL'}.get(ch,
                                                                     'X'))
                elif pc[0] in ('leaf', 'head'):
                    abstract.append('LEAF')
                elif pc[0] == 'node':
                    abstract.append('NODE')
                elif pc[0] == 'ws':
                    abstract.append('WS?')
            # --- R2
            if closing and not is_leaf:
                ok = abstract.count('RP') == 1 and 'LEAF' not in abstract \
                    and not pushes
                chk.check('C07.R2', where, f'{desc}: close', ok,
                          'closing a list must write exactly one ")" and '
                          'nothing else', loc=m.loc(loop), nontrivial=True)
            elif is_leaf:
                empty = (f"{ex}.data == ''", True) in facts
                nleaf = abstract.count('LEAF')
                ok = (nleaf == 0 and empty) or (nleaf == 1 and not pushes)
                chk.check('C07.R2', where, f'{desc}: leaf', ok,
                          f'a leaf must be written exactly once (found '
                          f'{nleaf} emissions; only the empty leaf may be '
                          'skipped)', loc=m.loc(loop), nontrivial=True)
                comment = (f"{ex}.data[0] == ';'", True) in facts
                if comment and nleaf == 1:
                    k = abstract.index('LEAF')
                    ok = 'NL' in abstract[k + 1:] and 'NL' in abstract[:k]
                    chk.check('C07.R3', where, f'{desc}: comment line', ok,
                              'a comment leaf must be written on a line of '
                              'its own (newline before and after): '
                              'otherwise it swallows what follows or is '
                              'glued to a token', loc=m.loc(loop),
                              nontrivial=True)
                if not comment and nleaf == 1 and (
                        f"{ex}.data[0] == ';'", False) not in facts:
                    chk.check('C07.R3', where, f'{desc}: comment test',
                              False, 'a leaf is written without testing '
                              'whether it is a comment', loc=m.loc(loop),
                              nontrivial=True)
            elif not_leaf or pushes:
                if 'NODE' in abstract:
                    # whole node through Node.__str__ (flat list)
                    ok = not pushes and abstract.count('NODE') == 1
                    chk.check('C07.R2', where, f'{desc}: flat list', ok,
                              'a node written through str() must not also '
                              'be traversed', loc=m.loc(loop),
                              nontrivial=True)
                    continue
                txt = ' ; '.join(unparse(c) for (i, n, c) in pushes)
                all_children = f'reversed({ex}.data)' in txt
                tail_children = f'reversed({ex}.data[1:])' in txt
                head_written = any(pc[0] == 'head' for (_, pc) in pieces)
                has_ident = (f'{ex}.has_ident()', True) in facts
                marker = any(
                    (isinstance(c.args[0], ast.Constant)
                     and c.args[0].value is None)
                    or (isinstance(c.args[0], ast.Tuple) and is_const(
                        c.args[0].elts[-1], True))
                    for (i, n, c) in pushes if c.func.attr == 'append')
                ok = abstract.count('LP') == 1 and marker and (
                    (all_children and not head_written) or
                    (tail_children and head_written and has_ident))
                why = []
                if abstract.count('LP') != 1:
                    why.append(f'{abstract.count("LP")} "(" written')
                if not marker:
                    why.append('no closing marker pushed')
                if tail_children and not (head_written and has_ident):
                    why.append('children [1:] pushed without the head being '
                               'written under has_ident(): the first child '
                               'of a list whose head is not a leaf is lost')
                if not all_children and not tail_children:
                    why.append('children not pushed reversed and complete')
                if all_children and head_written:
                    why.append('head written and pushed again')
                chk.check('C07.R2', where, f'{desc}: open list', ok,
                          '; '.join(why), loc=m.loc(loop), nontrivial=True)
            else:
                chk.check('C07.R2', where, f'{desc}: unclassified path',
                          False, 'iteration path handles neither a leaf, a '
                          'list nor a closing marker', loc=m.loc(loop))
            # --- R3 separators (compact emitter: needs_space protocol)
            if not pretty and flagvar:
                emits_tok = any(a in ('LEAF', 'LP', 'NODE')
                                for a in abstract)
                if emits_tok:
                    tested = (flagvar, True) in facts or (flagvar,
                                                          False) in facts
                    sep_ok = True
                    if (flagvar, True) in facts:
                        first_tok = min(k for k, a in enumerate(abstract)
                                        if a in ('LEAF', 'LP', 'NODE'))
                        sep_ok = any(a in ('WS', 'NL')
                                     for a in abstract[:first_tok])
                    chk.check('C07.R3', where, f'{desc}: separator before '
                              'token', tested and sep_ok,
                              'a token is written without consulting the '
                              '"needs space" flag, or without a separator '
                              'when the flag is set: two leaves are glued '
                              'into one token', loc=m.loc(loop),
                              nontrivial=True)
                if 'LEAF' in abstract or 'RP' in abstract:
                    chk.check('C07.R3', where, f'{desc}: flag after '
                              'leaf/close', p.env.get(flagvar) is True,
                              f'after writing a leaf or ")" the flag '
                              f'"{flagvar}" is not set: the next leaf is '
                              'glued to this one', loc=m.loc(loop),
                              nontrivial=True)
            if pretty and any(a in ('LEAF', 'LP', 'RP', 'NODE')
                              for a in abstract):
                # every pretty emission ends its line
                chk.check('C07.R3', where, f'{desc}: line per emission',
                          abstract[-1] == 'NL',
                          'a pretty-printed item does not end with a newline',
                          loc=m.loc(loop), nontrivial=True)
        chk.floor('C07.R2', f'iteration paths of {fname}', nit, 5)
    # Node.__str__
    nm = prog.mod('nodes')
    s = nm.func('Node.__str__')
    rets = [r for r in walk_no_nested(s) if isinstance(r, ast.Return)]
    txts = sorted(unparse(r.value) for r in rets)
    ok = txts == sorted(["self.data",
                         "'(' + ' '.join(map(str, self.data)) + ')'"])
    chk.check('C07.R1', 'nodes.Node.__str__', 'verbatim text / "(" + '
              'space-joined children + ")"', ok,
              f'Node.__str__ returns {txts}', loc=nm.loc(s), nontrivial=True)


def rule_callers(chk, prog):
    m = prog.mod('nodeio')
    # for_checking: separator between top-level expressions
    f = m.func('write_smtlib_for_checking')
    where = 'nodeio.write_smtlib_for_checking'
    cfg = cfg_of(f)
    loops = [l for l in walk_no_nested(f) if isinstance(l, ast.For)]
    ok = len(loops) == 1
    if ok:
        head = cfg.node_of[id(loops[0])]
        for p in loop_body_paths(cfg, loops[0]):
            if p.end is not head:
                continue
            calls = [c for n in p.nodes[:-1] for c in node_calls(n)]
            names = [call_name(c) or unparse(c.func) for c in calls]
            k = [i for i, nme in enumerate(names)
                 if nme == '__write_smtlib']
            sep = [i for i, c in enumerate(calls)
                   if isinstance(c.func, ast.Attribute)
                   and c.func.attr == 'write' and c.args and isinstance(
                       c.args[0], ast.Constant) and c.args[0].value in (
                           '\n', ' ')]
            ok = ok and len(k) == 1 and any(i > k[0] for i in sep)
    chk.check('C07.R3', where, 'separator after each top-level expression',
              ok, 'consecutive top-level expressions are written without a '
              'separator: two adjacent top-level leaves p, q reach the '
              'command as one token "pq" while the output file has them on '
              'two lines', loc=m.loc(f), nontrivial=True)
    # write_smtlib: no post-processing of rendered text
    chk.rule('C07.R4', 'rendered text is not post-processed (no re-flowing, '
             'splitting, stripping or substitution between renderer and '
             'file)')
    w = m.func('write_smtlib')
    where = 'nodeio.write_smtlib'
    tainted = set()
    deny_mod = ('textwrap.', 're.')
    deny_meth = ('split', 'strip', 'rstrip', 'lstrip', 'replace', 'join',
                 'splitlines', 'expandtabs', 'format', 'lower', 'upper',
                 'translate', 'ljust', 'rjust', 'center', 'zfill')
    changed = True
    stmts = [st for st in walk_no_nested(w) if isinstance(st, ast.Assign)]
    while changed:
        changed = False
        for st in stmts:
            src = unparse(st.value)
            if '__write_smtlib_str(' in src or '__write_smtlib_pretty_str(' \
                    in src or any(t in {x.id for x in ast.walk(st.value)
                                        if isinstance(x, ast.Name)}
                                  for t in tainted):
                for t in st.targets:
                    if isinstance(t, ast.Name) and t.id not in tainted:
                        tainted.add(t.id)
                        changed = True
    n = 0
    for c in ast.walk(w):
        if not isinstance(c, ast.Call):
            continue
        nm_ = call_name(c) or ''
        names = {x.id for a in list(c.args) + [k.value for k in c.keywords]
                 for x in ast.walk(a) if isinstance(x, ast.Name)}
        # lambda parameters fed from tainted iterables
        lam = getattr(c, '_parent', None)
        while lam is not None and not isinstance(lam, (ast.Lambda,
                                                       ast.stmt)):
            lam = getattr(lam, '_parent', None)
        lam_tainted = False
        if isinstance(lam, ast.Lambda):
            mp = getattr(lam, '_parent', None)
            if isinstance(mp, ast.Call) and call_name(mp) in ('map',
                                                              'filter'):
                if any(isinstance(x, ast.Name) and x.id in tainted
                       for a in mp.args[1:] for x in ast.walk(a)):
                    lam_tainted = True
        uses = bool(names & tainted) or lam_tainted
        if not uses:
            continue
        is_meth = isinstance(c.func, ast.Attribute) and \
            c.func.attr in deny_meth
        if nm_.startswith(deny_mod) or is_meth:
            n += 1
            chk.check('C07.R4', where, c, False,
                      f'rendered text passes through {nm_ or c.func.attr}: '
                      'textwrap re-flows white space inside string literals '
                      'and quoted symbols, breaks tokens at hyphens and '
                      'lets a comment swallow the rest of its expression',
                      loc=m.loc(c), nontrivial=True)
    chk.instance('C07.R4', where, f'tainted names {sorted(tainted)}; '
                 f'{n} transforming call(s)', n == 0,
                 'taint from renderer output to file.write', nontrivial=True)
    # every line written is followed by a newline; pretty branch renders
    # each expression with the pretty emitter
    ok = False
    for st in ast.walk(w):
        if isinstance(st, ast.For) and unparse(st.iter) in tainted:
            ws = [unparse(c.args[0]) for c in calls_in(st) if isinstance(
                c.func, ast.Attribute) and c.func.attr == 'write']
            ok = ws == [st.target.id, "'\\n'"]
    chk.check('C07.R3', where, 'each rendered expression is followed by a '
              'newline', ok, 'the default branch does not write each '
              'rendered expression followed by "\\n"', loc=m.loc(w),
              nontrivial=True)
    # dispatcher: pretty option -> pretty emitter on every expression;
    # otherwise compact emitter on every expression
    wps = params_of(w)
    exprs_p = wps[1]
    seen_emitters = {}
    for c in ast.walk(w):
        if isinstance(c, ast.Call) and call_name(c) in (
                '__write_smtlib_pretty', '__write_smtlib',
                '__write_smtlib_str', '__write_smtlib_pretty_str'):
            # the element variable passed must range over the parameter
            elem = [a for a in c.args if isinstance(a, ast.Name)
                    and a.id != wps[0]]
            rng = None
            par = getattr(c, '_parent', None)
            while par is not None and par is not w:
                if isinstance(par, ast.For) and elem and any(
                        isinstance(x, ast.Name) and x.id == elem[0].id
                        for x in ast.walk(par.target)):
                    rng = (par.iter, [])
                    break
                if isinstance(par, (ast.ListComp, ast.GeneratorExp)):
                    g = par.generators[0]
                    if elem and any(isinstance(x, ast.Name)
                                    and x.id == elem[0].id
                                    for x in ast.walk(g.target)):
                        rng = (g.iter, g.ifs)
                        break
                par = getattr(par, '_parent', None)
            okc = rng is not None and isinstance(
                rng[0], ast.Name) and rng[0].id == exprs_p and not rng[1] \
                and len(par.generators if not isinstance(par, ast.For)
                        else [1]) == 1
            pretty_branch = ('options.args().pretty_print', True) in \
                facts_at(w, c)
            seen_emitters[call_name(c)] = (okc, pretty_branch, c)
    pretty_ok = any(v[0] and v[1] for k, v in seen_emitters.items()
                    if 'pretty' in k)
    plain_ok = any(v[0] and not v[1] for k, v in seen_emitters.items()
                   if 'pretty' not in k)
    bad_branch = any((('pretty' in k) != v[1])
                     for k, v in seen_emitters.items())
    ok = pretty_ok and plain_ok and not bad_branch
    chk.check('C07.R2', where, 'all expressions rendered in order', ok,
              'not every expression of the list is rendered, in order, by '
              'the emitter selected by --pretty-print (each emitter call '
              'must range over the whole parameter, unfiltered)',
              loc=m.loc(w), nontrivial=True)
    for helper, emitter in (('__write_smtlib_str', '__write_smtlib'),
                            ('__write_smtlib_pretty_str',
                             '__write_smtlib_pretty')):
        h = m.func(helper)
        cs = [call_name(c) for c in calls_in(h)]
        ok = emitter in cs and 'io.StringIO' in cs
        rets = [r for r in walk_no_nested(h) if isinstance(r, ast.Return)]
        ok = ok and len(rets) == 1 and unparse(rets[0].value).endswith(
            '.getvalue()')
        chk.check('C07.R4', f'nodeio.{helper}', 'returns the emitter\'s '
                  'output unchanged', ok, 'helper transforms the rendering',
                  loc=m.loc(h), nontrivial=True)


STR_HELPERS = ('__write_smtlib_str', '__write_smtlib_pretty_str')


def _str_is_recursive(prog):
    """Does Node.__str__ convert its children with str()/format (i.e. is
    the conversion recursive in the nesting depth)?"""
    nm = prog.mod('nodes')
    f = nm.funcs.get('Node.__str__')
    if f is None:
        raise AnalysisError('nodes.Node.__str__ not found')
    for x in ast.walk(f):
        if isinstance(x, ast.Name) and x.id in ('str', 'repr', 'format'):
            return True
        if isinstance(x, ast.FormattedValue):
            return True
        if isinstance(x, ast.BinOp) and isinstance(x.op, ast.Mod):
            return True
        if isinstance(x, ast.Attribute) and x.attr in ('format', '__str__'):
            return True
    return False


def rule_r6(chk, prog):
    chk.rule('C07.R6', 'every text the writers put into the file comes from '
             'the explicit-stack renderers or is a constant separator: no '
             'whole expression is converted with the recursive '
             'Node.__str__ (nesting depth is unbounded)')
    m = prog.mod('nodeio')
    recursive = _str_is_recursive(prog)
    n = 0
    for fname in ('write_smtlib', 'write_smtlib_for_checking'):
        f = m.func(fname)
        where = f'nodeio.{fname}'
        ps = params_of(f)
        exprs_p = ps[1]

        def defs_of(name):
            out = []
            for st in ast.walk(f):
                if isinstance(st, ast.Assign) and any(
                        isinstance(t, ast.Name) and t.id == name
                        for t in st.targets):
                    out.append(('val', st.value))
                if isinstance(st, (ast.For, ast.comprehension)) and \
                        isinstance(st.target, ast.Name) and \
                        st.target.id == name:
                    out.append(('elem', st.iter))
            return out

        def is_exprs_elem(e, depth=0):
            """e is a top-level expression (an element of the parameter)."""
            if depth > 6 or not isinstance(e, ast.Name):
                return False
            return any(k == 'elem' and isinstance(v, ast.Name) and (
                v.id == exprs_p or False) for k, v in defs_of(e.id))

        def classify(e, depth=0):
            """-> set of kinds of the text value e: const, render, nodestr,
            unknown; elem=True: e is an iterable, classify its elements"""
            if depth > 8:
                return {'unknown'}
            if isinstance(e, ast.Constant) and isinstance(e.value, str):
                return {'const'}
            if isinstance(e, ast.Call):
                cn = call_name(e) or ''
                if cn in STR_HELPERS:
                    return {'render'}
                if cn in ('str', 'repr', 'format') and e.args:
                    if is_exprs_elem(e.args[0]):
                        return {'nodestr'}
                    return {'unknown'}
            if isinstance(e, ast.JoinedStr):
                res = {'const'}
                for v in e.values:
                    if isinstance(v, ast.FormattedValue):
                        if is_exprs_elem(v.value):
                            res.add('nodestr')
                        else:
                            res |= classify(v.value, depth + 1)
                return res
            if isinstance(e, ast.IfExp):
                return classify(e.body, depth + 1) | classify(
                    e.orelse, depth + 1)
            if isinstance(e, ast.Name):
                ds = defs_of(e.id)
                if not ds:
                    return {'unknown'}
                res = set()
                for k, v in ds:
                    if k == 'val':
                        res |= classify(v, depth + 1)
                    else:
                        res |= classify_elems(v, depth + 1)
                return res
            return {'unknown'}

        def classify_elems(it, depth):
            if depth > 8:
                return {'unknown'}
            if isinstance(it, (ast.ListComp, ast.GeneratorExp)):
                return classify(it.elt, depth + 1)
            if isinstance(it, ast.Call) and call_name(it) == 'map' and len(
                    it.args) == 2:
                fn, src = it.args
                over_exprs = isinstance(src, ast.Name) and src.id == exprs_p
                if isinstance(fn, ast.Name):
                    if fn.id in STR_HELPERS:
                        return {'render'}
                    if fn.id in ('str', 'repr', 'format') and over_exprs:
                        return {'nodestr'}
                    return {'unknown'}
                if isinstance(fn, ast.Lambda):
                    return classify(fn.body, depth + 1)
            if isinstance(it, ast.Name):
                if it.id == exprs_p:
                    return {'nodestr'}
                res = set()
                for k, v in defs_of(it.id):
                    if k == 'val':
                        res |= classify_elems(v, depth + 1)
                    else:
                        res.add('unknown')
                return res or {'unknown'}
            if isinstance(it, ast.IfExp):
                return classify_elems(it.body, depth + 1) | classify_elems(
                    it.orelse, depth + 1)
            return {'unknown'}

        for c in ast.walk(f):
            if not (isinstance(c, ast.Call) and isinstance(
                    c.func, ast.Attribute) and c.func.attr in (
                        'write', 'writelines') and c.args):
                continue
            n += 1
            if c.func.attr == 'writelines':
                kinds = classify_elems(c.args[0], 0)
            else:
                kinds = classify(c.args[0])
            if 'unknown' in kinds:
                raise AnalysisError(
                    f'C07.R6: {m.loc(c)}: origin of the text written by '
                    f'"{unparse(c)}" is not recognised (kinds {kinds})')
            bad = 'nodestr' in kinds and recursive
            chk.check('C07.R6', where, c, not bad,
                      'a whole top-level expression is converted with '
                      'str()/format, i.e. Node.__str__, which recurses '
                      'once per nesting level: deeply nested inputs (the '
                      'explicit-stack renderers exist for them) raise '
                      'RecursionError instead of being rendered',
                      loc=m.loc(c), nontrivial=True,
                      argument=f'origins {sorted(kinds)}; Node.__str__ '
                      f'recursive: {recursive}')
    chk.floor('C07.R6', 'write calls in the dispatching writers', n, 2)


def rule_r5(chk, prog):
    chk.rule('C07.R5', 'writer/reader alphabet agreement: separators the '
             'writers emit are white space of the reader; the comment '
             'terminator is the one the reader scans for')
    from . import c08
    sub = Check('C08', 'other', 'quick', [], [])
    m, f, cfg, ex, top, states, table = c08.extract_table(sub, prog)
    ws = set()
    for cname, ch in c08.CLASSES.items():
        paths = table[('TOP', cname)]
        skips = True
        for p in paths:
            if any(d[0] == 'pos < size' and d[1] is False
                   for d in p['decisions']):
                continue
            ev = [e for e in p['events'] if e != '<read>'
                  and e.replace(' ', '') != 'pos+=1']
            if ev or p['end'] is not top:
                skips = False
        if skips:
            ws.add(ch)
    for sep in (' ', '\n'):
        chk.check('C07.R5', 'nodeio.parse_smtlib', f'separator {sep!r} is '
                  'reader white space', sep in ws,
                  f'the writers separate tokens with {sep!r} which the '
                  'reader does not skip', loc=m.loc(f), nontrivial=True)
    # comment terminator
    term = set()
    for cname, ch in c08.CLASSES.items():
        for p in table[('COMMENT', cname, 'la=x')]:
            if p['end'] is not states['COMMENT'] and not any(
                    d[0] == 'pos < size' and d[1] is False
                    for d in p['decisions']):
                term.add(ch)
    chk.check('C07.R5', 'nodeio.parse_smtlib', f'comment terminators '
              f'{sorted(term)!r}', term == {'\n'},
              'the writers end a comment with "\\n"; the reader ends it at '
              f'{sorted(term)!r}', loc=m.loc(f), nontrivial=True)


def run(tier):
    prog = Program()
    chk = Check(
        PROP, 'other', tier,
        clauses_decided=[
            'renderer contract R1-R5 on every iteration path of the two '
            'emitters, Node.__str__, the dispatcher and the checking writer',
        ],
        clauses_not_decided=[
            'the round-trip lemma itself (argued in DESIGN.md from R1-R5 and '
            'the reader table of C08, not executed)',
            'trees not produced by the reader (empty leaves, leaves '
            'containing delimiters) - delegated to C15',
        ],
        assumptions=['leaf texts are lexemes of the reader (C08/C15)'])
    chk.guard(rule_emitters, chk, prog, None)
    chk.guard(rule_callers, chk, prog)
    chk.guard(rule_r5, chk, prog)
    chk.guard(rule_r6, chk, prog)
    extra = None
    if tier == 'thorough':
        from .. import selftest
        extra = selftest.run_for(PROP)
    return chk.finish(extra)
