"""C07 - rendering and re-parsing is the identity, in every output mode.
Partial, level 'other': the renderer contract (verbatim, once, in order,
separated, not post-processed, alphabet agreement with the reader)."""
import ast

from ..astutil import (call_name, calls_in, walk_no_nested, params_of, kw,
                       is_const, opt_read, single_defs, module_sentinels)
from ..cfg import (cfg_of, loop_body_paths, expr_owner_node, facts_at,
                   enumerate_paths)
from ..loader import Program, AnalysisError, unparse
from ..pathutil import (path_method_calls, facts_before, describe_path,
                        node_calls)
from ..report import Check

PROP = 'C07'

EMITTERS = ('__write_smtlib', '__write_smtlib_pretty')


def _writes(f, fileparam):
    return [c for c in ast.walk(f) if isinstance(c, ast.Call) and isinstance(
        c.func, ast.Attribute) and c.func.attr == 'write' and unparse(
            c.func.value) == fileparam]


def _ws_locals(f):
    """Locals of f that only ever hold white space (indentation)."""
    res = set()
    cands = {}
    for st in walk_no_nested(f):
        if isinstance(st, ast.Assign) and len(st.targets) == 1 and isinstance(
                st.targets[0], ast.Name):
            cands.setdefault(st.targets[0].id, []).append(st.value)
        if isinstance(st, ast.AugAssign) and isinstance(st.target, ast.Name):
            cands.setdefault(st.target.id, []).append(st.value)
    for name, vals in cands.items():
        ok = True
        for v in vals:
            if isinstance(v, ast.Constant) and isinstance(
                    v.value, str) and v.value.strip(' \t') == '':
                continue
            if isinstance(v, ast.Subscript) and unparse(v.value) == name:
                continue
            if isinstance(v, ast.BinOp) and isinstance(v.op, ast.Add) and \
                    unparse(v.left) == name and isinstance(
                        v.right, ast.Constant) and isinstance(
                            v.right.value, str) and v.right.value.strip(
                                ' ') == '':
                continue
            ok = False
        if ok:
            res.add(name)
    return res


def classify_write_arg(f, a, wsl, nodevar):
    """List of pieces: ('const', text) | ('leaf', expr) | ('node', expr) |
    ('ws', name) | ('bad', text)."""
    pieces = []
    if isinstance(a, ast.Constant) and isinstance(a.value, str):
        return [('const', a.value)]
    if isinstance(a, ast.JoinedStr):
        for p in a.values:
            if isinstance(p, ast.Constant):
                pieces.append(('const', str(p.value)))
            else:
                if p.format_spec is not None or p.conversion != -1:
                    pieces.append(('bad', unparse(p)))
                    continue
                pieces.extend(classify_write_arg(f, p.value, wsl, nodevar))
        return pieces
    t = unparse(a)
    if t == f'{nodevar}.data':
        return [('leaf', t)]
    if t == f'{nodevar}.data[0]':
        return [('head', t)]
    if t == nodevar:
        return [('node', t)]
    if isinstance(a, ast.Name) and a.id in wsl:
        return [('ws', a.id)]
    if isinstance(a, ast.Call) and call_name(a) == 'str' and len(
            a.args) == 1:
        return classify_write_arg(f, a.args[0], wsl, nodevar)
    if isinstance(a, ast.BinOp) and isinstance(a.op, ast.Add):
        return classify_write_arg(f, a.left, wsl, nodevar) + \
            classify_write_arg(f, a.right, wsl, nodevar)
    return [('bad', t)]


def _local_defs(f):
    """name -> list of values of its plain assignments in f"""
    d = {}
    for st in walk_no_nested(f):
        if isinstance(st, ast.Assign) and len(st.targets) == 1 and isinstance(
                st.targets[0], ast.Name):
            d.setdefault(st.targets[0].id, []).append(st.value)
        elif isinstance(st, (ast.AugAssign, ast.For)):
            for y in ast.walk(st.target):
                if isinstance(y, ast.Name):
                    d.setdefault(y.id, []).append(None)
    return d


def _alternatives(f, a, wsl, keep=()):
    """The expression with every local that is bound in several branches
    ("opening = '(' ... opening = f'({head}'") replaced by each of its
    definitions (bounded); locals holding white space and the names in
    ``keep`` stay."""
    from ..astutil import subst
    defs = _local_defs(f)
    names = [x.id for x in ast.walk(a) if isinstance(x, ast.Name)
             and x.id not in wsl and x.id not in keep and x.id in defs
             and all(v is not None for v in defs[x.id])
             and not any(isinstance(y, ast.Call) and isinstance(
                 y.func, ast.Attribute) and y.func.attr in ('pop', 'popleft')
                 for v in defs[x.id] for y in ast.walk(v))]
    names = list(dict.fromkeys(names))
    if not names or len(names) > 3:
        return [a]
    import itertools
    out = []
    for combo in itertools.product(*[defs[n] for n in names]):
        out.append(subst(a, dict(zip(names, combo))))
        if len(out) > 8:
            return [a]
    return out


def _path_subst(p, i, e, keep=()):
    """``e`` with the locals assigned earlier on this path replaced by the
    value of their last assignment before position i."""
    from ..astutil import subst
    env = {}
    for n in p.nodes[:i]:
        a = n.ast
        if n.kind == 'stmt' and isinstance(a, ast.Assign) and len(
                a.targets) == 1 and isinstance(a.targets[0], ast.Name) and \
                a.targets[0].id not in keep and not any(
                    isinstance(y, ast.Call) and isinstance(
                        y.func, ast.Attribute)
                    and y.func.attr in ('pop', 'popleft')
                    for y in ast.walk(a.value)):
            env[a.targets[0].id] = subst(a.value, env)
        elif n.kind == 'stmt' and isinstance(a, (ast.AugAssign, ast.For)):
            for y in ast.walk(a.target):
                if isinstance(y, ast.Name):
                    env.pop(y.id, None)
    used = {x.id for x in ast.walk(e) if isinstance(x, ast.Name)} & set(env)
    return subst(e, {k: env[k] for k in used}) if used else e


def _popvar(loop, work):
    for st in ast.walk(loop):
        if isinstance(st, ast.Assign) and isinstance(
                st.value, ast.Call) and isinstance(
                    st.value.func, ast.Attribute) and \
                st.value.func.attr == 'pop' and unparse(
                    st.value.func.value) == work:
            t = st.targets[0]
            return t.elts[0].id if isinstance(t, ast.Tuple) else t.id
    raise AnalysisError('renderer: popped variable not found')


def rule_emitters(chk, prog, reader_ws):
    chk.rule('C07.R1', 'leaf text reaches the file verbatim (identity / '
             'plain interpolation only)')
    chk.rule('C07.R2', 'each node is emitted exactly once, children pushed '
             'completely and in order (head written separately only for '
             'lists with a leaf head)')
    chk.rule('C07.R3', 'separators: no two leaves adjacent without white '
             'space; a comment is followed by a newline; consecutive '
             'top-level expressions are separated')
    m = prog.mod('nodeio')
    for fname in EMITTERS:
        f = m.func(fname)
        where = f'nodeio.{fname}'
        ps = params_of(f)
        filep = ps[0]
        cfg = cfg_of(f)
        loops = [n for n in walk_no_nested(f) if isinstance(n, ast.While)]
        if len(loops) != 1 or not isinstance(loops[0].test, ast.Name):
            raise AnalysisError(f'{fname}: work-list loop not recognised')
        loop = loops[0]
        work = loop.test.id
        head = cfg.node_of[id(loop)]
        ex = _popvar(loop, work)
        wsl = _ws_locals(f)
        pretty = 'pretty' in fname
        flagvar = None
        for st in walk_no_nested(f):
            if isinstance(st, ast.Assign) and isinstance(
                    st.targets[0], ast.Name) and isinstance(
                        st.value, ast.Constant) and isinstance(
                            st.value.value, bool):
                flagvar = st.targets[0].id
        # R1: all write arguments
        ws = _writes(f, filep)
        chk.floor('C07.R1', f'write sites in {fname}', len(ws), 4)
        for w in ws:
            if len(w.args) != 1:
                chk.check('C07.R1', where, w, False, 'write with != 1 arg',
                          loc=m.loc(w))
                continue
            pcs = []
            for alt in _alternatives(f, w.args[0], wsl, keep=(ex, )):
                pcs.extend(classify_write_arg(f, alt, wsl, ex))
            bad = [p for p in pcs if p[0] == 'bad']
            chk.check('C07.R1', where, w, not bad,
                      f'leaf text is transformed on its way to the file: '
                      f'{[b[1] for b in bad]} (only the node\'s own text, '
                      'plain interpolation and constant separators may be '
                      'written)', loc=m.loc(w), nontrivial=True)
            for p in pcs:
                if p[0] == 'const':
                    okc = all(c in ' \t\n()' for c in p[1])
                    chk.check('C07.R1', where, f'constant {p[1]!r}', okc,
                              f'constant {p[1]!r} written by the renderer is '
                              'neither a bracket nor white space: it becomes '
                              'a token of its own or part of one',
                              loc=m.loc(w), nontrivial=True)
        # per-path obligations
        paths = loop_body_paths(cfg, loop)
        nit = 0
        for p in paths:
            if p.end is not head:
                if p.end in (cfg.exit, cfg.raise_exit) and not isinstance(
                        p.nodes[-2].ast, ast.Assert):
                    chk.check('C07.R2', where, describe_path(p), False,
                              'the renderer can stop before the work list '
                              'is empty', loc=m.loc(loop))
                continue
            nit += 1
            desc = describe_path(p)
            facts = set(p.facts)
            wr = [(i, n, c) for (i, n, c) in path_method_calls(
                p, recv=filep, attr='write')]
            pieces = []
            keep_ = tuple(wsl) + (ex, work)
            for (i, n, c) in wr:
                for pc in classify_write_arg(
                        f, _path_subst(p, i, c.args[0], keep_), wsl, ex):
                    pieces.append((i, pc))
            pushes = [(i, n, c) for (i, n, c) in path_method_calls(p)
                      if unparse(c.func.value) == work
                      and c.func.attr in ('append', 'extend')]
            push_txt = {id(c): unparse(_path_subst(p, i, c, keep_))
                        for (i, n, c) in pushes}
            is_leaf = (f'{ex}.is_leaf()', True) in facts
            not_leaf = (f'{ex}.is_leaf()', False) in facts
            sents = module_sentinels(m)
            closing = (f'{ex} is None', True) in facts or (
                'visited', True) in facts or any(
                    (f'{ex} is {s_}', True) in facts for s_ in sents)
            abstract = []
            for (i, pc) in pieces:
                if pc[0] == 'const':
                    for ch in pc[1]:
                        abstract.append({'(': 'LP', ')': 'RP', ' ': 'WS',
                                         '\t': 'WS', '\n': 'NL'}.get(ch,
                                                                     'X'))
                elif pc[0] in ('leaf', 'head'):
                    abstract.append('LEAF')
                elif pc[0] == 'node':
                    abstract.append('NODE')
                elif pc[0] == 'ws':
                    abstract.append('WS?')
            # --- R2
            if closing and not is_leaf:
                ok = abstract.count('RP') == 1 and 'LEAF' not in abstract \
                    and not pushes
                chk.check('C07.R2', where, f'{desc}: close', ok,
                          'closing a list must write exactly one ")" and '
                          'nothing else', loc=m.loc(loop), nontrivial=True)
            elif is_leaf:
                empty = (f"{ex}.data == ''", True) in facts
                nleaf = abstract.count('LEAF')
                ok = (nleaf == 0 and empty) or (nleaf == 1 and not pushes)
                chk.check('C07.R2', where, f'{desc}: leaf', ok,
                          f'a leaf must be written exactly once (found '
                          f'{nleaf} emissions; only the empty leaf may be '
                          'skipped)', loc=m.loc(loop), nontrivial=True)
                comment = (f"{ex}.data[0] == ';'", True) in facts
                if comment and nleaf == 1:
                    k = abstract.index('LEAF')
                    ok = 'NL' in abstract[k + 1:] and 'NL' in abstract[:k]
                    chk.check('C07.R3', where, f'{desc}: comment line', ok,
                              'a comment leaf must be written on a line of '
                              'its own (newline before and after): '
                              'otherwise it swallows what follows or is '
                              'glued to a token', loc=m.loc(loop),
                              nontrivial=True)
                if not comment and nleaf == 1 and (
                        f"{ex}.data[0] == ';'", False) not in facts:
                    chk.check('C07.R3', where, f'{desc}: comment test',
                              False, 'a leaf is written without testing '
                              'whether it is a comment', loc=m.loc(loop),
                              nontrivial=True)
            elif not_leaf or pushes:
                if 'NODE' in abstract:
                    # whole node through Node.__str__ (flat list)
                    ok = not pushes and abstract.count('NODE') == 1
                    chk.check('C07.R2', where, f'{desc}: flat list', ok,
                              'a node written through str() must not also '
                              'be traversed', loc=m.loc(loop),
                              nontrivial=True)
                    continue
                txt = ' ; '.join(push_txt[id(c)] for (i, n, c) in pushes)
                all_children = f'reversed({ex}.data)' in txt
                tail_children = f'reversed({ex}.data[1:])' in txt
                head_written = any(pc[0] == 'head' for (_, pc) in pieces)
                has_ident = (f'{ex}.has_ident()', True) in facts
                marker = any(
                    (isinstance(c.args[0], ast.Constant)
                     and c.args[0].value is None)
                    or (isinstance(c.args[0], ast.Name)
                        and c.args[0].id in sents)
                    or (isinstance(c.args[0], ast.Tuple) and is_const(
                        c.args[0].elts[-1], True))
                    for (i, n, c) in pushes if c.func.attr == 'append')
                ok = abstract.count('LP') == 1 and marker and (
                    (all_children and not head_written) or
                    (tail_children and head_written and has_ident))
                why = []
                if abstract.count('LP') != 1:
                    why.append(f'{abstract.count("LP")} "(" written')
                if not marker:
                    why.append('no closing marker pushed')
                if tail_children and not (head_written and has_ident):
                    why.append('children [1:] pushed without the head being '
                               'written under has_ident(): the first child '
                               'of a list whose head is not a leaf is lost')
                if not all_children and not tail_children:
                    why.append('children not pushed reversed and complete')
                if all_children and head_written:
                    why.append('head written and pushed again')
                chk.check('C07.R2', where, f'{desc}: open list', ok,
                          '; '.join(why), loc=m.loc(loop), nontrivial=True)
            else:
                chk.check('C07.R2', where, f'{desc}: unclassified path',
                          False, 'iteration path handles neither a leaf, a '
                          'list nor a closing marker', loc=m.loc(loop))
            # --- R3 separators (compact emitter: needs_space protocol)
            if not pretty and flagvar:
                emits_tok = any(a in ('LEAF', 'LP', 'NODE')
                                for a in abstract)
                if emits_tok:
                    tested = (flagvar, True) in facts or (flagvar,
                                                          False) in facts
                    sep_ok = True
                    if (flagvar, True) in facts:
                        first_tok = min(k for k, a in enumerate(abstract)
                                        if a in ('LEAF', 'LP', 'NODE'))
                        sep_ok = any(a in ('WS', 'NL')
                                     for a in abstract[:first_tok])
                    chk.check('C07.R3', where, f'{desc}: separator before '
                              'token', tested and sep_ok,
                              'a token is written without consulting the '
                              '"needs space" flag, or without a separator '
                              'when the flag is set: two leaves are glued '
                              'into one token', loc=m.loc(loop),
                              nontrivial=True)
                if 'LEAF' in abstract or 'RP' in abstract:
                    chk.check('C07.R3', where, f'{desc}: flag after '
                              'leaf/close', p.env.get(flagvar) is True,
                              f'after writing a leaf or ")" the flag '
                              f'"{flagvar}" is not set: the next leaf is '
                              'glued to this one', loc=m.loc(loop),
                              nontrivial=True)
            if pretty and any(a in ('LEAF', 'LP', 'RP', 'NODE')
                              for a in abstract):
                # every pretty emission ends its line
                chk.check('C07.R3', where, f'{desc}: line per emission',
                          abstract[-1] == 'NL',
                          'a pretty-printed item does not end with a newline',
                          loc=m.loc(loop), nontrivial=True)
        chk.floor('C07.R2', f'iteration paths of {fname}', nit, 5)
    # Node.__str__
    nm = prog.mod('nodes')
    s = nm.func('Node.__str__')
    rets = [r for r in walk_no_nested(s) if isinstance(r, ast.Return)]
    txts = sorted(unparse(r.value) for r in rets)
    ok = txts == sorted(["self.data",
                         "'(' + ' '.join(map(str, self.data)) + ')'"])
    chk.check('C07.R1', 'nodes.Node.__str__', 'verbatim text / "(" + '
              'space-joined children + ")"', ok,
              f'Node.__str__ returns {txts}', loc=nm.loc(s), nontrivial=True)


def _is_ws(txt, ws):
    return txt != '' and all(c in ws for c in txt)


def _judge_each(chk, m, f, where, case, trace, want_kind, ws, need_sep,
                recursive):
    """One valuation of the dispatching writer: the trace must be "for each
    expression, in order: [white space] one rendering by the selected
    emitter [white space]"."""
    from ..writer_trace import flatten, show
    tr = flatten(trace)
    # '\n'.join(renderings) is the same sequence with separators between
    norm = []
    for ev in tr:
        if ev[0] == 'joined':
            norm.append(('eachf' if ev[3] else 'each',
                         list(ev[2]) + list(ev[1])))
        else:
            norm.append(ev)
    tr = flatten(norm)
    desc = show(tr) or 'nothing'
    loc = m.loc(f)
    # R4: nothing between renderer and file
    xf = []

    def scan(evs):
        for ev in evs:
            if ev[0] in ('xform', 'badwrite', 'fileop'):
                xf.append(ev)
            if ev[0] in ('each', 'eachf'):
                scan(ev[1])
            if ev[0] == 'xform':
                scan(ev[2])

    scan(tr)
    chk.check('C07.R4', where, f'{case}: rendered text reaches the file '
              'unchanged', not xf,
              'rendered text passes through '
              + ', '.join(str(x[1]) for x in xf) +
              ' before it is written: textwrap re-flows white space inside '
              'string literals and quoted symbols, breaks tokens at '
              'hyphens and lets a comment swallow the rest of its '
              'expression; strip/replace alter literals and comments',
              loc=loc, nontrivial=True, argument=desc)
    ns = []

    def scan2(evs):
        for ev in evs:
            if ev[0] == 'nodestr':
                ns.append(ev)
            if ev[0] in ('each', 'eachf'):
                scan2(ev[1])
            if ev[0] == 'xform':
                scan2(ev[2])

    scan2(tr)
    chk.check('C07.R6', where, f'{case}: no str() of a whole expression',
              not (ns and recursive),
              'a whole top-level expression is converted with str()/format, '
              'i.e. Node.__str__, which recurses once per nesting level: '
              'deeply nested inputs (the explicit-stack renderers exist for '
              'them) raise RecursionError instead of being rendered',
              loc=loc, nontrivial=True, argument=desc)
    if ns and not recursive:
        raise AnalysisError(
            f'{where}: output built with str(expression) and a '
            'non-recursive Node.__str__: equivalence with the renderers is '
            'not modelled')
    if xf or ns:
        return
    # R2: one loop over all expressions, one rendering each, right emitter
    tops = [ev for ev in tr if ev[0] in ('each', 'eachf')]
    extra = [ev for ev in tr if ev[0] not in ('each', 'eachf')
             and not (ev[0] == 'lit' and _is_ws(ev[1], ws))]
    ok = len(tops) == 1 and tops[0][0] == 'each' and not extra
    renders = [ev for ev in (tops[0][1] if tops else [])
               if ev[0] == 'render']
    ok = ok and len(renders) == 1 and renders[0][1] == want_kind
    chk.check('C07.R2', where, f'{case}: all expressions rendered in order',
              ok, f'under {case} the file receives: {desc}; expected: for '
              f'each expression of the list, unfiltered and in order, one '
              f'{want_kind} rendering', loc=loc, nontrivial=True,
              argument=desc)
    if not ok:
        return
    body = tops[0][1]
    idx = body.index(renders[0])
    before, after = body[:idx], body[idx + 1:]
    junk = [ev for ev in before + after
            if not (ev[0] == 'lit' and _is_ws(ev[1], ws))]
    chk.check('C07.R3', where, f'{case}: only white space around each '
              'rendering', not junk,
              f'text other than white space is written next to each '
              f'rendering: {desc}', loc=loc, nontrivial=True, argument=desc)
    if need_sep:
        sep = ''.join(ev[1] for ev in after if ev[0] == 'lit')
        chk.check('C07.R3', where, f'{case}: separator after each top-level '
                  'expression', _is_ws(sep, ws),
                  'consecutive top-level expressions are written without a '
                  'separator: two adjacent top-level leaves p, q reach the '
                  'reader as one token "pq"', loc=loc, nontrivial=True,
                  argument=desc)


def rule_callers(chk, prog):
    from ..writer_trace import trace_function, flatten, show
    from . import c08
    m = prog.mod('nodeio')
    chk.rule('C07.R4', 'rendered text is not post-processed (no re-flowing, '
             'splitting, stripping or substitution between renderer and '
             'file)')
    chk.rule('C07.R6', 'every text the writers put into the file comes from '
             'the explicit-stack renderers or is a constant separator: no '
             'whole expression is converted with the recursive '
             'Node.__str__ (nesting depth is unbounded)')
    recursive = _str_is_recursive(prog)
    ws = set(c08.reader_whitespace(prog))
    # the output writer, under every valuation of the formatting options
    w = m.func('write_smtlib')
    nval = 0
    for pp in (True, False):
        for wl in (True, False):
            rv, traces, reads = trace_function(
                m, 'write_smtlib', {'pretty_print': pp, 'wrap_lines': wl},
                ['FILE', 'EXPRS'])
            nval += 1
            case = f'pretty_print={pp}, wrap_lines={wl}'
            other = {k: v for k, v in traces.items() if k != 'OUT' and v}
            _judge_each(chk, m, w, 'nodeio.write_smtlib', case,
                        traces['OUT'], 'pretty' if pp else 'plain', ws,
                        need_sep=not pp, recursive=recursive)
    # the candidate writer
    fc = m.func('write_smtlib_for_checking')
    rv, traces, reads = trace_function(m, 'write_smtlib_for_checking', {},
                                       ['NAME', 'EXPRS'])
    outs = [k for k in traces if k.startswith('OPENED:')]
    if len(outs) != 1:
        raise AnalysisError('write_smtlib_for_checking: expected exactly '
                            f'one opened file, found {outs}')
    _judge_each(chk, m, fc, 'nodeio.write_smtlib_for_checking', 'checking',
                traces[outs[0]], 'plain', ws, need_sep=True,
                recursive=recursive)
    # the string helpers return the emitter's output unchanged
    for helper, kind, ps in (('__write_smtlib_str', 'plain',
                              ['ELEM', 'WIDTH']),
                             ('__write_smtlib_pretty_str', 'pretty',
                              ['ELEM'])):
        h = m.func(helper)
        rv, traces, reads = trace_function(m, helper, {}, ps)
        got = flatten(rv[1]) if rv[0] == 'text' else None
        ok = got is not None and len(got) == 1 and got[0][0] == 'render' \
            and got[0][1] == kind
        if ok and kind == 'plain':
            ok = got[0][2] == ('param', 'width')
        chk.check('C07.R4', f'nodeio.{helper}', 'returns the emitter\'s '
                  'output unchanged', ok,
                  'helper transforms the rendering: it returns '
                  + (show(got) if got is not None else str(rv)),
                  loc=m.loc(h), nontrivial=True)
    chk.floor('C07.R2', 'valuations of the formatting options', nval, 4)


STR_HELPERS = ('__write_smtlib_str', '__write_smtlib_pretty_str')


def _str_is_recursive(prog):
    """Does Node.__str__ convert its children with str()/format (i.e. is
    the conversion recursive in the nesting depth)?"""
    nm = prog.mod('nodes')
    f = nm.funcs.get('Node.__str__')
    if f is None:
        raise AnalysisError('nodes.Node.__str__ not found')
    for x in ast.walk(f):
        if isinstance(x, ast.Name) and x.id in ('str', 'repr', 'format'):
            return True
        if isinstance(x, ast.FormattedValue):
            return True
        if isinstance(x, ast.BinOp) and isinstance(x.op, ast.Mod):
            return True
        if isinstance(x, ast.Attribute) and x.attr in ('format', '__str__'):
            return True
    return False


def rule_r6(chk, prog):
    """(merged into rule_callers: provenance is read off the output traces)"""
    return


def rule_r7(chk, prog):
    chk.rule('C07.R7', 'the file handed to the command holds exactly the '
             'rendering of the candidate: it is opened afresh for writing '
             '(truncated) by the writer and closed before the writer returns')
    m = prog.mod('nodeio')
    f = m.func('write_smtlib_for_checking')
    where = 'nodeio.write_smtlib_for_checking'
    fname = params_of(f)[0]
    opens = [c for c in calls_in(f) if call_name(c) in ('open', 'io.open')]
    ok = len(opens) == 1
    why = f'{len(opens)} open() calls'
    if ok:
        c = opens[0]
        mode = c.args[1] if len(c.args) > 1 else kw(c, 'mode')
        in_with = isinstance(getattr(c, '_parent', None), ast.withitem)
        ok = bool(c.args) and unparse(c.args[0]) == fname and isinstance(
            mode, ast.Constant) and str(mode.value).startswith('w') and \
            in_with
        why = (f'open({unparse(c.args[0]) if c.args else "?"}, '
               f'{unparse(mode) if mode is not None else "<default r>"})'
               + ('' if in_with else ' outside a with-statement'))
    chk.check('C07.R7', where, 'candidate file opened afresh and closed',
              ok, f'the candidate file is not written through "with '
              f'open({fname}, \'w\')" ({why}): a handle that is kept open '
              'and rewound is not truncated, so a candidate that renders '
              'shorter than the previous one is followed by the tail of the '
              'older text; an unclosed handle may not have flushed when the '
              'command starts', loc=m.loc(f), nontrivial=True)


def rule_r5(chk, prog):
    chk.rule('C07.R5', 'writer/reader alphabet agreement: separators the '
             'writers emit are white space of the reader; the comment '
             'terminator is the one the reader scans for')
    from . import c08
    sub = Check('C08', 'other', 'quick', [], [])
    m, f, cfg, ex, top, states, table = c08.extract_table(sub, prog)
    ws = set()
    for cname, ch in c08.CLASSES.items():
        paths = table[('TOP', cname)]
        skips = True
        for p in paths:
            if any(d[0] == 'pos < size' and d[1] is False
                   for d in p['decisions']):
                continue
            ev = [e for e in p['events'] if e != '<read>'
                  and e.replace(' ', '') != 'pos+=1']
            if ev or p['end'] is not top:
                skips = False
        if skips:
            ws.add(ch)
    for sep in (' ', '\n'):
        chk.check('C07.R5', 'nodeio.parse_smtlib', f'separator {sep!r} is '
                  'reader white space', sep in ws,
                  f'the writers separate tokens with {sep!r} which the '
                  'reader does not skip', loc=m.loc(f), nontrivial=True)
    # comment terminator
    term = set()
    for cname, ch in c08.CLASSES.items():
        for p in table[('COMMENT', cname, 'la=x')]:
            if p['end'] is not states['COMMENT'] and not any(
                    d[0] == 'pos < size' and d[1] is False
                    for d in p['decisions']):
                term.add(ch)
    chk.check('C07.R5', 'nodeio.parse_smtlib', f'comment terminators '
              f'{sorted(term)!r}', term == {'\n'},
              'the writers end a comment with "\\n"; the reader ends it at '
              f'{sorted(term)!r}', loc=m.loc(f), nontrivial=True)


def rule_r10(chk, prog):
    chk.rule('C07.R10', 'the in-memory buffers the renderers write to do no '
             'newline translation: io.StringIO is created with its default '
             'newline ("\\n") or with newline=""')
    m = prog.mod('nodeio')
    n = 0
    for q, f in m.funcs.items():
        for c in calls_in(f):
            if (call_name(c) or '') not in ('io.StringIO', 'StringIO'):
                continue
            n += 1
            nl = kw(c, 'newline')
            if nl is None and len(c.args) > 1:
                nl = c.args[1]
            ok = nl is None or (isinstance(nl, ast.Constant)
                                and nl.value in ('', '\n'))
            chk.check('C07.R10', f'nodeio.{q}', c, ok,
                      f'{unparse(c)}: with newline='
                      f'{unparse(nl) if nl is not None else ""} the buffer '
                      'translates line terminators of everything written to '
                      'it (universal newlines): a carriage return inside a '
                      'comment, string literal or quoted symbol comes out '
                      'as a line feed in the renderings that go through the '
                      'buffer, the token is no longer emitted verbatim',
                      loc=m.loc(c), nontrivial=True)
    chk.floor('C07.R10', 'StringIO buffers in nodeio', n, 2)


def run(tier):
    prog = Program()
    chk = Check(
        PROP, 'other', tier,
        clauses_decided=[
            'renderer contract R1-R5 on every iteration path of the two '
            'emitters, Node.__str__, the dispatcher and the checking writer',
        ],
        clauses_not_decided=[
            'the round-trip lemma itself (argued in DESIGN.md from R1-R5 and '
            'the reader table of C08, not executed)',
            'trees not produced by the reader (empty leaves, leaves '
            'containing delimiters) - delegated to C15',
        ],
        assumptions=['leaf texts are lexemes of the reader (C08/C15)'])
    chk.guard(rule_emitters, chk, prog, None)
    chk.guard(rule_callers, chk, prog)
    chk.guard(rule_r5, chk, prog)
    chk.guard(rule_r6, chk, prog)
    chk.guard(rule_r7, chk, prog)
    # the compact rendering is produced in the worker from a pickled copy,
    # and the accepted list comes back pickled: the hand-written pickle
    # format must carry leaf texts verbatim (shared with C12.R1)
    from . import c12
    sub12 = Check('C12', 'other', tier, [], [])
    chk.guard(c12.rule_r1, sub12, prog)
    # ... of which only the parts that carry text: tags, the leaf record
    # and the cursor (not the hash field or the restored id/hash slots)
    Check.restrict(sub12, lambda wh, what: not any(
        k in what for k in ('hash width', '(id, hash) restored',
                            'slots restored', "b'(': fields")))
    chk.adopt('C07.R8', 'leaf texts cross the process boundary verbatim: '
              'the pickle writer and reader agree on tags, lengths (in '
              'bytes), field order and codec (shared with C12.R1)', sub12)
    from .. import genreuse
    chk.guard(genreuse.rule, chk, prog, 'C07.R9',
              'no one-shot iterator over rendered text or over the '
              'expressions is traversed twice on one path',
              {'nodeio': None, 'nodes': None},
              'the rendering written afterwards is empty or incomplete, '
              'while the other renderings are complete')
    chk.guard(rule_r10, chk, prog)
    from .. import depthrec
    chk.guard(depthrec.report, chk, prog, 'C07.R11',
              'no function of the tree core that renders expressions recurses over the nesting depth (directly, through helpers, generators, tuple comparison, deepcopy or the generic pickler)',
              [('nodeio', 'write_smtlib'), ('nodeio', 'write_smtlib_for_checking'), ('nodeio', 'write_smtlib_to_file'), ('nodeio', 'write_smtlib_to_str'), ('nodeio', '__write_smtlib'), ('nodeio', '__write_smtlib_pretty'), ('nodeio', '__write_smtlib_str')],
              'the renderers raise RecursionError on deeply nested expressions which the reader parses without difficulty: rendering and re-parsing is no longer the identity there')
    # every leaf a mutator builds is one token: otherwise the rendering of
    # the tree does not parse back to the tree
    from . import c15 as _c15
    from ..shape import Summaries as _Summ
    sub15 = Check('C15', 'other', tier, [], [])
    chk.guard(_c15.rule_r3, sub15, prog, _c15.Abs(prog, _Summ(prog)))
    chk.adopt('C07.R12', 'every leaf placed into the tree is a single token '
              '(quotes are dropped only from symbols that are simple as a '
              'whole and non-empty): the rendering parses back to the same '
              'structure (shared with C15.R3)', sub15)
    # the file handed to the command is the rendering of THIS candidate
    from . import c09 as _c09
    sub09 = Check('C09', 'other', tier, [], [])
    chk.guard(_c09.rule_r6, sub09, prog)
    Check.restrict(sub09, lambda wh, what: 'tmpfiles' in str(wh))
    chk.adopt('C07.R13', 'the compact rendering is written to a file name '
              'that no other process or thread writes to (pid and thread id '
              'evaluated per call), so the command reads the rendering of '
              'the candidate being checked (shared with C09.R6)', sub09)
    # every leaf the reader hands out is a complete lexeme
    from . import c08 as _c08

    def _unterminated(chk, prog):
        chk.rule('C07.R14', 'the reader makes no leaf of a string literal or '
                 'quoted symbol that is still open at the end of the text '
                 '(such a leaf is not a token: no rendering of it parses '
                 'back to itself)')
        sub = Check('C08', 'other', tier, [], [])
        tab = _c08.extract_table(sub, prog)
        m_, f_, cfg_, ex_, top_, states_, table_ = tab
        _c08.rule_unterminated(chk, m_, f_, cfg_, top_, states_, table_,
                               'C07.R14')

    chk.guard(_unterminated, chk, prog)
    # what is rendered verbatim was read verbatim (shared with C08.R5)
    sub08 = Check('C08', 'other', tier, [], [])
    chk.guard(_c08.rule_r5, sub08, prog)
    chk.adopt('C07.R15', 'the text the renderers emit verbatim is the text '
              'of the file: the input reaches the reader without newline '
              'translation, re-coding or rewriting (shared with C08.R5)',
              sub08)
    extra = None
    if tier == 'thorough':
        from .. import selftest
        extra = selftest.run_for(PROP)
    return chk.finish(extra)
