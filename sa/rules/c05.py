"""C05 - accepted inputs form a chain; stale parallel results are never
adopted.  Partial, level 'other': latch, batch isolation, rebinding, echo and
adopt->write structure.  Schedules are not explored."""
import ast

from ..astutil import (call_name, calls_in, walk_no_nested, params_of, kw,
                       is_const, opt_read, expand_locals, single_defs)
from ..cfg import (cfg_of, loop_body_paths, expr_owner_node, reaching_defs,
                   enumerate_paths, facts_at)
from ..loader import Program, AnalysisError, unparse
from ..pathutil import (path_method_calls, facts_before, describe_path,
                        node_calls)
from ..report import Check

PROP = 'C05'


def _fn(node):
    n = getattr(node, '_parent', None)
    while n is not None:
        if isinstance(n, ast.FunctionDef):
            return n
        n = getattr(n, '_parent', None)
    return None


def drain_loops(prog):
    """[(module, function, For loop)] iterating pool.imap_unordered(...)
    (directly, or a variable assigned from it)."""
    res = []
    for modname in ('strategy_ddmin', 'strategy_hierarchical'):
        m = prog.mod(modname)
        for q, f in m.funcs.items():
            for loop in walk_no_nested(f):
                if not isinstance(loop, ast.For):
                    continue
                it = loop.iter
                direct = isinstance(it, ast.Call) and isinstance(
                    it.func, ast.Attribute) and it.func.attr in (
                        'imap_unordered', 'imap', 'map')
                via = None
                if isinstance(it, ast.Name):
                    for st in walk_no_nested(f):
                        if isinstance(st, ast.Assign) and any(
                                isinstance(t, ast.Name) and t.id == it.id
                                for t in st.targets) and isinstance(
                                    st.value, ast.Call) and isinstance(
                                        st.value.func, ast.Attribute) and \
                                st.value.func.attr in ('imap_unordered',
                                                       'imap'):
                            via = st
                if direct or via is not None:
                    res.append((m, f, loop, via))
    return res


_DRAIN = []


def adoption_sites(m, f):
    """Adoption sites in a strategy function:
    ddmin: taskgen.update(X); hierarchical: rebinding of the current input
    from a result (exprs = ...task.exprs...)."""
    sites = []
    for c in ast.walk(f):
        if isinstance(c, ast.Call) and isinstance(
                c.func, ast.Attribute) and c.func.attr == 'update' and \
                isinstance(c.func.value, ast.Name) and \
                c.func.value.id == 'taskgen':
            sites.append(('update', c))
    # hierarchical: the current input is the variable handed to Producer as
    # its ``original``; an assignment to it inside a result loop is an
    # adoption
    cur = set()
    for c in ast.walk(f):
        if isinstance(c, ast.Call) and call_name(c) == 'Producer':
            a = c.args[2] if len(c.args) > 2 else kw(c, 'original')
            if isinstance(a, ast.Name):
                cur.add(a.id)
    for st in ast.walk(f):
        if isinstance(st, ast.Assign) and len(st.targets) == 1 and isinstance(
                st.targets[0], ast.Name) and st.targets[0].id in cur:
            lp = getattr(st, '_parent', None)
            inloop = False
            while lp is not None and lp is not f:
                if isinstance(lp, ast.For) and isinstance(
                        lp.iter, (ast.Call, ast.Name)) and 'imap' in unparse(
                            lp.iter) or (isinstance(lp, ast.For) and any(
                                lp is l_ for (_, _, l_, _) in _DRAIN)):
                    inloop = True
                lp = getattr(lp, '_parent', None)
            if inloop:
                sites.append(('rebind', st))
    return sites


def output_writes(prog):
    """Calls resolving to nodeio.write_smtlib_to_file anywhere."""
    res = []
    nio = prog.mod('nodeio')
    for m in list(prog.modules.values()):
        for c in ast.walk(m.tree):
            if isinstance(c, ast.Call) and isinstance(
                    c.func, (ast.Name, ast.Attribute)):
                r = prog.resolve_expr(m, c.func)
                if r and r[0] == 'func' and r[1] is nio and \
                        r[2] == 'write_smtlib_to_file':
                    res.append((m, c))
                elif (call_name(c) or '').endswith('write_smtlib_to_file') \
                        and not r:
                    res.append((m, c))
    return res


def _is_outfile(f, e):
    e2 = expand_locals(f, e)
    return opt_read(e2) == 'outfile'


def _general_latch(f, loop, p, i0, before):
    """A latch is any local V with: a constant initialisation c0 in front of
    the drain loop (inside the restart loop), a test of V among the facts of
    the adoption path that holds for c0, and an assignment on the adoption
    path after which that test fails (V := constant, or V := <index> + k
    with k >= 1 for a test "V >= 0" / "V < 0" / "V == -1" style - task ids
    are list indices, hence non-negative).  Returns the name or None."""
    from ..shape import parse_expr
    # initialisations before the loop in the same block
    par = getattr(loop, '_parent', None)
    inits = {}
    for fld in ('body', 'orelse'):
        blk = getattr(par, fld, None)
        if isinstance(blk, list) and loop in blk:
            for st in blk[:blk.index(loop)]:
                if isinstance(st, ast.Assign) and len(
                        st.targets) == 1 and isinstance(
                            st.targets[0], ast.Name) and isinstance(
                                st.value, (ast.Constant, ast.UnaryOp)):
                    try:
                        inits[st.targets[0].id] = ast.literal_eval(st.value)
                    except ValueError:
                        pass
    for n in p.nodes[i0:-1]:
        a = n.ast
        if not (n.kind == 'stmt' and isinstance(a, ast.Assign) and len(
                a.targets) == 1 and isinstance(a.targets[0], ast.Name)
                and a.targets[0].id in inits):
            continue
        v = a.targets[0].id
        c0 = inits[v]
        # value after adoption: constant or lower bound
        after = None
        lo = None
        try:
            after = ('const', ast.literal_eval(a.value))
        except ValueError:
            if isinstance(a.value, ast.BinOp) and isinstance(
                    a.value.op, ast.Add):
                for x, y in ((a.value.left, a.value.right),
                             (a.value.right, a.value.left)):
                    if isinstance(y, ast.Constant) and isinstance(
                            y.value, int) and unparse(x).endswith(
                                ('.task_id', '.index', '.nodeid')):
                        lo = y.value  # index >= 0
        for (t, pol) in before:
            e = parse_expr(t)
            if e is None:
                continue
            names = {x.id for x in ast.walk(e) if isinstance(x, ast.Name)}
            if names != {v}:
                continue
            try:
                holds0 = bool(eval(compile(ast.Expression(e), '<f>', 'eval'),
                                   {'__builtins__': {}}, {v: c0})) == pol
            except Exception:
                continue
            if not holds0:
                continue
            closed = False
            if after is not None:
                try:
                    closed = bool(eval(compile(ast.Expression(e), '<f>',
                                               'eval'),
                                       {'__builtins__': {}},
                                       {v: after[1]})) != pol
                except Exception:
                    closed = False
            elif lo is not None and isinstance(e, ast.Compare) and len(
                    e.ops) == 1 and isinstance(
                        e.comparators[0], (ast.Constant, ast.UnaryOp)):
                try:
                    c = ast.literal_eval(e.comparators[0])
                except ValueError:
                    continue
                op = e.ops[0]
                # V in [lo, inf): truth of "V op c" if constant over it
                truth = None
                if isinstance(op, ast.GtE) and lo >= c:
                    truth = True
                elif isinstance(op, ast.Gt) and lo > c:
                    truth = True
                elif isinstance(op, ast.Lt) and lo >= c:
                    truth = False
                elif isinstance(op, ast.LtE) and lo > c:
                    truth = False
                elif isinstance(op, ast.Eq) and c < lo:
                    truth = False
                elif isinstance(op, ast.NotEq) and c < lo:
                    truth = True
                if truth is not None:
                    closed = truth != pol
            if closed:
                return v
    return None


# ------------------------------------------------------------------ R1/R2
def rule_r1_r2(chk, prog):
    chk.rule('C05.R1', 'one adoption per batch: the adoption block is '
             'entered only with the latch unset, sets it on every path, and '
             'the latch is cleared only outside the drain loop')
    chk.rule('C05.R2', 'each batch is read from its own imap_unordered '
             'call (created inside the restart loop)')
    loops = drain_loops(prog)
    chk.floor('C05.R1', 'result-drain loops', len(loops), 2)
    for (m, f, loop, via) in loops:
        where = f'{m.name}.{f._qualname}'
        cfg = cfg_of(f)
        head = cfg.node_of[id(loop)]
        # the latch of this loop
        if m.name == 'strategy_ddmin':
            latch_unset = ('skip', False)
            latch_set_env = ('skip', True)
        else:
            latch_unset = ('abort_flag.is_set()', False)
            latch_set_env = None
        sites = adoption_sites(m, f)
        site_nodes = {}
        for kind, s in sites:
            n = expr_owner_node(cfg, s) if not isinstance(
                s, ast.stmt) else cfg.node_of.get(id(s))
            if n is not None:
                site_nodes[n] = (kind, s)
        chk.floor('C05.R1', f'adoption sites in {where}', len(site_nodes), 1)
        paths = loop_body_paths(cfg, loop)
        nad = 0
        for p in paths:
            hits = [(i, n) for i, n in enumerate(p.nodes[:-1])
                    if n in site_nodes]
            if not hits:
                continue
            nad += 1
            i0, n0 = hits[0]
            before = set(facts_before(p, i0))
            desc = describe_path(p)
            ok = latch_unset in before
            glatch = None
            if m.name == 'strategy_ddmin' and not ok:
                glatch = _general_latch(f, loop, p, i0, before)
                ok = glatch is not None
            chk.check('C05.R1', where, f'{desc}: latch open at adoption', ok,
                      f'a result is adopted without the batch latch being '
                      f'tested unset ({latch_unset[0]} must be false): a '
                      'second success of the same batch - computed against '
                      'the input the first success just replaced - is '
                      'adopted too and silently undoes it', loc=m.loc(
                          site_nodes[n0][1]), nontrivial=True)
            if glatch is not None:
                ok2 = True  # closing assignment on this path (see helper)
            elif latch_set_env:
                ok2 = p.env.get(latch_set_env[0]) is latch_set_env[1]
            else:
                ok2 = any(unparse(c.func.value) == 'abort_flag'
                          and c.func.attr == 'set'
                          for (i, n, c) in path_method_calls(p))
            chk.check('C05.R1', where, f'{desc}: latch set by adoption', ok2,
                      'the adoption path does not set the latch: the next '
                      'success of the same batch is adopted as well',
                      loc=m.loc(site_nodes[n0][1]), nontrivial=True)
            # success tested on the same result object
            if m.name == 'strategy_ddmin':
                ok3 = ('result.success', True) in before
            else:
                ok3 = ('success', True) in before
            chk.check('C05.R1', where, f'{desc}: success of this result',
                      ok3, 'the adoption is not dominated by a truthy test '
                      'of the success field of the result being read',
                      loc=m.loc(site_nodes[n0][1]), nontrivial=True)
        chk.floor('C05.R1', f'adoption paths in {where}', nad, 1)
        # latch cleared only outside the drain loop
        for st in ast.walk(loop):
            bad = None
            if m.name == 'strategy_ddmin':
                if isinstance(st, ast.Assign) and any(
                        isinstance(t, ast.Name) and t.id == 'skip'
                        for t in st.targets) and not is_const(st.value,
                                                              True):
                    bad = st
                if isinstance(st, ast.Call) and isinstance(
                        st.func, ast.Attribute) and st.func.attr == 'clear' \
                        and 'abort' in unparse(st.func.value):
                    bad = st
            else:
                if isinstance(st, ast.Call) and isinstance(
                        st.func, ast.Attribute) and st.func.attr == 'clear' \
                        and 'abort' in unparse(st.func.value):
                    bad = st
            if bad is not None:
                chk.check('C05.R1', where, bad, False,
                          'the batch latch is cleared inside the result '
                          'loop: results of the old batch that are still in '
                          'flight are adopted against the new input',
                          loc=m.loc(bad), nontrivial=True)
        # R2: iterator created inside the enclosing while of this for
        enc = getattr(loop, '_parent', None)
        while enc is not None and not isinstance(enc, (ast.While,
                                                       ast.FunctionDef)):
            enc = getattr(enc, '_parent', None)
        ok = isinstance(enc, ast.While)
        if ok and via is not None:
            p_ = getattr(via, '_parent', None)
            inside = False
            while p_ is not None and p_ is not f:
                if p_ is enc:
                    inside = True
                p_ = getattr(p_, '_parent', None)
            ok = inside
        chk.check('C05.R2', where, f'for ... in {unparse(loop.iter)[:50]}',
                  ok, 'the result iterator is not created afresh inside the '
                  'restart loop: results of different batches mix',
                  loc=m.loc(loop), nontrivial=True)
        # no result object stored across iterations
        tgt = loop.target.id if isinstance(loop.target, ast.Name) else None
        for st in ast.walk(loop):
            if isinstance(st, ast.Call) and isinstance(
                    st.func, ast.Attribute) and st.func.attr in (
                        'append', 'add') and tgt and any(
                            isinstance(x, ast.Name) and x.id == tgt
                            for a in st.args for x in ast.walk(a)):
                chk.check('C05.R2', where, st, False,
                          'a result object is stored beyond its batch',
                          loc=m.loc(st))


# --------------------------------------------------------------------- R3
def rule_r3(chk, prog):
    chk.rule('C05.R3', 'the task source is rebound to the adopted input '
             'before it is used again (ddmin: update re-pickles the new '
             'input, reset+start; hierarchical: a new Producer per sweep, '
             'pickling exactly its argument)')
    dm = prog.mod('strategy_ddmin')
    upd = dm.func('TaskGenerator.update')
    ps = params_of(upd)
    newp = ps[1]
    cfg = cfg_of(upd)
    # self.exprs = <param> on every path
    INB, OUTB = cfg.must_backward(gen=lambda n: ['set-exprs'] if (
        n.kind == 'stmt' and isinstance(n.ast, ast.Assign)
        and unparse(n.ast.targets[0]) == 'self.exprs'
        and unparse(n.ast.value) == newp) else [])
    ok = 'set-exprs' in (OUTB.get(cfg.entry) or ())
    chk.check('C05.R3', 'strategy_ddmin.TaskGenerator.update',
              f'self.exprs = {newp} on every path', ok,
              'update() does not store the new input on every path',
              loc=dm.loc(upd), nontrivial=True)
    # every pickle.dumps in update pickles the NEW input
    dumps = [c for c in calls_in(upd) if call_name(c) == 'pickle.dumps']
    chk.floor('C05.R3', 'pickle.dumps in TaskGenerator.update', len(dumps), 1)
    RD = reaching_defs(cfg, ps)
    for c in dumps:
        a = c.args[0]
        good = unparse(a) == newp
        if unparse(a) == 'self.exprs':
            # allowed only if self.exprs was already rebound on every path
            n = expr_owner_node(cfg, c)
            IN, _ = cfg.must_forward(gen=lambda n_: ['set-exprs'] if (
                n_.kind == 'stmt' and isinstance(n_.ast, ast.Assign)
                and unparse(n_.ast.targets[0]) == 'self.exprs'
                and unparse(n_.ast.value) == newp) else [])
            good = 'set-exprs' in (IN.get(n) or ())
        chk.check('C05.R3', 'strategy_ddmin.TaskGenerator.update', c, good,
                  'the pickled base handed to parallel workers is not the '
                  'newly adopted input (pickled before self.exprs was '
                  'rebound): the next tasks are built against the previous '
                  'input, every second adoption re-introduces what the '
                  'previous one removed', loc=dm.loc(c), nontrivial=True)
    # ... and it is re-pickled on every path on which a pickled base is in
    # use: the only way around pickle.dumps is "there is no pickled base"
    np_ = 0
    for p in enumerate_paths(cfg, cfg.entry, lambda n_: n_ is cfg.exit):
        if p.end is not cfg.exit:
            continue
        np_ += 1
        dumped = any(
            n_.kind == 'stmt' and isinstance(n_.ast, ast.Assign)
            and unparse(n_.ast.targets[0]) == 'self.pickled_exprs'
            and isinstance(n_.ast.value, ast.Call)
            and call_name(n_.ast.value) == 'pickle.dumps' for n_ in p.nodes)
        unused = any((t, pol) in (('self.pickled_exprs is not None', False),
                                  ('self.pickled_exprs is None', True),
                                  ('self.pickled_exprs', False),
                                  ('not self.pickled_exprs', True))
                     for (t, pol) in p.facts)
        chk.check('C05.R3', 'strategy_ddmin.TaskGenerator.update',
                  f'{describe_path(p)}: re-pickled unless no pickled base',
                  dumped or unused,
                  'update() can return without re-pickling although a '
                  'pickled base is in use: after reset() the tasks of the '
                  'restarted batch are built from the superseded input and '
                  'their results are adopted as if they had been checked '
                  'against the current one', loc=dm.loc(upd),
                  nontrivial=True)
    chk.floor('C05.R3', 'paths through TaskGenerator.update', np_, 2)
    # the condition under which it is re-pickled mirrors __init__
    init = dm.func('TaskGenerator.__init__')
    sets = [st for st in walk_no_nested(init) if isinstance(st, ast.Assign)
            and unparse(st.targets[0]) == 'self.pickled_exprs']
    chk.check('C05.R3', 'strategy_ddmin.TaskGenerator.__init__',
              'pickled base = dumps(exprs) or None',
              sorted(unparse(s.value) for s in sets) == [
                  'None', f'pickle.dumps({params_of(init)[1]})'],
              'unexpected initialisation of the pickled base',
              loc=dm.loc(init), nontrivial=True)
    # __next__ hands out the pickled base iff present, else the live list
    nx = dm.func('TaskGenerator.__next__')
    scopes = [nx]
    for c in calls_in(nx):
        # construction delegated to a method of the generator (one level)
        if isinstance(c.func, ast.Attribute) and isinstance(
                c.func.value, ast.Name) and c.func.value.id == 'self':
            q = f'TaskGenerator.{c.func.attr}'
            if q in dm.funcs and dm.funcs[q] not in scopes:
                scopes.append(dm.funcs[q])
    tasks = [(sc, c) for sc in scopes for c in calls_in(sc)
             if call_name(c) == 'Task']
    chk.floor('C05.R3', 'Task constructions in __next__', len(tasks), 2)
    for (sc, c) in tasks:
        base = unparse(c.args[1])
        facts = facts_at(sc, c)
        if base == 'self.pickled_exprs':
            ok = ('self.pickled_exprs', True) in facts
        else:
            ok = base == 'self.exprs'
        chk.check('C05.R3', 'strategy_ddmin.TaskGenerator.__next__', c, ok,
                  'a task is not based on the generator\'s current input',
                  loc=dm.loc(c), nontrivial=True)
    # _check_par: after the drain loop, if the latch was set: clear, reset to
    # the subset after the adopted one, start
    cp = dm.func('_check_par')
    ccfg = cfg_of(cp)
    IN, _ = ccfg.guard_facts()
    need = {'reset': None, 'start': None, 'clear': None}
    for c in calls_in(cp):
        if isinstance(c.func, ast.Attribute) and c.func.attr in need:
            need[c.func.attr] = c
    for k, c in need.items():
        ok = c is not None
        if ok:
            # lexically in the true branch of "if <abort flag>.is_set()",
            # outside the for loop (the flag fact itself is killed by
            # clear(), so dominance of the branch is what is checked)
            ok = False
            child = c
            par = getattr(c, '_parent', None)
            while par is not None and par is not cp:
                if isinstance(par, ast.If) and 'abort_flag.is_set()' in \
                        unparse(par.test) and not unparse(
                            par.test).startswith('not ') and any(
                                child is b or child in list(ast.walk(b))
                                for b in par.body):
                    ok = True
                child = par
                par = getattr(par, '_parent', None)
            par = getattr(c, '_parent', None)
            while par is not None and par is not cp:
                if isinstance(par, ast.For):
                    ok = False
                par = getattr(par, '_parent', None)
        chk.check('C05.R3', 'strategy_ddmin._check_par', f'taskgen.{k}() '
                  'after a latched batch', ok,
                  f'{k}() is not executed (outside the result loop) when a '
                  'batch ended with an adoption: the generator keeps '
                  'producing from a stopped/old state', loc=dm.loc(cp),
                  nontrivial=True)
    if need['reset'] is not None:
        chk.check('C05.R3', 'strategy_ddmin._check_par', need['reset'],
                  unparse(need['reset'].args[0]) == 'start_index',
                  'reset() is not given the restart index', loc=dm.loc(cp))
    # stop() before update() inside the adoption block
    for c in calls_in(cp):
        if isinstance(c.func, ast.Attribute) and c.func.attr == 'update' \
                and unparse(c.func.value) == 'taskgen':
            n = expr_owner_node(ccfg, c)
            marks = {}
            for c2 in calls_in(cp):
                if isinstance(c2.func, ast.Attribute) and \
                        c2.func.attr == 'stop':
                    marks[expr_owner_node(ccfg, c2)] = 'stop'
            INd, _ = ccfg.dominators_facts(marks)
            chk.check('C05.R3', 'strategy_ddmin._check_par',
                      'generator stopped before it is updated',
                      'stop' in (INd.get(n) or ()),
                      'taskgen.update() is not dominated by taskgen.stop(): '
                      'the pool\'s task thread may build tasks from a '
                      'half-updated generator', loc=dm.loc(c),
                      nontrivial=True)
    # hierarchical: Producer built inside the sweep loop from the current
    # input; pickles exactly its argument
    hm = prog.mod('strategy_hierarchical')
    hr = hm.func('reduce')
    prods = [c for c in calls_in(hr) if call_name(c) == 'Producer']
    chk.floor('C05.R3', 'Producer constructions', len(prods), 1)
    for c in prods:
        par = getattr(c, '_parent', None)
        inwhile = False
        while par is not None and par is not hr:
            if isinstance(par, ast.While):
                inwhile = True
            par = getattr(par, '_parent', None)
        init = hm.func('Producer.__init__')
        ips = params_of(init)
        arg = c.args[2] if len(c.args) > 2 else kw(c, ips[3])
        # the argument is the variable rebound at the adoption site
        rebinds = [s for k, s in adoption_sites(hm, hr) if k == 'rebind']
        same = arg is not None and any(
            unparse(s.targets[0]) == unparse(arg) for s in rebinds)
        chk.check('C05.R3', 'strategy_hierarchical.reduce', c,
                  inwhile and same,
                  'the Producer is not rebuilt per sweep from the variable '
                  'that holds the adopted input: tasks of the next sweep '
                  'are generated from a superseded input', loc=hm.loc(c),
                  nontrivial=True)
        # also the generator call is made on this producer with skip
    pinit = hm.func('Producer.__init__')
    ips = params_of(pinit)
    orig = ips[3]
    assigns = {unparse(st.targets[0]): unparse(st.value)
               for st in walk_no_nested(pinit) if isinstance(st, ast.Assign)}
    pick = [k for k, v in assigns.items() if v == f'pickle.dumps({orig})']
    keep = [k for k, v in assigns.items() if v == orig]
    chk.check('C05.R3', 'strategy_hierarchical.Producer.__init__',
              'pickles exactly its argument', len(pick) == 1
              and len(keep) == 1,
              'the producer does not keep and pickle exactly the input it '
              f'was built from (assignments: {assigns})', loc=hm.loc(pinit),
              nontrivial=True)
    if pick and keep:
        mn = hm.func('Producer.__mutate_node')
        for c in calls_in(mn):
            if call_name(c) == 'Task':
                chk.check('C05.R3',
                          'strategy_hierarchical.Producer.__mutate_node', c,
                          unparse(c.args[2]) == pick[0],
                          'a task does not carry the pickled input of its '
                          'own producer', loc=hm.loc(c), nontrivial=True)
            if isinstance(c.func, ast.Attribute) and \
                    c.func.attr == 'global_mutations':
                chk.check('C05.R3',
                          'strategy_hierarchical.Producer.__mutate_node', c,
                          len(c.args) == 2 and unparse(c.args[1]) == keep[0],
                          'global proposals are computed against something '
                          'other than the producer\'s own input',
                          loc=hm.loc(c), nontrivial=True)
        gen = hm.func('Producer.generate')
        walks = [c for c in calls_in(gen) if call_name(c) in ('nodes.bfs',
                                                              'nodes.dfs')]
        chk.check('C05.R3', 'strategy_hierarchical.Producer.generate',
                  'walks its own input', len(walks) == 1 and unparse(
                      walks[0].args[0]) == keep[0],
                  'the node walk does not range over the producer\'s input',
                  loc=hm.loc(gen), nontrivial=True)


# --------------------------------------------------------------------- R4
def result_constructions(prog):
    """[(module, function, construction node, success expr, exprs expr)]"""
    res = []
    dm = prog.mod('strategy_ddmin')
    # field positions of Result
    fields = None
    for name, vals in dm.globals.items():
        if name == 'Result' and vals and isinstance(vals[0], ast.Call):
            fl = vals[0].args[1]
            fields = [e.value for e in fl.elts]
    if not fields or 'success' not in fields or 'exprs' not in fields:
        raise AnalysisError('strategy_ddmin.Result namedtuple not recognised')
    si, ei = fields.index('success'), fields.index('exprs')
    for q, f in dm.funcs.items():
        for c in calls_in(f):
            if call_name(c) == 'Result':
                vals = list(c.args) + [None] * (len(fields) - len(c.args))
                for k_ in c.keywords:
                    if k_.arg in fields:
                        vals[fields.index(k_.arg)] = k_.value
                if len(c.args) > len(fields) or any(v is None for v in vals):
                    raise AnalysisError(f'Result(...) arity at {dm.loc(c)}')
                res.append((dm, f, c, vals[si], vals[ei]))
    hm = prog.mod('strategy_hierarchical')
    tfields = None
    for name, vals in hm.globals.items():
        if name == 'Task' and vals and isinstance(vals[0], ast.Call):
            tfields = [e.value for e in vals[0].args[1].elts]
    if not tfields or 'exprs' not in tfields:
        raise AnalysisError('strategy_hierarchical.Task not recognised')
    tei = tfields.index('exprs')
    hm.func('Consumer.check')
    for q, f in hm.funcs.items():
        if not q.startswith('Consumer.'):
            continue
        for t in ast.walk(f):
            if isinstance(t, ast.Tuple) and len(t.elts) == 2 and isinstance(
                    t.elts[1], ast.Call) and call_name(t.elts[1]) == 'Task':
                tc = t.elts[1]
                vals = list(tc.args) + [None] * (len(tfields) - len(tc.args))
                for k_ in tc.keywords:
                    if k_.arg in tfields:
                        vals[tfields.index(k_.arg)] = k_.value
                if vals[tei] is None:
                    raise AnalysisError(f'Task(...) arity at {hm.loc(tc)}')
                res.append((hm, f, t, t.elts[0], vals[tei]))
    return res


def rule_r4(chk, prog, rid='C05.R4'):
    chk.rule(rid, 'workers echo what they checked: a result tagged '
             'successful carries exactly the list for which check_exprs '
             'returned true; failures carry no list; the base comes from '
             'the task')
    cons = result_constructions(prog)
    chk.floor(rid, 'result constructions', len(cons), 4)
    nsucc = 0
    for (m, f, node, succ, ex) in cons:
        where = f'{m.name}.{f._qualname}'
        if isinstance(succ, ast.Constant) and succ.value is False:
            ok = unparse(ex) in ('[]', 'None')
            chk.check(rid, where, node, ok,
                      'a result tagged unsuccessful carries an expression '
                      f'list ("{unparse(ex)}") that later code could adopt',
                      loc=m.loc(node), nontrivial=True)
            continue
        nsucc += 1
        facts = facts_at(f, node)
        cfg = cfg_of(f)
        n = expr_owner_node(cfg, node)
        RD = reaching_defs(cfg, params_of(f))
        # the fact: check_exprs(V) true, directly or through a local
        cands = []
        for (t, pol) in sorted(facts):
            if not pol:
                continue
            try:
                e = ast.parse(t, mode='eval').body
            except SyntaxError:
                continue
            if isinstance(e, ast.Call) and (call_name(e) or '').endswith(
                    'check_exprs') and e.args:
                cands.append((unparse(e.args[0]), None))
            if isinstance(e, ast.Name):
                ds = (RD.get(n) or {}).get(e.id) or ()
                ds = [d for d in ds if d != 'param']
                if len(ds) == 1 and isinstance(ds[0].ast, ast.Assign):
                    v = ds[0].ast.value
                    if isinstance(v, ast.Call) and (call_name(v) or
                                                    '').endswith(
                                                        'check_exprs'):
                        cands.append((unparse(v.args[0]), ds[0]))
        ok = bool(cands)
        msg = ('a result is tagged successful without being dominated by a '
               'true outcome of checker.check_exprs')
        if ok:
            ok = isinstance(succ, ast.Constant) and succ.value is True or \
                unparse(succ) != 'False'
            same = False
            for checked in cands:
                same1 = unparse(ex) == checked[0]
                # no redefinition of the list between the check and the tag
                if same1 and isinstance(ex, ast.Name):
                    if checked[1] is not None:
                        d1 = (RD.get(checked[1]) or {}).get(ex.id)
                    else:
                        d1 = None
                    d2 = (RD.get(n) or {}).get(ex.id)
                    if d1 is not None and d1 != d2:
                        same1 = False
                same = same or same1
            ok = ok and same
            msg = (f'the list shipped as accepted ("{unparse(ex)}") is not '
                   'the very list that was checked ("'
                   f'{sorted(c[0] for c in cands)[0][:80]}"): the '
                   'parent adopts something the command never ran on')
        chk.check(rid, where, node, ok, msg, loc=m.loc(node),
                  nontrivial=True,
                  argument='dominating true test of check_exprs(V) and the '
                  'shipped list is the same definition of V')
    chk.floor(rid, 'successful result constructions', nsucc, 2)
    # base comes from the task
    dm = prog.mod('strategy_ddmin')
    w = dm.func('_worker')
    cfg = cfg_of(w)
    RD = reaching_defs(cfg, params_of(w))
    tpar = params_of(w)[0]
    # the cache: the (module-level) name that receives the unpickled base
    cache_var = None
    for st in walk_no_nested(w):
        if isinstance(st, ast.Assign) and unparse(
                st.value) == f'pickle.loads({tpar}.exprs)' and isinstance(
                    st.targets[0], ast.Name):
            cache_var = st.targets[0].id
    def applies_to_first_param(c):
        """the callee (a function of the package) hands its first
        parameter to apply_simp as the base"""
        if not isinstance(c.func, (ast.Name, ast.Attribute)):
            return False
        try:
            r = prog.resolve_expr(dm, c.func)
        except Exception:
            r = None
        if not (r and r[0] == 'func'):
            return False
        g = r[1].funcs.get(r[2])
        if g is None or not params_of(g):
            return False
        return any((call_name(x) or '').split('.')[-1] == 'apply_simp'
                   and x.args and unparse(x.args[0]) == params_of(g)[0]
                   for x in calls_in(g))

    simp_calls = [c for c in calls_in(w) if (call_name(c) or '').split(
        '.')[-1] in ('_simp', 'apply_simp') or applies_to_first_param(c)]
    chk.floor(rid, '_simp calls in _worker', len(simp_calls), 1)
    for c in simp_calls:
        n = expr_owner_node(cfg, c)
        base = c.args[0]
        ds = (RD.get(n) or {}).get(base.id, ()) if isinstance(
            base, ast.Name) else ()
        vals = sorted(unparse(d.ast.value) for d in ds if d != 'param'
                      and isinstance(d.ast, ast.Assign))
        ok = len(vals) == 2 and f'{tpar}.exprs' in vals and all(
            v == f'{tpar}.exprs' or v == cache_var for v in vals)
        chk.check(rid, 'strategy_ddmin._worker', c, ok,
                  f'the base a worker applies proposals to comes from '
                  f'{vals}; expected the task (directly or through the '
                  'digest-checked cache)', loc=dm.loc(c), nontrivial=True)
    # cache read dominated by the hash comparison / refresh
    reads = [n for n in cfg.nodes if n.kind == 'stmt' and isinstance(
        n.ast, ast.Assign) and unparse(n.ast.value) == cache_var]
    if cache_var is None or not reads:
        raise AnalysisError('strategy_ddmin._worker: worker-side cache of '
                            'the unpickled base not recognised')
    for rn in reads:
        paths = enumerate_paths(cfg, cfg.entry, lambda x: x is rn)
        okc = True
        for p in paths:
            if p.end is not rn:
                continue
            # local digest of the task's base on this path
            dig = [unparse(n.ast.targets[0]) for n in p.nodes
                   if n.kind == 'stmt' and isinstance(n.ast, ast.Assign)
                   and unparse(n.ast.value) == f'hash({tpar}.exprs)']
            fresh = any(n.kind == 'stmt' and isinstance(n.ast, ast.Assign)
                        and unparse(n.ast.targets[0]) == cache_var
                        and unparse(n.ast.value) ==
                        f'pickle.loads({tpar}.exprs)' for n in p.nodes)
            hv = bool(dig)
            d = dig[-1] if dig else '?'
            # the remembered digest: a module-level name compared with d
            samehash = False
            remembered = None
            for (t, pol) in p.facts:
                for (a, b, eq) in ((f' == {d}', None, True),
                                   (f' != {d}', None, False)):
                    if t.endswith(a):
                        remembered = t[:-len(a)]
                        if pol == eq:
                            samehash = True
                for (a, eq) in ((f'{d} == ', True), (f'{d} != ', False)):
                    if t.startswith(a):
                        remembered = t[len(a):]
                        if pol == eq:
                            samehash = True
            upd = remembered is not None and any(
                n.kind == 'stmt' and isinstance(n.ast, ast.Assign)
                and unparse(n.ast.targets[0]) == remembered
                and unparse(n.ast.value) == d for n in p.nodes)
            if not (hv and ((fresh and upd) or (samehash and not fresh))):
                okc = False
        chk.check(rid, 'strategy_ddmin._worker', rn.ast, okc,
                  'the worker-side cache is read without comparing the '
                  'digest of the task\'s base (or refreshing cache and '
                  'digest together): a worker applies proposals to a stale '
                  'input', loc=dm.loc(rn.ast), nontrivial=True)
    hm = prog.mod('strategy_hierarchical')
    cc = hm.func('Consumer.check')
    ap = [c for c in calls_in(cc) if call_name(c) == 'apply_simp']
    from ..astutil import expand_locals
    tpar = params_of(cc)[-1]
    ok = len(ap) == 1 and unparse(expand_locals(cc, ap[0].args[0])) == \
        f'pickle.loads({tpar}.exprs)'
    chk.check(rid, 'strategy_hierarchical.Consumer.check',
              'proposal applied to the task\'s own base', ok,
              'the consumer applies the proposal to something other than '
              'the base shipped with the task', loc=hm.loc(cc),
              nontrivial=True)


# --------------------------------------------------------------------- R5
def rule_adopt_write(chk, prog, rid='C05.R5'):
    chk.rule(rid, 'every adoption is followed, on every normal path to the '
             'next result / the end of the batch, by a write of the adopted '
             'input to the output file, after the adoption')
    n = 0
    for modname, fnames in (('strategy_ddmin', ('_check_seq', '_check_par')),
                            ('strategy_hierarchical', ('reduce', ))):
        m = prog.mod(modname)
        for fname in fnames:
            f = m.func(fname)
            where = f'{modname}.{fname}'
            cfg = cfg_of(f)
            sites = adoption_sites(m, f)
            writes = [c for c in calls_in(f) if (call_name(c) or '').endswith(
                'write_smtlib_to_file')]
            for kind, s in sites:
                n += 1
                sn = expr_owner_node(cfg, s) if not isinstance(
                    s, ast.stmt) else cfg.node_of[id(s)]
                wnodes = {expr_owner_node(cfg, w): w for w in writes}
                # enclosing for loop head (next result)
                lp = getattr(s, '_parent', None)
                while lp is not None and not isinstance(lp, ast.For):
                    lp = getattr(lp, '_parent', None)
                exits = [cfg.exit]
                if lp is not None:
                    exits.append(cfg.node_of[id(lp)])
                INB, OUTB = cfg.must_backward(
                    gen=lambda x: ['write'] if x in wnodes else [],
                    exits=exits)
                ok = 'write' in (OUTB.get(sn) or ())
                chk.check(rid, where, f'write after {unparse(s)[:60]}', ok,
                          'after this adoption some path reaches the next '
                          'result / the end without writing the output file: '
                          'the file lags behind the chain (after an '
                          'interrupt it does not hold the last accepted '
                          'input)', loc=m.loc(s), nontrivial=True)
            for w in writes:
                ok = len(w.args) == 2 and _is_outfile(f, w.args[0])
                what = unparse(w.args[1]) if len(w.args) == 2 else ''
                if modname == 'strategy_ddmin':
                    ok = ok and what in ('taskgen.exprs', 'result.exprs')
                else:
                    rebinds = [unparse(s.targets[0]) for k, s in sites
                               if k == 'rebind']
                    ok = ok and what in rebinds
                chk.check(rid, where, w, ok,
                          'the write does not put the adopted input into '
                          'the configured output file', loc=m.loc(w),
                          nontrivial=True)
                # ... and comes after the adoption (taskgen.exprs is the new
                # input only after update)
                wn = expr_owner_node(cfg, w)
                marks = {}
                for kind, s in sites:
                    sn = expr_owner_node(cfg, s) if not isinstance(
                        s, ast.stmt) else cfg.node_of[id(s)]
                    marks[sn] = 'adopt'
                INd, _ = cfg.dominators_facts(marks)
                okd = 'adopt' in (INd.get(wn) or ())
                if what == 'result.exprs':
                    okd = True
                chk.check(rid, where, f'{unparse(w)[:50]} after adoption',
                          okd, 'the output file is written before the '
                          'adopted input replaced the current one: the file '
                          'holds the previous input (it lags one adoption '
                          'behind)', loc=m.loc(w), nontrivial=True)
    chk.floor(rid, 'adoption sites', n, 3)


def rule_r6(chk, prog):
    """A verdict belongs to the candidate it was computed for only if no
    other process can overwrite the file between write and run (shared with
    C01.R4)."""
    from . import c01
    sub = Check('C01', 'other', 'quick', [], [])
    chk.guard(c01.rule_r4, sub, prog)
    chk.adopt('C05.R6', 'the candidate file is private to the checking '
              'process and complete before the command starts (shared with '
              'C01.R4): a parallel check cannot be judged on another '
              "worker's candidate", sub)


def rule_r11(chk, prog):
    """The file holds the last accepted input only if the writer, once
    called, really publishes what it was given (shared with C06.R1)."""
    from . import c06
    from .. import fileeffects
    sub = Check('C06', 'other', 'quick', [], [])
    chk.guard(c06.rule_r1, sub, prog, fileeffects.inventory(prog))
    Check.restrict(sub, lambda wh, what: 'rename on every normal path' in
                   str(what))
    chk.adopt('C05.R11', 'the writer of the output file replaces it on '
              'every normal path once it has been called with an accepted '
              'input: no accepted input is silently kept out of the file '
              '(shared with C06.R1, publication part)', sub)


def rule_r12(chk, prog):
    """Nobody but the adoption sites writes the output file: a late write
    of an older list (a finally block of the driver, say) makes the file at
    exit something else than the last element of the chain (shared with the
    write part of C01.R2)."""
    from . import c01
    sub = Check('C01', 'other', 'quick', [], [])
    chk.guard(c01.rule_r2, sub, prog)
    Check.restrict(sub, lambda wh, what: 'write_smtlib_to_file' in str(what))
    chk.adopt('C05.R12', 'the output file is written at the adoption sites '
              'only, with the adopted list (shared with the write part of '
              'C01.R2)', sub)


def rule_r7(chk, prog):
    chk.rule('C05.R7', 'ddmin: what a granularity round returns (the input '
             'after all adoptions of the round) is what the next round, the '
             'next mutator and the caller continue with')
    dm = prog.mod('strategy_ddmin')
    f = dm.func('_apply_mutator')
    where = 'strategy_ddmin._apply_mutator'
    cfg = cfg_of(f)
    RD = reaching_defs(cfg, params_of(f))
    loops = [l for l in walk_no_nested(f) if isinstance(l, ast.While)]
    if len(loops) != 1:
        raise AnalysisError('_apply_mutator: granularity loop not found')
    loop = loops[0]
    # the round result: value of the call of the chosen check function on
    # the task generator (a name bound to TaskGenerator(...))
    gens = {st.targets[0].id for st in ast.walk(f)
            if isinstance(st, ast.Assign) and isinstance(
                st.targets[0], ast.Name) and isinstance(
                    st.value, ast.Call) and call_name(
                        st.value) == 'TaskGenerator'}
    rounds = [st for st in ast.walk(loop) if isinstance(st, ast.Assign)
              and isinstance(st.value, ast.Call) and isinstance(
                  st.value.func, ast.Name) and len(st.value.args) >= 1
              and any(isinstance(a, ast.Name) and a.id in gens
                      for a in st.value.args)]
    chk.floor('C05.R7', 'round calls in _apply_mutator', len(rounds), 1)

    def derived(name, node, depth=0):
        """every definition of ``name`` reaching ``node`` is the round
        result or a re-duplication of it"""
        ds = (RD.get(node) or {}).get(name) or ()
        if not ds or depth > 4:
            return False
        for d in ds:
            if d == 'param':
                return False
            a = d.ast
            if not isinstance(a, ast.Assign):
                return False
            if a in rounds:
                continue
            v = a.value
            if isinstance(v, ast.Call) and (call_name(v) or '').endswith(
                    'reduplicate') and v.args and isinstance(
                        v.args[0], ast.Name):
                if derived(v.args[0].id, d, depth + 1):
                    continue
            return False
        return True

    def derived_or_entry(name, node):
        """every definition reaching ``node`` is the round result (or a
        re-duplication of it), or - for a generator built at the top of a
        rotated loop - the parameter on the path that has not run a round
        yet; after a round at least its result must reach"""
        ds = (RD.get(node) or {}).get(name) or ()
        if not ds:
            return False
        nonparam = [d for d in ds if d != 'param']
        for d in nonparam:
            a = d.ast
            if not isinstance(a, ast.Assign):
                return False
            if a in rounds:
                continue
            v = a.value
            if isinstance(v, ast.Call) and (call_name(v) or '').endswith(
                    'reduplicate') and v.args and isinstance(
                        v.args[0], ast.Name) and derived(v.args[0].id, d):
                continue
            return False
        # the parameter may reach only along the path that has not run a
        # round yet: no path from a round to here may leave the name alone
        from ..cfg import stmt_effects
        for r_ in rounds:
            rn = cfg.node_of.get(id(r_))
            if rn is None:
                continue
            if name in stmt_effects(rn)[0]:
                continue  # the round itself rebinds the name
            seen, work = set(), [rn]
            while work:
                x = work.pop()
                for e in x.succ:
                    d = e.dst
                    if d is node:
                        return False
                    if d in seen or name in stmt_effects(d)[0]:
                        continue
                    seen.add(d)
                    work.append(d)
        return True

    n = 0
    for c in calls_in(loop):
        if call_name(c) == 'TaskGenerator' and c.args and isinstance(
                c.args[0], ast.Name):
            n += 1
            node = expr_owner_node(cfg, c)
            chk.check('C05.R7', where, c, derived_or_entry(c.args[0].id,
                                                           node),
                      'the generator of the next round can be built from '
                      'an input that is not the result of the round just '
                      'finished: adoptions of that round are dropped, the '
                      'next write undoes progress (the chain is broken)',
                      loc=dm.loc(c), nontrivial=True)
    for r in walk_no_nested(f):
        if isinstance(r, ast.Return) and isinstance(r.value, ast.Tuple) and \
                isinstance(r.value.elts[0], ast.Name):
            n += 1
            node = cfg.node_of[id(r)]
            nm = r.value.elts[0].id
            ds = (RD.get(node) or {}).get(nm) or ()
            # zero rounds (gran == 0 from the start) return the parameter
            ok = all(d == 'param' or derived(nm, node) for d in ds) and (
                derived(nm, node) or all(d == 'param' for d in ds)
                or any(d == 'param' for d in ds))
            # every non-parameter definition must be a round result
            ok = all(
                d == 'param' or (isinstance(d.ast, ast.Assign) and (
                    d.ast in rounds or (isinstance(d.ast.value, ast.Call)
                                        and (call_name(d.ast.value) or
                                             '').endswith('reduplicate'))))
                for d in ds)
            chk.check('C05.R7', where, r, ok,
                      'the input returned to the caller is not the result '
                      'of the last round', loc=dm.loc(r), nontrivial=True)
    chk.floor('C05.R7', 'continuations of a round', n, 2)


# --------------------------------------------------------------------- R8
def rule_r8(chk, prog):
    chk.rule('C05.R8', 'hybrid: the second strategy continues from what the '
             'first one returned (the last element of its chain), not from '
             'the parsed input')
    m = prog.mod('cli')
    f = m.func('ddsmt_main')
    where = 'cli.ddsmt_main'
    cfg = cfg_of(f)
    RD = reaching_defs(cfg, params_of(f))
    calls = []
    for st in walk_no_nested(f):
        if isinstance(st, ast.Assign) and isinstance(
                st.value, ast.Call) and (call_name(st.value) or '').endswith(
                    '.reduce') and (call_name(st.value) or '').startswith(
                        'strategy_'):
            calls.append(st)
    calls.sort(key=lambda st: (st.lineno, st.col_offset))
    chk.floor('C05.R8', 'strategy calls in ddsmt_main', len(calls), 2)
    for k, st in enumerate(calls):
        c = st.value
        if not (c.args and isinstance(c.args[0], ast.Name)):
            raise AnalysisError(
                f'C05.R8: {m.loc(c)}: argument of {call_name(c)} is not a '
                'local name')
        nm = c.args[0].id
        node = cfg.node_of[id(st)]
        ds = (RD.get(node) or {}).get(nm) or ()
        for prev in calls[:k]:
            pn = cfg.node_of[id(prev)]
            # does the earlier strategy run before this one on some path?
            if not _reaches(cfg, pn, node):
                continue
            # its result must be what this call is given
            tg = prev.targets[0]
            first = tg.elts[0] if isinstance(tg, ast.Tuple) and tg.elts \
                else tg
            def from_prev(name, at, depth=0):
                # some definition of ``name`` reaching ``at`` is the earlier
                # strategy's result, possibly through plain copies
                for d in (RD.get(at) or {}).get(name) or ():
                    if d == 'param' or depth > 4:
                        continue
                    if d is pn and isinstance(first, ast.Name) and \
                            first.id == name:
                        return True
                    a_ = d.ast
                    if isinstance(a_, ast.Assign) and isinstance(
                            a_.value, ast.Name) and from_prev(
                                a_.value.id, d, depth + 1):
                        return True
                return False

            ok = from_prev(nm, node)
            chk.check('C05.R8', where, c, ok,
                      f'{call_name(c)}({nm}) runs after '
                      f'{call_name(prev.value)} but is not given its '
                      f'result ("{unparse(first)}"): the second strategy '
                      'starts again from an older input, its first write '
                      'replaces the output of the first strategy by '
                      'something that is not one simplification away from '
                      'it', loc=m.loc(c), nontrivial=True)


def _reaches(cfg, a, b):
    seen = set()
    work = [a]
    while work:
        n = work.pop()
        for e in n.succ:
            if e.dst is b:
                return True
            if e.dst not in seen:
                seen.add(e.dst)
                work.append(e.dst)
    return False


# --------------------------------------------------------------------- R9
def rule_r9(chk, prog):
    chk.rule('C05.R9', 'a failed write of an accepted input is not '
             'swallowed: no return/break/continue in a finally block (it '
             'discards the exception in flight), and the handlers of the '
             'file writer re-raise')
    n = 0
    for m in prog.pkg_modules():
        if 'tests' in m.rel():
            continue
        for t in ast.walk(m.tree):
            if not isinstance(t, ast.Try) or not t.finalbody:
                continue
            n += 1
            bad = []

            def scan(nodes, in_loop):
                for x in nodes:
                    if isinstance(x, (ast.FunctionDef, ast.Lambda,
                                      ast.AsyncFunctionDef)):
                        continue
                    if isinstance(x, ast.Return):
                        bad.append(x)
                    if isinstance(x, (ast.Break, ast.Continue)) and \
                            not in_loop:
                        bad.append(x)
                    scan(list(ast.iter_child_nodes(x)), in_loop or
                         isinstance(x, (ast.For, ast.While)))

            scan(t.finalbody, False)
            fn = t
            while fn is not None and not isinstance(fn, ast.FunctionDef):
                fn = getattr(fn, '_parent', None)
            wh = f'{m.name}.{getattr(fn, "_qualname", "<module>")}'
            chk.check('C05.R9', wh, t, not bad,
                      f'"{unparse(bad[0]) if bad else ""}" inside a finally '
                      'block discards whatever exception is in flight '
                      '(OSError of the write, KeyboardInterrupt): the caller '
                      'carries on as if the output file had been written',
                      loc=m.loc(bad[0] if bad else t), nontrivial=True)
    io = prog.mod('nodeio')
    io.func('write_smtlib_to_file')  # anchor
    for q, f in io.funcs.items():
        if 'write_smtlib' not in q or '<locals>' in q:
            continue
        for h in ast.walk(f):
            if isinstance(h, ast.ExceptHandler):
                n += 1
                last = h.body[-1] if h.body else None
                leaves = [x for b in h.body for x in ast.walk(b)
                          if isinstance(x, (ast.Return, ast.Continue,
                                            ast.Break))]
                ok = isinstance(last, ast.Raise) and not leaves
                chk.check('C05.R9', f'nodeio.{q}', h, ok,
                          'the handler around the write of the file does '
                          'not re-raise on every path ('
                          + (f'"{unparse(leaves[0])}"' if leaves else
                             'it does not end in "raise"')
                          + '): the failure is turned into a value that '
                          'callers are free to ignore, and the code that '
                          'ran the write carries on as if the file held '
                          'what it was given', loc=io.loc(h),
                          nontrivial=True)
    chk.floor('C05.R9', 'finally blocks and writer handlers', n, 1)


def run(tier):
    prog = Program()
    chk = Check(
        PROP, 'other', tier,
        clauses_decided=[
            'latch typestate of both result-drain loops (adoption only with '
            'the latch unset, latch set on the adoption path, cleared only '
            'outside the loop)',
            'batch isolation (fresh iterator per restart)',
            'rebinding of the task source to the adopted input',
            'workers echo the checked list; base comes from the task',
            'adoption => write of the adopted input, in that order',
        ],
        clauses_not_decided=[
            'multiprocessing semantics: each task yields one result; '
            'visibility of the manager event',
            'the race between the pool\'s task-handler thread reading the '
            'generator and the main thread updating it (tasks so generated '
            'land in the latched batch and are discarded - argued)',
            'crash of a worker',
        ])
    chk.guard(rule_r1_r2, chk, prog)
    chk.guard(rule_r3, chk, prog)
    chk.guard(rule_r4, chk, prog)
    chk.guard(rule_adopt_write, chk, prog)
    chk.guard(rule_r6, chk, prog)
    chk.guard(rule_r7, chk, prog)
    chk.guard(rule_r8, chk, prog)
    chk.guard(rule_r9, chk, prog)
    chk.guard(rule_r11, chk, prog)
    chk.guard(rule_r12, chk, prog)
    from .. import adoptres
    chk.guard(adoptres.report, chk, prog, 'C05.R13',
              'ddmin continues from the input its last pass has written: the '
              'result of _apply_mutator replaces the current input on every '
              'path',
              'the next accepted candidate is derived from a superseded input and silently undoes what the file holds: the written contents do not form a chain')
    from .. import memo as _memo

    def _memo_rule(chk, prog):
        chk.rule('C05.R14', 'memoised functions that name or render the candidate: the cached value depends only on the cache key')
        _memo.report(chk, prog, 'C05.R14', 'memoised functions on the candidate path',
                     lambda m, q: m.name in ('tmpfiles', 'nodeio', 'checker', 'strategy_ddmin', 'strategy_hierarchical'),
                     'forked workers inherit the table: two workers check under the same file name, a verdict is attributed to a candidate the command never saw and that candidate is written')

    chk.guard(_memo_rule, chk, prog)
    from .. import idkeys
    chk.guard(idkeys.report, chk, prog, 'C05.R15', 'no object address (builtin id()) outlives the function that took it: none keys a module-level or object-level container, is stored on an object or put into a record',
              'a worker-side cache of the current input keyed by an address is hit for a later, different input: the simplification is applied to a superseded input and the result adopted')
    extra = None
    if tier == 'thorough':
        from .. import selftest
        extra = selftest.run_for(PROP)
    return chk.finish(extra)
