"""C14 - exactly the enabled mutators are used.

Level: proof (finite obligations over the folded registry, option table,
toggle actions and pass builders; all discharged by folding the source).
"""
import ast

from ..astutil import (call_name, calls_in, walk_no_nested, params_of, kw,
                       dotted, opt_read)
from ..cfg import cfg_of, expr_owner_node, facts_at, loop_body_paths
from ..pathutil import describe_path
from ..fold import (Folder, FuncRef, ClassRef, Inst, Namespace, GuardedList,
                    Guarded, ModRef, Sym, OptNS)
from ..loader import Program, AnalysisError, unparse
from ..report import Check
from . import options_table

PROP = 'C14'
PROTOCOL = ('filter', 'mutations', 'global_mutations')


def dest_of_opt(opt):
    return 'mutator_' + opt.replace('-', '_')


def dest_of_group(g):
    return 'mutators_' + g


# --------------------------------------------------------------------- R1
def rule_r1(chk, prog, reg):
    chk.rule('C14.R1', 'registry <-> classes: keys are exactly the protocol '
             'classes of their module; names, option strings and dests are '
             'unique')
    nclasses = 0
    all_cls = {}
    all_opt = {}
    decl = options_table.declarations(prog)
    declared_strings = {}
    for d in decl:
        for o in d['options']:
            declared_strings.setdefault(o, d['loc'])
    for g, (modname, d) in reg.items():
        m = prog.mod(modname)
        proto = set()
        for cname in m.classes:
            meths = m.methods(cname)
            if any(p in meths for p in PROTOCOL):
                proto.add(cname)
        for cname, opt in d.items():
            nclasses += 1
            ok = cname in m.classes
            chk.check('C14.R1', f'{modname}.get_mutators', f'{cname!r}: '
                      f'{opt!r}', ok,
                      f'registry key {cname!r} is not a class of '
                      f'{modname} (getattr fails at start-up / the mutator '
                      'is never built)', loc=m.loc(m.func('get_mutators')))
            if ok:
                meths = m.methods(cname)
                chk.check('C14.R1', f'{modname}.{cname}', 'protocol',
                          any(p in meths for p in PROTOCOL)
                          and '__str__' in meths,
                          f'registered class {cname} lacks filter/mutations/'
                          'global_mutations or __str__',
                          loc=m.loc(m.classes[cname]))
            if cname in all_cls:
                chk.check('C14.R1', f'{modname}.get_mutators', cname, False,
                          f'class name {cname} is registered in '
                          f'{all_cls[cname]} and {modname}: name lookup '
                          'finds only the first', loc=m.loc(m.func(
                              'get_mutators')))
            all_cls[cname] = modname
            dst = dest_of_opt(opt)
            if dst in all_opt:
                chk.check('C14.R1', f'{modname}.get_mutators', opt, False,
                          f'option {opt!r} of {cname} and option of '
                          f'{all_opt[dst]} share the namespace attribute '
                          f'{dst}: one toggle switches both',
                          loc=m.loc(m.func('get_mutators')))
            all_opt[dst] = cname
            for s in (f'--{opt}', f'--no-{opt}'):
                if s in declared_strings:
                    chk.check('C14.R1', f'{modname}.get_mutators', opt,
                              False, f'option string {s} is also declared '
                              f'at {declared_strings[s]}',
                              loc=m.loc(m.func('get_mutators')))
        for cname in sorted(proto - set(d)):
            chk.check('C14.R1', f'{modname}.{cname}', 'registered', False,
                      f'class {cname} implements the mutator protocol but is '
                      'not in get_mutators(): it has no option and is never '
                      'scheduled', loc=m.loc(m.classes[cname]))
    # toggles of different mutators/groups must not alias: --no-X vs X
    strings = {}
    for g, (modname, d) in reg.items():
        for s in (f'--{g}', f'--no-{g}'):
            strings.setdefault(s, []).append(f'group {g}')
        for cname, opt in d.items():
            for s in (f'--{opt}', f'--no-{opt}'):
                strings.setdefault(s, []).append(f'{cname}')
    for s, owners in strings.items():
        chk.check('C14.R1', 'mutators', s, len(owners) == 1 and
                  s not in declared_strings,
                  f'option string {s} is claimed by {owners}'
                  + (f' and declared at {declared_strings[s]}'
                     if s in declared_strings else ''))
    dests = [dest_of_group(g) for g in reg] + list(all_opt)
    chk.check('C14.R1', 'mutators', 'dest uniqueness',
              len(dests) == len(set(dests)), 'duplicate toggle dest')
    chk.floor('C14.R1', 'registered mutator classes', nclasses, 53)
    chk.floor('C14.R1', 'mutator groups', len(reg), 8)
    chk.extra['registry'] = {g: v[1] for g, v in reg.items()}
    return all_cls


# ----------------------------------------------------------- summaries
def summarise_get_mutators(chk, prog, reg):
    """C14.R2/R3 (lookup side): fold mutators.get_mutators([m]) for every
    registry name m with symbolic option values.  Obligations per name:
    reads exactly dest(m); builds exactly one instance of class m iff the
    value is true.  Returns the summary used for the pass builders."""
    chk.rule('C14.R3', 'get_mutators([m]) instantiates class m exactly when '
             'namespace attribute dest(m) is true; the attribute is declared '
             '(the permissive getattr default is never used)')
    m = prog.mod('mutators')
    f = m.func('get_mutators')
    fref = FuncRef(m, 'get_mutators', f)
    table = {}
    decl_dests = declared_toggle_dests(prog, reg, chk)
    base = Folder(prog, summaries={
        ('options', 'args'): lambda fo, a, k: fo.optns
    })
    for g, (modname, d) in reg.items():
        for cname, opt in d.items():
            want = dest_of_opt(opt)
            outcomes = []
            for dec, res, fo in base.paths(
                    lambda fo: fo.call_function(fref, [[cname]], {})):
                outcomes.append((dec, res, fo))
            ok = True
            msg = ''
            reads = set()
            for dec, res, fo in outcomes:
                reads.update(fo.optns.reads)
                if not isinstance(res, list):
                    ok, msg = False, f'returns {res!r}, not a list'
                    break
                enabled = dec.get(('opt', want))
                if list(dec.keys()) not in ([('opt', want)], []):
                    ok = False
                    msg = (f'decision depends on {sorted(dec)} instead of '
                           f'only options.args().{want}')
                    break
                insts = [(x.cls.mod.name, x.cls.name) for x in res
                         if isinstance(x, Inst)]
                if enabled:
                    if insts != [(modname, cname)] or len(res) != 1:
                        ok = False
                        msg = (f'with {want} true it builds {res!r}, '
                               f'expected one {modname}.{cname}')
                        break
                else:
                    if res:
                        ok = False
                        msg = (f'with {want} false/unknown it still builds '
                               f'{res!r}')
                        break
            if ok and reads != {want}:
                ok = False
                msg = (f'reads namespace attribute(s) {sorted(reads)}, '
                       f'expected exactly {want!r}')
            chk.check('C14.R3', 'mutators.get_mutators', f'lookup of {cname}',
                      ok, msg or f'reads {want}; builds {modname}.{cname} iff '
                      'true', loc=m.loc(f), nontrivial=True)
            dflt_ok = want in decl_dests
            chk.check('C14.R3', 'mutators.collect_mutator_options',
                      f'toggle {want} declared', dflt_ok,
                      f'no toggle action with dest {want} is declared: '
                      'getattr(..., True) silently enables the mutator',
                      nontrivial=True)
            table[cname] = (modname, want)
    # a name that is not a registry key yields nothing
    for dec, res, fo in base.paths(
            lambda fo: fo.call_function(fref, [['NoSuchMutator__']], {})):
        chk.check('C14.R3', 'mutators.get_mutators', 'unknown name', res == [],
                  f'an unregistered name yields {res!r}', loc=m.loc(f),
                  nontrivial=True)
    # freshness: two calls never hand out the same instance (callers
    # customise instances with setattr; a shared one would carry the
    # restriction of one pass into every other pass)
    nshared = 0
    for cname in table:
        for dec, res, fo in base.paths(
                lambda fo: (fo.call_function(fref, [[cname]], {}),
                            fo.call_function(fref, [[cname]], {}))):
            if not (isinstance(res[0], list) and isinstance(res[1], list)):
                continue
            if any(x is y for x in res[0] for y in res[1]
                   if isinstance(x, Inst)):
                nshared += 1
                chk.violation(
                    'C14.R3', 'mutators.get_mutators',
                    f'instance of {cname} shared between calls',
                    f'two calls get_mutators([{cname!r}]) return the same '
                    'instance: attributes set by get_initialized_mutator '
                    'for one pass (e.g. ident) leak into every other pass, '
                    'the last pass no longer holds an unrestricted instance',
                    loc=m.loc(f))
    chk.check('C14.R3', 'mutators.get_mutators', 'fresh instance per call',
              nshared == 0, f'{nshared} classes share their instance',
              loc=m.loc(f), nontrivial=True)
    # order/independence: a two-element list is the concatenation
    names = list(table)[:2]
    if len(names) == 2:
        for dec, res, fo in base.paths(
                lambda fo: fo.call_function(fref, [list(names)], {})):
            exp = [n for n in names if dec.get(('opt', table[n][1]))]
            got = [x.cls.name for x in res if isinstance(x, Inst)]
            chk.check('C14.R3', 'mutators.get_mutators',
                      f'order for {names} under {sorted(dec.items())}',
                      got == exp, f'got {got}, expected {exp}', loc=m.loc(f),
                      nontrivial=True)
    return table


def declared_toggle_dests(prog, reg, chk):
    """Fold collect_mutator_options / add_mutator_group: which toggle
    actions (dest, default, option name) are created."""
    m = prog.mod('mutators')
    created = {}

    class _AP:
        pass

    def toggle_action(fo, args, kwargs):
        # options.ToggleAction(opt_name, default=True, dest=None, help=None)
        names = ['opt_name', 'default', 'dest', 'help']
        b = dict(zip(names, args))
        b.update(kwargs)
        created[b.get('dest')] = {
            'kind': 'ToggleAction',
            'opt': b.get('opt_name'),
            'default': b.get('default', True)
        }
        return ('action', b.get('dest'))

    def theory_toggle(fo, args, kwargs):
        # TheoryToggleAction(theory, opt_name, default=..., dest=...)
        names = ['theory', 'opt_name', 'default', 'dest', 'help']
        b = dict(zip(names, args))
        b.update(kwargs)
        created[b.get('dest')] = {
            'kind': 'TheoryToggleAction',
            'theory': b.get('theory'),
            'opt': b.get('opt_name'),
            'default': b.get('default', True)
        }
        return ('action', b.get('dest'))

    # fold by hand-walking the two builder functions with the folder, with
    # the argparse objects replaced by inert stand-ins
    f = m.func('collect_mutator_options')
    fo = Folder(prog)
    inert = Inst(ClassRef(m, '__inert__'))

    # We cannot instantiate argparse objects; instead evaluate the relevant
    # constructor calls found in the two functions under the loop variables
    # folded from the registry.
    amg = m.func('add_mutator_group')
    for g, (modname, d) in reg.items():
        env = {params_of(amg)[1]: g}
        for c in calls_in(amg):
            if call_name(c) == 'TheoryToggleAction':
                args = [fo.expr(a, dict(env), m, 0) for a in c.args]
                kwargs = {k.arg: fo.expr(k.value, dict(env), m, 0)
                          for k in c.keywords}
                theory_toggle(fo, args, kwargs)
    # collect_mutator_options: for name, tdata in get_all_mutators().items():
    #   for mname, mopt in theory.get_mutators().items(): ToggleAction(mopt,
    #   dest=f'mutator_{...}')
    tcalls = [c for c in calls_in(f) if (call_name(c) or '').endswith(
        'ToggleAction')]
    if not tcalls:
        raise AnalysisError('collect_mutator_options creates no ToggleAction')
    for c in tcalls:
        # the loop variables this call depends on
        free = {n.id for n in ast.walk(c) if isinstance(n, ast.Name)}
        loops = [a for a in _enclosing_fors(c)]
        # evaluate under each registry entry
        for g, (modname, d) in reg.items():
            for cname, opt in d.items():
                env = _bind_loop_vars(loops, g, modname, cname, opt, prog)
                if env is None:
                    raise AnalysisError(
                        'collect_mutator_options: loop structure over the '
                        'registry not recognised')
                args = [fo.expr(a, dict(env), m, 0) for a in c.args]
                kwargs = {}
                for k in c.keywords:
                    if k.arg == 'help':
                        continue
                    kwargs[k.arg] = fo.expr(k.value, dict(env), m, 0)
                toggle_action(fo, args, kwargs)
    for g in reg:
        e = created.get(dest_of_group(g))
        chk.check('C14.R3', 'mutators.add_mutator_group',
                  f'group toggle {g}', e is not None and e['kind'] ==
                  'TheoryToggleAction' and e['theory'] == g and e['opt'] == g
                  and e['default'] is None,
                  f'group {g}: expected TheoryToggleAction(theory={g!r}, '
                  f'option {g!r}, default None, dest mutators_{g}); folded: '
                  f'{e}', nontrivial=True)
    for g, (modname, d) in reg.items():
        for cname, opt in d.items():
            e = created.get(dest_of_opt(opt))
            chk.check('C14.R3', 'mutators.collect_mutator_options',
                      f'toggle for {cname}', e is not None and e['opt'] == opt
                      and e['default'] is True and e['kind'] == 'ToggleAction',
                      f'{cname}: expected ToggleAction({opt!r}, default True, '
                      f'dest {dest_of_opt(opt)}); folded: {e}',
                      nontrivial=True)
    return created


def _enclosing_fors(node):
    res = []
    n = getattr(node, '_parent', None)
    while n is not None and not isinstance(n, ast.FunctionDef):
        if isinstance(n, ast.For):
            res.append(n)
        n = getattr(n, '_parent', None)
    return list(reversed(res))


def _bind_loop_vars(loops, g, modname, cname, opt, prog):
    """Recognise ``for name, tdata in get_all_mutators().items()`` and
    ``for mname, mopt in theory.get_mutators().items()`` and bind their
    variables for one registry entry."""
    env = {}

    def bind(t, v):
        if isinstance(t, ast.Name):
            env[t.id] = v
            return True
        if isinstance(t, (ast.Tuple, ast.List)) and isinstance(
                v, (tuple, list)) and len(t.elts) == len(v):
            return all(bind(a, b) for a, b in zip(t.elts, v))
        return False

    for lp in loops:
        it = unparse(lp.iter)
        t = lp.target
        grp = (ModRef(prog.mod(modname)),
               dict(options_table.registry(prog)[g][1]))
        if it == 'get_all_mutators().items()':
            ok = bind(t, (g, grp))
        elif it == 'get_all_mutators().values()':
            ok = bind(t, grp)
        elif it == 'get_all_mutators()' or it == 'get_all_mutators().keys()':
            ok = bind(t, g)
        elif it.endswith('.get_mutators().items()') or (
                isinstance(lp.iter, ast.Call) and it.endswith('[1].items()')):
            ok = bind(t, (cname, opt))
        elif it.endswith('.get_mutators().values()') or (
                isinstance(lp.iter, ast.Call)
                and it.endswith('[1].values()')):
            ok = bind(t, opt)
        elif it.endswith('.get_mutators()') or (
                isinstance(lp.iter, ast.Call) and it.endswith('[1].keys()')):
            ok = bind(t, cname)
        else:
            return None
        if not ok:
            return None
    return env


# --------------------------------------------------------------------- R2
def rule_r2(chk, prog, reg):
    chk.rule('C14.R2', 'every site that derives a toggle attribute name '
             'computes the same function of the option string / group name')
    n = 0
    names_opt = [opt for g, (mn, d) in reg.items() for opt in d.values()]
    names_grp = list(reg)
    for m in prog.pkg_modules():
        for e in ast.walk(m.tree):
            pref = None
            parts = None
            if isinstance(e, ast.JoinedStr) and e.values and isinstance(
                    e.values[0], ast.Constant) and str(
                        e.values[0].value).startswith(('mutator_',
                                                       'mutators_')):
                pref = e.values[0].value
            elif isinstance(e, ast.BinOp) and isinstance(
                    e.op, ast.Add) and isinstance(
                        e.left, ast.Constant) and isinstance(
                            e.left.value, str) and e.left.value.startswith(
                                ('mutator_', 'mutators_')):
                pref = e.left.value
            if pref is None and isinstance(e, ast.Call) and isinstance(
                    e.func, ast.Attribute) and e.func.attr == 'format' and \
                    isinstance(e.func.value, ast.Constant) and isinstance(
                        e.func.value.value, str) and \
                    e.func.value.value.startswith(('mutator_',
                                                   'mutators_')):
                pref = e.func.value.value
            if pref is None:
                continue
            n += 1
            dom = names_grp if pref.startswith('mutators_') else names_opt
            ref = dest_of_group if pref.startswith(
                'mutators_') else dest_of_opt
            free = sorted({x.id for x in ast.walk(e)
                           if isinstance(x, ast.Name)})
            # the one variable expression: innermost non-call operand
            holes = _holes(e)
            ok = len(holes) == 1
            msg = ''
            if not ok:
                msg = (f'{unparse(e)} depends on {len(holes)} variable '
                       'parts; one expected')
            else:
                fo = Folder(prog)
                bad = None
                for name in dom:
                    try:
                        got = _eval_with_hole(fo, e, holes[0], name, m)
                    except AnalysisError as ex:
                        bad = (name, f'not foldable: {ex}')
                        break
                    if got != ref(name):
                        bad = (name, got)
                        break
                ok = bad is None
                if bad:
                    msg = (f'{unparse(e)} maps {bad[0]!r} to {bad[1]!r}; the '
                           f'option table uses {ref(bad[0])!r}')
            fn = _enclosing_func_name(e)
            chk.check('C14.R2', f'{m.name}.{fn}', e, ok, msg or
                      f'agrees with the reference on all {len(dom)} names',
                      loc=m.loc(e), nontrivial=True)
    chk.floor('C14.R2', 'toggle attribute derivation sites', n, 2)


def _enclosing_func(e):
    n = getattr(e, '_parent', None)
    while n is not None:
        if isinstance(n, ast.FunctionDef):
            return n
        n = getattr(n, '_parent', None)
    return None


def _enclosing_func_name(e):
    n = getattr(e, '_parent', None)
    while n is not None:
        if isinstance(n, ast.FunctionDef):
            return getattr(n, '_qualname', n.name)
        n = getattr(n, '_parent', None)
    return '<module>'


def _holes(e):
    """Maximal sub-expressions that are not string plumbing (constants,
    f-string glue, +, str methods on a hole)."""
    holes = []

    def rec(x):
        if isinstance(x, ast.Constant):
            return
        if isinstance(x, ast.JoinedStr):
            for v in x.values:
                rec(v)
            return
        if isinstance(x, ast.FormattedValue):
            rec(x.value)
            return
        if isinstance(x, ast.BinOp) and isinstance(x.op, ast.Add):
            rec(x.left)
            rec(x.right)
            return
        if isinstance(x, ast.Call) and isinstance(
                x.func, ast.Attribute) and x.func.attr in (
                    'replace', 'lower', 'upper', 'strip', 'format') and all(
                        isinstance(a, ast.Constant) for a in x.args):
            rec(x.func.value)
            return
        if isinstance(x, ast.Call) and isinstance(
                x.func, ast.Attribute) and x.func.attr == 'format' and \
                isinstance(x.func.value, ast.Constant):
            for a in x.args:
                rec(a)
            return
        if not any(unparse(x) == unparse(h) for h in holes):
            holes.append(x)

    rec(e)
    return holes


def _eval_with_hole(fo, e, hole, value, mod):
    from ..astutil import clone
    htxt = unparse(hole)

    class T(ast.NodeTransformer):

        def generic_visit(self, node):
            if isinstance(node, ast.expr) and unparse(node) == htxt:
                return ast.copy_location(ast.Name(id='__hole__',
                                                  ctx=ast.Load()), node)
            return super().generic_visit(node)

    e2 = T().visit(clone(e))
    ast.fix_missing_locations(e2)
    return fo.expr(e2, {'__hole__': value}, mod, 0)


# --------------------------------------------------------------------- R4
def _make_summaries(table):
    """Summary of mutators.get_mutators for the pass builders: a guarded
    list, one element per registered name, guarded by its own dest."""

    def get_mutators(fo, args, kwargs):
        names = args[0] if args else kwargs.get('mutators')
        if isinstance(names, GuardedList) or not isinstance(names,
                                                            (list, tuple)):
            raise AnalysisError(
                f'get_mutators called with non-folded list {names!r}')
        items = []
        for n in names:
            if not isinstance(n, str):
                raise AnalysisError(f'get_mutators name {n!r} not a string')
            if n in table:
                modname, dst = table[n]
                inst = Inst(ClassRef(fo.prog.mod(modname), n))
                items.append(Guarded(inst, ('opt', dst)))
            else:
                fo.unknown_names = getattr(fo, 'unknown_names', []) + [n]
        return GuardedList(items)

    return {
        ('mutators', 'get_mutators'): get_mutators,
        ('options', 'args'): lambda fo, a, k: fo.optns,
    }


def _flatten_pass(p, fo):
    """(guarded items, params) of one pass value."""
    params = {}
    if isinstance(p, tuple):
        if len(p) != 2 or not isinstance(p[1], dict):
            raise AnalysisError(f'pass tuple of unexpected shape {p!r}')
        p, params = p
    if isinstance(p, GuardedList):
        return p.items, params
    if isinstance(p, list):
        return [x if isinstance(x, Guarded) else Guarded(x, None)
                for x in p], params
    raise AnalysisError(f'pass of unexpected shape {p!r}')


def rule_r4(chk, prog, reg, table):
    chk.rule('C14.R4', 'pass builders: every name is a registry key; every '
             'scheduled instance is guarded by its own toggle; ddmin covers '
             'registry minus BinaryReduction; the last hierarchical pass is '
             'a bare list covering the registry')
    summ = _make_summaries(table)
    allcls = set(table)
    for modname, fname, kind in (('strategy_ddmin', 'ddmin_passes', 'ddmin'),
                                 ('strategy_hierarchical', 'get_passes',
                                  'hier')):
        m = prog.mod(modname)
        f = m.func(fname)
        fref = FuncRef(m, fname, f)
        base = Folder(prog, summaries=summ)
        npaths = 0
        for dec, res, fo in base.paths(
                lambda fo: fo.call_function(fref, [], {})):
            npaths += 1
            pc = {k[1]: v for k, v in dec.items() if k[0] == 'opt'}
            where = f'{modname}.{fname}'
            tag = f'[path {sorted(pc.items())}]' if pc else '[all configs]'
            for n in getattr(fo, 'unknown_names', []):
                chk.check('C14.R4', where, f'name {n!r}', False,
                          f'{n!r} is not a registry key: get_mutators drops '
                          'it silently', loc=m.loc(f))
            if not isinstance(res, (list, tuple)) or not res:
                chk.check('C14.R4', where, 'result', False,
                          f'folded result {res!r} is not a list of passes',
                          loc=m.loc(f))
                continue
            passes = [_flatten_pass(p, fo) for p in res]
            # every scheduled instance guarded by its own dest
            for pi, (items, params) in enumerate(passes):
                for g in items:
                    if not isinstance(g.value, Inst):
                        chk.check('C14.R4', where, f'pass {pi} element',
                                  False, f'{g.value!r} is not a mutator '
                                  'instance', loc=m.loc(f))
                        continue
                    cname = g.value.cls.name
                    own = ('opt', table[cname][1]) if cname in table else None
                    good = g.guard == own or (
                        own is not None and dec.get(own) is True)
                    chk.check('C14.R4', where,
                              f'{tag} pass {pi}: {cname} under {g.guard}',
                              good,
                              f'{cname} is scheduled in pass {pi} without '
                              f'being gated by its own toggle {own}',
                              loc=m.loc(f), nontrivial=True)
            if kind == 'ddmin':
                sched = {g.value.cls.name for items, _ in passes
                         for g in items if isinstance(g.value, Inst)
                         and dec.get(g.guard, True) is not False}
                required = allcls - {'BinaryReduction'}
            else:
                items, params = passes[-1]
                chk.check('C14.R4', where, f'{tag} last pass parameters '
                          f'{params}', not params,
                          f'the last hierarchical pass carries parameters '
                          f'{params} that restrict the traversal',
                          loc=m.loc(f), nontrivial=True)
                sched = {g.value.cls.name for g in items
                         if isinstance(g.value, Inst)
                         and dec.get(g.guard, True) is not False}
                required = allcls
            for cname in sorted(required):
                own = ('opt', table[cname][1])
                if dec.get(own) is False:
                    continue  # disabled on this path
                chk.check('C14.R4', where, f'{tag} schedules {cname}',
                          cname in sched,
                          f'{cname} can be enabled {tag} but is '
                          + ('in no ddmin pass' if kind == 'ddmin' else
                             'missing from the last hierarchical pass'),
                          loc=m.loc(f), nontrivial=True)
            # instances carry only the documented properties
            for pi, (items, params) in enumerate(passes):
                for g in items:
                    if isinstance(g.value, Inst) and g.value.attrs:
                        chk.info('C14.R4', f'{where}: pass {pi} '
                                 f'{g.value.cls.name} initialised with '
                                 f'{g.value.attrs}')
        chk.extra[f'{kind}_builder_paths'] = npaths


# --------------------------------------------------------------------- R5
def rule_r5(chk, prog, reg, table):
    chk.rule('C14.R5', 'mutator classes are instantiated only behind the '
             'toggle test in mutators.get_mutators (and for help text)')
    allowed_dynamic = {('mutators', 'get_mutators'),
                       ('mutators', 'collect_mutator_options')}
    ndyn = 0
    for m in list(prog.modules.values()):
        if m.name.startswith('bin/'):
            continue
        for c in ast.walk(m.tree):
            if not isinstance(c, ast.Call):
                continue
            fn = _enclosing_func_name(c)
            # direct instantiation by name
            r = None
            if isinstance(c.func, (ast.Name, ast.Attribute)):
                try:
                    r = prog.resolve_expr(m, c.func)
                except Exception:
                    r = None
            if r and r[0] == 'class' and r[2] in table and \
                    table[r[2]][0] == r[1].name:
                chk.check('C14.R5', f'{m.name}.{fn}', c, False,
                          f'{r[2]} is instantiated directly, bypassing the '
                          'enabled-test of mutators.get_mutators',
                          loc=m.loc(c), nontrivial=True)
            # dynamic: getattr(x, y)()
            if isinstance(c.func, ast.Call) and call_name(
                    c.func) == 'getattr':
                ndyn += 1
                chk.check('C14.R5', f'{m.name}.{fn}', c,
                          (m.name, fn) in allowed_dynamic,
                          'dynamic instantiation getattr(...)() outside '
                          'mutators.get_mutators / collect_mutator_options',
                          loc=m.loc(c), nontrivial=True)
    chk.floor('C14.R5', 'dynamic instantiation sites', ndyn, 2)
    # in get_mutators the instantiation is dominated by the toggle read
    m = prog.mod('mutators')
    f = m.func('get_mutators')
    cfg = cfg_of(f)
    IN, _ = cfg.guard_facts()
    for c in ast.walk(f):
        if isinstance(c, ast.Call) and isinstance(
                c.func, ast.Call) and call_name(c.func) == 'getattr':
            n = expr_owner_node(cfg, c)
            facts = IN.get(n) or frozenset()
            ok = any(t.startswith('getattr(options.args(),') and p
                     for (t, p) in facts)
            chk.check('C14.R5', 'mutators.get_mutators', c, ok,
                      'instantiation is not dominated by a true test of '
                      'getattr(options.args(), <toggle>, ...)', loc=m.loc(c),
                      nontrivial=True)
    # strategies call protocol methods only on pass elements: the receivers
    # of .filter/.mutations/.global_mutations outside mutator modules
    nrecv = 0
    for modname in ('strategy_ddmin', 'strategy_hierarchical'):
        sm = prog.mod(modname)
        for c in ast.walk(sm.tree):
            if isinstance(c, ast.Call) and isinstance(
                    c.func, ast.Attribute) and c.func.attr in PROTOCOL:
                nrecv += 1
                recv = unparse(c.func.value)
                fn_ = c
                while fn_ is not None and not isinstance(
                        fn_, ast.FunctionDef):
                    fn_ = getattr(fn_, '_parent', None)
                if fn_ is not None:
                    from ..astutil import expand_locals, resolve_near
                    recv = unparse(expand_locals(fn_, c.func.value))
                    if recv != 'self.mutator':
                        recv = unparse(resolve_near(fn_, c.func.value, c))
                ok = recv == 'self.mutator' or _ranges_over_pass(c)
                chk.check('C14.R5', f'{modname}.{_enclosing_func_name(c)}',
                          c, ok, f'protocol method called on "{recv}", which '
                          'is not recognised as an element of a pass list',
                          loc=sm.loc(c))
    chk.floor('C14.R5', 'protocol call sites in the strategies', nrecv, 4)


def _ranges_over_pass(call):
    """The receiver of a protocol call is the variable of a loop over the
    pass list (self.__mutators)."""
    recv = call.func.value
    if not isinstance(recv, ast.Name):
        return False
    p = getattr(call, '_parent', None)
    while p is not None and not isinstance(p, ast.FunctionDef):
        if isinstance(p, ast.For) and isinstance(
                p.target, ast.Name) and p.target.id == recv.id:
            return unparse(p.iter) in ('self.__mutators', )
        p = getattr(p, '_parent', None)
    return False


# --------------------------------------------------------------------- R6
def rule_r6(chk, prog, reg):
    chk.rule('C14.R6', 'toggle actions: value = not --no-; plain toggle '
             'stores it under its dest; group toggle stores it under the '
             'group dest and every member dest; --disable-all stores False '
             'everywhere; no other writer of toggle attributes')
    om = prog.mod('options')
    mm = prog.mod('mutators')
    summ = {('options', 'args'): lambda fo, a, k: fo.optns}
    # _get_value
    # the polarity function: the method whose result ToggleAction.__call__
    # stores (by role, not by name)
    gvname = None
    for c_ in calls_in(om.func('ToggleAction.__call__')):
        if call_name(c_) == 'setattr' and len(c_.args) == 3 and isinstance(
                c_.args[2], ast.Call) and isinstance(
                    c_.args[2].func, ast.Attribute) and isinstance(
                        c_.args[2].func.value, ast.Name):
            gvname = c_.args[2].func.attr
    if gvname is None or f'ToggleAction.{gvname}' not in om.funcs:
        gvname = '_get_value' if 'ToggleAction._get_value' in om.funcs \
            else None
    gv = om.func(f'ToggleAction.{gvname}') if gvname else None
    static = gv is not None and any(
        isinstance(d_, ast.Name) and d_.id == 'staticmethod'
        for d_ in gv.decorator_list)
    POLARITY = (('--foo', True), ('--no-foo', False), ('--nofoo', True),
                ('--no-', False), ('--x-no-y', True))
    for s, want in (POLARITY if gv is not None else ()):
        fo = Folder(prog, summaries=summ)
        got = fo.call_function(
            FuncRef(om, f'ToggleAction.{gvname}', gv),
            ([] if static else [Inst(ClassRef(om, 'ToggleAction'))]) + [s],
            {})
        chk.check('C14.R6', f'options.ToggleAction.{gvname}', f'{s}',
                  got is want, f'{gvname}({s!r}) folds to {got!r}, '
                  f'documented {want}', loc=om.loc(gv), nontrivial=True)
    # ToggleAction.__call__ for both polarities, with every prior state
    call = om.func('ToggleAction.__call__')

    def run_action(modref, qual, selfattrs, option_string, prior):
        f = modref.func(qual)
        cls = qual.split('.')[0]
        results = []

        def go(fo):
            inst = Inst(ClassRef(modref, cls))
            inst.attrs.update(selfattrs)
            ns = Namespace('namespace', known=prior)
            fo.call_function(FuncRef(modref, qual, f),
                             [inst, Sym(('parser', )), ns, [],
                              option_string], {})
            return ns

        base = Folder(prog, summaries=summ)
        for dec, ns, fo in base.paths(go):
            results.append((dec, ns))
        return results

    if gv is None:
        # the polarity is computed in __call__ itself
        for s, want in POLARITY:
            for dec, ns in run_action(om, 'ToggleAction.__call__',
                                      {'dest': 'mutator_opt'}, s, {}):
                got = ns.attrs.get('mutator_opt', '<unset>')
                chk.check('C14.R6', 'options.ToggleAction.__call__',
                          f'polarity of {s}', got is want,
                          f'{s!r} stores {got!r}, documented {want}',
                          loc=om.loc(call), nontrivial=True)
    for s, want in (('--opt', True), ('--no-opt', False)):
        for prior in ({}, {'mutator_opt': True}, {'mutator_opt': False}):
            for dec, ns in run_action(om, 'ToggleAction.__call__',
                                      {'dest': 'mutator_opt'}, s, prior):
                got = ns.attrs.get('mutator_opt', '<unset>')
                w = [x for x in ns.writes]
                ok = got is want and all(k == 'mutator_opt' for k, _ in w) \
                    and len(w) >= 1
                chk.check('C14.R6', 'options.ToggleAction.__call__',
                          f'{s} with prior {prior} {sorted(dec.items())}',
                          ok, f'after {s} the attribute is {got!r} (writes '
                          f'{w}); documented {want}', loc=om.loc(call),
                          nontrivial=True)
    # TheoryToggleAction.__call__: group dest + every member, for every
    # group, both polarities, prior states: unset / same / opposite
    tcall = mm.func('TheoryToggleAction.__call__')
    init = mm.func('TheoryToggleAction.__init__')
    # __init__ stores the theory in the attribute __call__ reads
    stores = [t for st in walk_no_nested(init)
              if isinstance(st, ast.Assign) for t in st.targets
              if isinstance(t, ast.Attribute) and isinstance(
                  st.value, ast.Name) and st.value.id == params_of(init)[1]]
    chk.check('C14.R6', 'mutators.TheoryToggleAction.__init__',
              'theory stored', len(stores) == 1,
              '__init__ does not store its theory argument in exactly one '
              'attribute', loc=mm.loc(init))
    tattr = stores[0].attr if stores else '__theory'
    for g, (modname, d) in reg.items():
        members = [dest_of_opt(o) for o in d.values()]
        expect = set(members) | {dest_of_group(g)}
        for s, want in ((f'--{g}', True), (f'--no-{g}', False)):
            priors = [{}, {k: want for k in expect},
                      {k: (not want) for k in expect},
                      {dest_of_group(g): want,
                       **{k: (not want) for k in members}}]
            for prior in priors:
                for dec, ns in run_action(
                        mm, 'TheoryToggleAction.__call__',
                        {'dest': dest_of_group(g), tattr: g}, s, prior):
                    bad = [k for k in sorted(expect)
                           if ns.attrs.get(k, '<unset>') is not want]
                    other = [k for k, _ in ns.writes if k not in expect]
                    ok = not bad and not other
                    kind = ('unset' if not prior else 'same' if all(
                        v is want for v in prior.values()) else 'mixed'
                            if any(v is want for v in prior.values()) else
                            'opposite')
                    chk.check('C14.R6',
                              'mutators.TheoryToggleAction.__call__',
                              f'{s} prior={kind} {sorted(dec.items())}', ok,
                              f'after {s} (prior state: {kind}) attributes '
                              f'{bad[:4]} are not {want}'
                              + (f'; foreign attributes written {other[:3]}'
                                 if other else ''), loc=mm.loc(tcall),
                              nontrivial=True)
    # DisableAllTheoriesAction
    dcall = mm.func('DisableAllTheoriesAction.__call__')
    alld = {dest_of_group(g) for g in reg} | {
        dest_of_opt(o) for g, (mn, d) in reg.items() for o in d.values()}
    for prior in ({}, {k: True for k in alld}, {k: False for k in alld}):
        for dec, ns in run_action(mm, 'DisableAllTheoriesAction.__call__',
                                  {'dest': 'disable_all'}, '--disable-all',
                                  prior):
            bad = [k for k in sorted(alld)
                   if ns.attrs.get(k, '<unset>') is not False]
            chk.check('C14.R6', 'mutators.DisableAllTheoriesAction.__call__',
                      f'--disable-all prior={"unset" if not prior else "set"}'
                      f' {sorted(dec.items())}', not bad,
                      f'after --disable-all {bad[:4]} are not False',
                      loc=mm.loc(dcall), nontrivial=True)
    # no other writer of toggle attributes in the package
    allowed = {('mutators', 'toggle_theory'),
               ('mutators', 'toggle_all_theories'),
               ('mutators', 'TheoryToggleAction.__call__'),
               ('mutators', 'DisableAllTheoriesAction.__call__'),
               ('options', 'ToggleAction.__call__'),
               ('options', 'DumpConfigAction.__call__'),
               ('mutators', 'get_initialized_mutator')}
    nset = 0
    for m in prog.pkg_modules():
        for c in ast.walk(m.tree):
            if isinstance(c, ast.Call) and call_name(c) == 'setattr':
                if c.args and isinstance(c.args[0], ast.Name):
                    r0 = prog.resolve_name(m, c.args[0].id)
                    if r0 and r0[0] in ('ext', 'module') and not any(
                            isinstance(x, (ast.Name, ast.arg)) and (
                                getattr(x, 'id', None) == c.args[0].id
                                and isinstance(getattr(x, 'ctx', None),
                                               ast.Store)
                                or getattr(x, 'arg', None) == c.args[0].id)
                            for x in ast.walk(_enclosing_func(c) or m.tree)):
                        # an attribute of a module object (e.g. a custom
                        # log level on ``logging``), not of the namespace
                        continue
                nset += 1
                fn = _enclosing_func_name(c)
                chk.check('C14.R6', f'{m.name}.{fn}', c,
                          (m.name, fn) in allowed,
                          'setattr outside the toggle actions: may rewrite a '
                          'toggle attribute', loc=m.loc(c))
            if isinstance(c, (ast.Assign, ast.AugAssign)):
                ts = c.targets if isinstance(c, ast.Assign) else [c.target]
                for t in ts:
                    o = opt_read(t)
                    if o and o.startswith(('mutator_', 'mutators_')):
                        chk.check('C14.R6',
                                  f'{m.name}.{_enclosing_func_name(c)}', c,
                                  False, 'direct write of a toggle attribute',
                                  loc=m.loc(c))
    chk.floor('C14.R6', 'setattr sites', nset, 6)


# --------------------------------------------------------------------- R7
def rule_r7(chk, prog, reg):
    chk.rule('C14.R7', 'automatic detection only disables, only groups the '
             'user left unset, only without evidence in the input')
    m = prog.mod('mutators')
    f = m.func('auto_detect_theories')
    fref = FuncRef(m, 'auto_detect_theories', f)
    # the evidence: every top-level node is shown to is_relevant
    from ..astutil import expand_locals
    nrel = 0
    # the call may sit in a helper of the module that receives the input
    scopes7 = [(f, params_of(f)[0])]
    for hc in calls_in(f):
        if isinstance(hc.func, ast.Name) and hc.func.id in m.funcs:
            h = m.funcs[hc.func.id]
            for pn, a in zip(params_of(h), hc.args):
                if unparse(a) == params_of(f)[0]:
                    scopes7.append((h, pn))
    for (sf, sparam) in scopes7:
      for c in calls_in(sf):
        if not (isinstance(c.func, ast.Attribute)
                and c.func.attr == 'is_relevant' and c.args
                and isinstance(c.args[0], ast.Name)):
            continue
        nrel += 1
        it = None
        p_ = getattr(c, '_parent', None)
        while p_ is not None and p_ is not sf:
            if isinstance(p_, ast.For) and isinstance(
                    p_.target, ast.Name) and p_.target.id == c.args[0].id:
                it = p_.iter
                break
            if isinstance(p_, (ast.GeneratorExp, ast.ListComp)):
                for g_ in p_.generators:
                    if isinstance(g_.target, ast.Name) and \
                            g_.target.id == c.args[0].id:
                        it = g_.iter if not g_.ifs else ast.Constant(
                            value='<filtered>')
            p_ = getattr(p_, '_parent', None)
        itx = expand_locals(sf, it) if it is not None else None
        ok = isinstance(itx, ast.Call) and call_name(itx) in (
            'nodes.dfs', 'nodes.bfs') and itx.args and unparse(
                itx.args[0]) == sparam
        chk.check('C14.R7', 'mutators.auto_detect_theories',
                  'is_relevant sees every top-level node', ok,
                  'the nodes shown to is_relevant are '
                  f'"{unparse(itx)[:70] if itx is not None else "?"}", not '
                  'the traversal of the whole input: declarations that '
                  'is_relevant would recognise (define-sort, define-fun) '
                  'are filtered out beforehand and the theory is disabled '
                  'although the input declares something of it',
                  loc=m.loc(c), nontrivial=True)
    chk.floor('C14.R7', 'is_relevant call sites in auto_detect_theories',
              nrel, 1)
    # fold with: options namespace recording, nodes.dfs -> list of symbolic
    # nodes, theory.is_relevant(node) -> symbolic
    N = 2

    for g, (modname, d) in reg.items():
        tm = prog.mod(modname)
        has_rel = 'is_relevant' in tm.funcs
        for user in (None, True, False):
            outcomes = []

            def go(fo, g=g, user=user):
                ns = Namespace('args')
                for gg in reg:
                    ns.attrs[dest_of_group(gg)] = (
                        user if gg == g else True)  # others: set by user
                fo.summaries = dict(fo.summaries)
                fo.summaries[('options', 'args')] = lambda fo_, a, k: ns
                fo.summaries[('nodes', 'dfs')] = lambda fo_, a, k: [
                    Sym(('node', i)) for i in range(N)]
                for gg, (mn, dd) in reg.items():
                    if 'is_relevant' in prog.mod(mn).funcs:
                        fo.summaries[(mn, 'is_relevant')] = (
                            lambda fo_, a, k, gg=gg: Sym(
                                ('relevant', gg, a[0].key)))
                fo.call_function(fref, [[Sym(('exprs', ))]], {})
                return ns

            base = Folder(prog, summaries={})
            for dec, ns, fo in base.paths(go):
                rel = any(v for k, v in dec.items()
                          if k[0] == 'relevant' and k[1] == g)
                # no evidence = every top-level node was shown to
                # is_relevant and each was declined
                asked = {k[2] for k, v in dec.items()
                         if k[0] == 'relevant' and k[1] == g and not v}
                all_declined = asked >= {('node', i) for i in range(N)}
                writes = [(k, v) for k, v in ns.writes]
                members = {dest_of_opt(o) for o in d.values()} | {
                    dest_of_group(g)}
                may_disable = user is None and has_rel and not rel and \
                    all_declined
                if may_disable:
                    # documented: the group is switched off entirely
                    ok = all(ns.attrs.get(k) is False for k in members)
                    msg = ('group unset, no declaration of the theory: the '
                           'documented behaviour is to disable the group; '
                           f'attributes after detection: '
                           f'{[k for k in sorted(members) if ns.attrs.get(k) is not False][:3]} not False')
                else:
                    ok = not writes
                    why = ('the user set the group explicitly'
                           if user is not None else
                           'the theory has no is_relevant()' if not has_rel
                           else 'a node of the input is relevant' if rel
                           else 'not every top-level node has been shown '
                           'to is_relevant() and declined (the decision '
                           'rests on something else than the declarations '
                           'of the input)')
                    msg = (f'{why}, yet detection writes {writes[:3]}')
                foreign = [k for k, v in writes if k not in members]
                if foreign:
                    ok = False
                    msg = f'detection for {g} writes foreign {foreign[:3]}'
                if any(v is not False for k, v in writes):
                    ok = False
                    msg = f'detection enables something: {writes[:3]}'
                chk.check('C14.R7', 'mutators.auto_detect_theories',
                          f'group {g} user={user} evidence={rel} '
                          f'{sorted(((k[1:], v) for k, v in dec.items()), key=repr)}'[:300],
                          ok, msg, loc=m.loc(f), nontrivial=True)
    # all groups unset at once: the verdict on one group must not depend on
    # what is found for another (a declaration may vouch for several)
    def go_all(fo):
        ns = Namespace('args')
        for gg in reg:
            ns.attrs[dest_of_group(gg)] = None
        fo.summaries = dict(fo.summaries)
        fo.summaries[('options', 'args')] = lambda fo_, a, k: ns
        fo.summaries[('nodes', 'dfs')] = lambda fo_, a, k: [
            Sym(('node', i)) for i in range(N)]
        for gg, (mn, dd) in reg.items():
            if 'is_relevant' in prog.mod(mn).funcs:
                fo.summaries[(mn, 'is_relevant')] = (
                    lambda fo_, a, k, gg=gg: Sym(
                        ('relevant', gg, a[0].key)))
        fo.call_function(fref, [[Sym(('exprs', ))]], {})
        return ns

    base = Folder(prog, summaries={})
    npaths = 0
    for dec, ns, fo in base.paths(go_all):
        npaths += 1
        for g, (modname, d) in reg.items():
            if 'is_relevant' not in prog.mod(modname).funcs:
                continue
            known_true = any(v for k, v in dec.items()
                             if k[0] == 'relevant' and k[1] == g)
            asked = {k[2] for k in dec if k[0] == 'relevant' and k[1] == g}
            disabled = ns.attrs.get(dest_of_group(g)) is False
            # disabling needs the evidence of absence: every node was
            # shown to is_relevant and none was relevant
            unseen = [i for i in range(N) if ('node', i) not in asked]
            if disabled and (known_true or unseen):
                chk.check('C14.R7', 'mutators.auto_detect_theories',
                          f'all groups unset: {g} '
                          f'{sorted((k[1:], v) for k, v in dec.items())}',
                          False,
                          f'with no group set by the user, {g} is disabled '
                          + ('although a node of the input is relevant for '
                             'it' if known_true else
                             f'without node(s) {unseen} of the input having '
                             'been shown to its is_relevant() (the evidence '
                             'found for another theory ended the search for '
                             'this node)')
                          + ': its mutators are missing although the input '
                          'may declare something of that theory',
                          loc=m.loc(f), nontrivial=True)
    chk.instance('C14.R7', 'mutators.auto_detect_theories',
                 f'all groups unset: {npaths} folded paths, no group '
                 'disabled against its own evidence', True,
                 'joint scenario', nontrivial=True)
    # the walk covers every top-level command: nodes.dfs(exprs, max_depth=1)
    walks = [c for c in calls_in(f) if call_name(c) in ('nodes.dfs',
                                                        'nodes.bfs')]
    ok = len(walks) == 1 and walks[0].args and isinstance(
        walks[0].args[0], ast.Name) and walks[0].args[0].id == params_of(f)[0]
    if not walks:
        # delegated to a helper: the helper walks its parameter, which
        # receives the input expressions
        for c in calls_in(f):
            if isinstance(c.func, ast.Name) and c.func.id in m.funcs:
                h = m.funcs[c.func.id]
                hw = [w for w in calls_in(h) if call_name(w) in (
                    'nodes.dfs', 'nodes.bfs')]
                for w in hw:
                    if w.args and isinstance(w.args[0], ast.Name) and \
                            w.args[0].id in params_of(h):
                        i = params_of(h).index(w.args[0].id)
                        if i < len(c.args) and unparse(
                                c.args[i]) == params_of(f)[0]:
                            ok = True
    chk.check('C14.R7', 'mutators.auto_detect_theories', 'walk over input',
              ok, 'the relevance walk does not range over the input '
              'expressions', loc=m.loc(f))
    # ... and runs before the passes are built and after parsing
    cli = prog.mod('cli')
    mainf = cli.func('ddsmt_main')
    cfg = cfg_of(mainf)
    marks = {}
    for c in calls_in(mainf):
        nm = call_name(c)
        if nm in ('mutators.auto_detect_theories', 'strategy_ddmin.reduce',
                  'strategy_hierarchical.reduce'):
            marks[expr_owner_node(cfg, c)] = nm
    IN, _ = cfg.dominators_facts(marks)
    for n, nm in marks.items():
        if nm.endswith('.reduce'):
            chk.check('C14.R7', 'cli.ddsmt_main', nm,
                      'mutators.auto_detect_theories' in (IN[n] or ()),
                      f'{nm} is not dominated by auto_detect_theories: the '
                      'passes are built before detection', loc=cli.loc(n.ast),
                      nontrivial=True)


# --------------------------------------------------------------------- R9
MUTATING = ('append', 'extend', 'insert', 'remove', 'pop', 'clear', 'sort',
            'reverse', '__delitem__', '__setitem__')


def rule_r9(chk, prog, reg):
    chk.rule('C14.R9', 'what the pass builders schedule is what runs: '
             'detection sees the user\'s input only (once, before any '
             'reduction), the strategies do not return before their loop '
             'over the passes and never modify the pass lists')
    cli = prog.mod('cli')
    mainf = cli.func('ddsmt_main')
    cfg = cfg_of(mainf)
    det, red = [], []
    for c in calls_in(mainf):
        nm = call_name(c) or ''
        if nm.endswith('auto_detect_theories'):
            det.append((expr_owner_node(cfg, c), c))
        elif nm.startswith('strategy_') and nm.endswith('.reduce'):
            red.append((expr_owner_node(cfg, c), c))

    def reaches(a, b):
        seen, work = set(), [a]
        while work:
            n = work.pop()
            for e in n.succ:
                if e.dst is b:
                    return True
                if e.dst not in seen:
                    seen.add(e.dst)
                    work.append(e.dst)
        return False

    chk.floor('C14.R9', 'detection calls in ddsmt_main', len(det), 1)
    for (dn, dc) in det:
        after = [unparse(rc.func) for (rn, rc) in red if reaches(rn, dn)]
        chk.check('C14.R9', 'cli.ddsmt_main', dc, not after,
                  f'automatic detection runs (again) after {after}: it then '
                  'sees a reduced input, from which the declarations of a '
                  'theory may already be gone, and disables a group although '
                  'the input the user gave declares something of that '
                  'theory - its mutators are missing from the following '
                  'passes', loc=cli.loc(dc), nontrivial=True)
    # detection anywhere else in the package
    for om in prog.pkg_modules():
        if 'tests' in om.rel() or om.name == 'cli':
            continue
        for c in ast.walk(om.tree):
            if isinstance(c, ast.Call) and (call_name(c) or '').endswith(
                    'auto_detect_theories'):
                chk.check('C14.R9', om.name, c, False,
                          'automatic detection is called outside '
                          'ddsmt_main, on an input that is not the user\'s',
                          loc=om.loc(c), nontrivial=True)
    # the registry is read-only for its users: a dict handed out by
    # get_mutators()/get_all_mutators() is never modified by a caller
    nmut = 0
    for om in prog.pkg_modules():
        if 'tests' in om.rel():
            continue
        for q, fn in om.funcs.items():
            tainted = set()
            changed_ = True
            while changed_:
                changed_ = False
                for st in ast.walk(fn):
                    tg, src = None, None
                    if isinstance(st, ast.Assign):
                        tg, src = st.targets, st.value
                    elif isinstance(st, (ast.For, ast.comprehension)):
                        tg, src = [st.target], st.iter
                    if tg is None:
                        continue
                    hit = any(isinstance(x, ast.Call) and (call_name(
                        x) or '').split('.')[-1] in ('get_all_mutators',
                                                     'get_mutators')
                              and not x.args
                              for x in ast.walk(src)) or any(
                                  isinstance(x, ast.Name) and x.id in tainted
                                  for x in ast.walk(src))
                    if hit:
                        for t in tg:
                            for y in ast.walk(t):
                                if isinstance(y, ast.Name) and \
                                        y.id not in tainted:
                                    tainted.add(y.id)
                                    changed_ = True
            if not tainted:
                continue
            for x in ast.walk(fn):
                bad = None
                if isinstance(x, ast.Call) and isinstance(
                        x.func, ast.Attribute) and x.func.attr in (
                            'pop', 'popitem', 'clear', 'update',
                            'setdefault', 'remove', 'append', 'extend',
                            'insert', 'sort', 'reverse'):
                    base = x.func.value
                    while isinstance(base, ast.Subscript):
                        base = base.value
                    if isinstance(base, ast.Name) and base.id in tainted:
                        bad = x
                if isinstance(x, (ast.Assign, ast.AugAssign, ast.Delete)):
                    tgs = x.targets if isinstance(
                        x, (ast.Assign, ast.Delete)) else [x.target]
                    for t in tgs:
                        if isinstance(t, ast.Subscript):
                            base = t.value
                            while isinstance(base, ast.Subscript):
                                base = base.value
                            if isinstance(base, ast.Name) and \
                                    base.id in tainted:
                                bad = x
                if bad is not None:
                    nmut += 1
                    from . import options_table as _ot
                    _ot.registry(prog)
                    shared = sorted(_ot.SHARED_REGISTRIES)
                    chk.check('C14.R9', f'{om.name}.{q}', bad, not shared,
                              f'"{unparse(bad)[:50]}" modifies a dict that '
                              'comes from the mutator registry, and '
                              f'get_mutators() of {shared} hands out one '
                              'shared object: the entry is gone for every '
                              'later reader (the pass builder of the other '
                              'strategy, the option parser) - an enabled '
                              'mutator silently disappears from the passes',
                              loc=om.loc(bad), nontrivial=True)
    chk.instance('C14.R9', 'package', f'{nmut} modification(s) of registry '
                 'dicts by their users', True, 'registry read-only',
                 nontrivial=False)
    # the strategies
    for modname, builder in (('strategy_hierarchical', 'get_passes'),
                             ('strategy_ddmin', 'ddmin_passes')):
        m = prog.mod(modname)
        f = m.func('reduce')
        where = f'{modname}.reduce'
        fcfg = cfg_of(f)
        pv = None
        for st in walk_no_nested(f):
            if isinstance(st, ast.Assign) and isinstance(
                    st.value, ast.Call) and (call_name(
                        st.value) or '').split('.')[-1] == builder and \
                    isinstance(st.targets[0], ast.Name):
                pv = st.targets[0].id
        if pv is None:
            raise AnalysisError(f'C14.R9: {where}: call of {builder}() not '
                                'bound to a local')
        loops = [l for l in walk_no_nested(f)
                 if isinstance(l, (ast.For, ast.While))
                 and any(isinstance(x, ast.Name) and x.id == pv
                         for x in ast.walk(l))]
        outer = [l for l in loops if not any(
            l is not o and l in list(ast.walk(o)) for o in loops)]
        if not outer:
            raise AnalysisError(f'C14.R9: {where}: no loop over "{pv}"')
        marks = {fcfg.node_of[id(outer[0])]: 'passes-loop'}
        IN, _ = fcfg.dominators_facts(marks)
        nret = 0
        for r in walk_no_nested(f):
            if isinstance(r, ast.Return):
                nret += 1
                n = fcfg.node_of[id(r)]
                ok = 'passes-loop' in (IN[n] or ())
                if not ok:
                    # an early return that does not depend on the passes
                    # (e.g. nothing to reduce) schedules nothing because
                    # there is nothing to schedule for
                    fts = facts_at(f, r)
                    dep = any(pv in {x.id for x in ast.walk(
                        ast.parse(t, mode='eval'))
                        if isinstance(x, ast.Name)} or 'options' in t
                              for (t, _) in fts)
                    if not dep:
                        chk.info('C14.R9', f'{where}: early return at '
                                 f'{m.loc(r)} does not depend on the passes')
                        continue
                chk.check('C14.R9', where, r, ok,
                          'the strategy can return before it has entered '
                          f'its loop over "{pv}": the mutators of the '
                          'passes not looked at (e.g. those that only the '
                          'last pass contains) are enabled but never '
                          'scheduled', loc=m.loc(r), nontrivial=True)
        chk.floor('C14.R9', f'returns of {where}', nret, 1)
        # every pass list the builder returns is consumed: either the
        # strategy iterates over the whole list of passes, or it uses each
        # position the builder fills
        bf_ = m.func(builder)
        arities = set()
        for r_ in walk_no_nested(bf_):
            if isinstance(r_, ast.Return) and r_.value is not None:
                v_ = r_.value
                if isinstance(v_, ast.Name):
                    ds_ = [s_.value for s_ in walk_no_nested(bf_)
                           if isinstance(s_, ast.Assign) and any(
                               isinstance(t_, ast.Name) and t_.id == v_.id
                               for t_ in s_.targets)]
                    v_ = ds_[0] if len(ds_) == 1 else v_
                if isinstance(v_, (ast.List, ast.Tuple)) and not any(
                        isinstance(e_, ast.Starred) for e_ in v_.elts):
                    arities.add(len(v_.elts))
                else:
                    arities.add(None)
        used = set()
        whole = False
        for x in ast.walk(f):
            if isinstance(x, ast.Subscript) and isinstance(
                    x.value, ast.Name) and x.value.id == pv:
                if isinstance(x.slice, ast.Constant) and isinstance(
                        x.slice.value, int):
                    used.add(x.slice.value)
                else:
                    whole = True
            elif isinstance(x, ast.Name) and x.id == pv and isinstance(
                    x.ctx, ast.Load) and not isinstance(
                        getattr(x, '_parent', None), ast.Subscript):
                whole = True
        if not whole:
            for k_ in arities:
                if k_ is None:
                    continue
                missing = sorted(set(range(k_)) - used)
                chk.check('C14.R9', where, f'all {k_} pass lists of '
                          f'{builder}() are applied', not missing,
                          f'{builder}() returns {k_} pass lists but '
                          f'{where} only uses positions {sorted(used)}: the '
                          f'mutators of pass list(s) {missing} are enabled '
                          'and built but never applied', loc=m.loc(f),
                          nontrivial=True)
        if modname == 'strategy_hierarchical':
            # every pass that has mutators is swept: an iteration of the
            # loop over the passes that does not enter the sweep loop is
            # one whose pass is empty
            ol = outer[0]
            inner = [l for l in ast.walk(ol) if l is not ol and isinstance(
                l, (ast.While, ast.For))]
            inner_nodes = {fcfg.node_of[id(l)] for l in inner
                           if id(l) in fcfg.node_of}
            nskip = 0
            for p in loop_body_paths(fcfg, ol):
                if any(n_ in inner_nodes for n_ in p.nodes):
                    continue
                if p.end is not fcfg.node_of[id(ol)]:
                    # the loop over the passes is left (break / return)
                    # without this pass having been swept: the remaining
                    # passes - the last one with all enabled mutators among
                    # them - never run
                    if p.end is not fcfg.raise_exit:
                        nskip += 1
                        chk.check('C14.R9', where, f'{describe_path(p)}: '
                                  'the loop over the passes is not left '
                                  'before the last pass', False,
                                  'an iteration of the loop over the passes '
                                  'leaves the loop (break / return) without '
                                  'a sweep: every later pass, the last one '
                                  'with all enabled mutators included, is '
                                  'skipped - e.g. whenever an early prelude '
                                  'pass is empty', loc=m.loc(ol),
                                  nontrivial=True)
                    continue
                nskip += 1
                curs = set()
                if isinstance(ol, ast.For) and isinstance(
                        ol.target, ast.Tuple) and isinstance(
                            ol.target.elts[0], ast.Name):
                    curs.add(ol.target.elts[0].id)
                for st in ol.body:
                    if isinstance(st, ast.Assign) and isinstance(
                            st.targets[0], ast.Tuple) and isinstance(
                                st.targets[0].elts[0], ast.Name):
                        curs.add(st.targets[0].elts[0].id)
                        break
                    if isinstance(st, ast.Assign) and isinstance(
                            st.targets[0], ast.Name) and any(
                                isinstance(x, ast.Name) and x.id == pv
                                for x in ast.walk(st.value)):
                        curs.add(st.targets[0].id)
                empty = any(
                    (t, pol) in ((cur, False), (f'not {cur}', True),
                                 (f'len({cur}) == 0', True),
                                 (f'len({cur}) > 0', False))
                    for (t, pol) in p.facts for cur in curs)
                other = [t for (t, pol) in p.facts][-1:] if p.facts else []
                chk.check('C14.R9', where, f'{describe_path(p)}: pass '
                          'skipped only when it is empty', empty,
                          'a pass that has mutators can be skipped without '
                          f'a single sweep (condition {other}): the mutators '
                          'it schedules - with their pass parameters, e.g. '
                          'the unrestricted BinaryReduction of the later '
                          'passes - are enabled but never run',
                          loc=m.loc(ol), nontrivial=True)
            chk.floor('C14.R9', 'iterations of the pass loop without a '
                      'sweep', nskip, 1)
        # aliases of the pass lists: loop targets / subscripts of pv
        for x in walk_no_nested(f):
            bad = None
            if isinstance(x, (ast.Assign, ast.AugAssign, ast.Delete)):
                tg = x.targets if isinstance(x, (ast.Assign, ast.Delete)) \
                    else [x.target]
                for t in tg:
                    if isinstance(t, ast.Subscript) and isinstance(
                            t.value, ast.Name) and t.value.id == pv:
                        bad = x
                    if isinstance(t, ast.Name) and t.id == pv and not (
                            isinstance(x, ast.Assign) and isinstance(
                                x.value, ast.Call) and (call_name(
                                    x.value) or '').split('.')[-1] ==
                            builder):
                        bad = x
            if isinstance(x, ast.Call) and isinstance(
                    x.func, ast.Attribute) and x.func.attr in MUTATING:
                base = x.func.value
                while isinstance(base, ast.Subscript):
                    base = base.value
                if isinstance(base, ast.Name) and base.id == pv:
                    bad = x
            if bad is not None:
                chk.check('C14.R9', where, bad, False,
                          f'the pass lists built by {builder}() are modified '
                          'while the strategy runs: a mutator that is '
                          'enabled is dropped from the following rounds',
                          loc=m.loc(bad), nontrivial=True)
        chk.instance('C14.R9', where, f'"{pv}" is bound once and not '
                     'modified', True, 'no store, delete or mutating call '
                     'on the pass lists', nontrivial=True)


# --------------------------------------------------------------------- R8
SORT_POS = {'declare-const': 2, 'declare-fun': 3, 'define-fun': 3,
            'define-sort': 3}


def rule_r8(chk, prog, reg):
    chk.rule('C14.R8', 'is_relevant siblings inspect the sort position of '
             'the same declaration commands')
    n = 0
    for g, (modname, d) in reg.items():
        m = prog.mod(modname)
        if 'is_relevant' not in m.funcs:
            continue
        f = m.funcs['is_relevant']
        if modname == 'mutators_datatypes':
            consts = {c.value for c in ast.walk(f) if isinstance(
                c, ast.Constant) and isinstance(c.value, str)
                and c.value.startswith('declare')}
            chk.check('C14.R8', f'{modname}.is_relevant', 'datatype commands',
                      consts == {'declare-datatypes', 'declare-datatype'},
                      f'inspects {sorted(consts)}', loc=m.loc(f))
            n += 1
            continue
        # map: command name -> set of subscripts of node used under it
        cfg = cfg_of(f)
        IN, _ = cfg.guard_facts()
        param = params_of(f)[0]
        found = {}
        for sub in ast.walk(f):
            if isinstance(sub, ast.Subscript) and isinstance(
                    sub.value, ast.Name) and sub.value.id == param and \
                    isinstance(sub.slice, ast.Constant):
                facts = facts_at(f, sub)
                cmds = set()
                for (t, p) in facts:
                    if not (p and t.startswith(f'{param}.get_ident()')):
                        continue
                    try:
                        e = ast.parse(t, mode='eval').body
                    except SyntaxError:
                        continue
                    if not (isinstance(e, ast.Compare) and len(e.ops) == 1
                            and isinstance(e.ops[0], (ast.In, ast.Eq))):
                        continue
                    rhs = e.comparators[0]
                    try:
                        from ..astutil import module_const
                        v = module_const(m, rhs)
                    except ValueError:
                        v = None
                    if isinstance(v, str):
                        cmds.add(v)
                    elif isinstance(v, (tuple, list, set, frozenset)):
                        cmds.update(x for x in v if isinstance(x, str))
                    else:
                        for c in ast.walk(rhs):
                            if isinstance(c, ast.Constant) and isinstance(
                                    c.value, str):
                                cmds.add(c.value)
                for c in cmds:
                    found.setdefault(c, set()).add(sub.slice.value)
        # dispatch table: node[<p>] with p = TABLE[...get_ident()] / .get(..)
        from ..astutil import resolve_near
        for sub in ast.walk(f):
            if isinstance(sub, ast.Subscript) and isinstance(
                    sub.value, ast.Name) and sub.value.id == param and \
                    isinstance(sub.slice, ast.Name):
                src = resolve_near(f, sub.slice, sub)
                tab, key = None, None
                if isinstance(src, ast.Call) and isinstance(
                        src.func, ast.Attribute) and src.func.attr == 'get' \
                        and src.args:
                    tab, key = src.func.value, src.args[0]
                elif isinstance(src, ast.Subscript):
                    tab, key = src.value, src.slice
                if tab is None or not isinstance(tab, ast.Name):
                    continue
                key = resolve_near(f, key, sub)
                if 'get_ident' not in unparse(key):
                    continue
                vals = m.globals.get(tab.id, [])
                if len(vals) == 1 and isinstance(vals[0], ast.Dict):
                    for k_, v_ in zip(vals[0].keys, vals[0].values):
                        if isinstance(k_, ast.Constant) and isinstance(
                                v_, ast.Constant) and isinstance(
                                    v_.value, int):
                            found.setdefault(k_.value, set()).add(v_.value)
        # path-wise: "pos = 2 / pos = 3" chosen by the command, then
        # node[pos] - the position is the value bound on that path
        from ..cfg import enumerate_paths
        from ..pathutil import path_subst
        for p_ in enumerate_paths(cfg, cfg.entry, lambda x: False):
            cmds = set()
            for (t, pol) in p_.facts:
                if not (pol and f'{param}.get_ident()' in t):
                    continue
                try:
                    e = ast.parse(t, mode='eval').body
                except SyntaxError:
                    continue
                if isinstance(e, ast.Compare) and len(e.ops) == 1 and \
                        isinstance(e.ops[0], (ast.In, ast.Eq)) and \
                        unparse(e.left) == f'{param}.get_ident()':
                    try:
                        from ..astutil import module_const
                        v = module_const(m, e.comparators[0])
                    except ValueError:
                        v = None
                    if isinstance(v, str):
                        cmds.add(v)
                    elif isinstance(v, (tuple, list, set, frozenset)):
                        cmds.update(x for x in v if isinstance(x, str))
            if not cmds:
                continue
            for i_, nd in enumerate(p_.nodes):
                root = getattr(nd.ast, 'test', None) if nd.kind == 'test' \
                    else nd.ast
                if root is None or isinstance(root, (
                        ast.FunctionDef, ast.If, ast.For, ast.While)):
                    continue
                for sub in ast.walk(root):
                    if isinstance(sub, ast.Subscript) and isinstance(
                            sub.value, ast.Name) and \
                            sub.value.id == param and isinstance(
                                sub.slice, ast.Name):
                        sl = path_subst(p_, i_, sub.slice)
                        if isinstance(sl, ast.Constant) and isinstance(
                                sl.value, int):
                            for c in cmds:
                                found.setdefault(c, set()).add(sl.value)
        n += 1
        for cmd, pos in SORT_POS.items():
            got = found.get(cmd, set())
            chk.check('C14.R8', f'{modname}.is_relevant',
                      f'{cmd} -> position {sorted(got)}', got == {pos},
                      f'{cmd}: inspects child position(s) {sorted(got)}, the '
                      f'sort is at position {pos}', loc=m.loc(f),
                      nontrivial=True)
        extra = set(found) - set(SORT_POS)
        if extra:
            chk.info('C14.R8', f'{modname}.is_relevant also inspects '
                     f'{sorted(extra)}')
    chk.floor('C14.R8', 'is_relevant implementations', n, 5)


def rule_r14(chk, prog):
    chk.rule('C14.R14', 'a scheduled mutator is really applied: every '
             'normal path through _apply_mutator hands the mutator on to the '
             'task generator before it returns, and every iteration of the '
             'loops over a pass in ddmin\'s reduce hands the mutator to '
             '_apply_mutator - no test of the mutator\'s own attributes '
             'skips it')
    from .. import mustpass
    dm = prog.mod('strategy_ddmin')
    f = dm.func('_apply_mutator')
    pn = params_of(f)[0]
    r = mustpass.function_must_consult(f, pn)
    chk.check('C14.R14', 'strategy_ddmin._apply_mutator',
              f'every return follows a use of {pn}', r is None,
              f'"{unparse(r)[:50] if r is not None else ""}" is reached '
              f'without "{pn}" having been handed to the task generator: '
              'for the mutators that take this path (e.g. those that only '
              'define global_mutations) ddmin tests nothing although they '
              'are enabled and listed in the pass',
              loc=dm.loc(r) if r is not None else dm.loc(f), nontrivial=True)
    g = dm.func('reduce')
    n = 0
    for lp in ast.walk(g):
        if isinstance(lp, ast.For) and isinstance(lp.target, ast.Name) and \
                'passes' in unparse(lp.iter):
            n += 1
            hit = mustpass.loop_must_consult(g, lp, lp.target.id)
            chk.check('C14.R14', 'strategy_ddmin.reduce',
                      f'for {lp.target.id} in {unparse(lp.iter)}',
                      hit is None,
                      f'an iteration of "for {lp.target.id} in '
                      f'{unparse(lp.iter)}" can end without '
                      f'"{lp.target.id}" having been applied: enabled '
                      'mutators of the pass are skipped', loc=dm.loc(lp),
                      nontrivial=True)
    chk.floor('C14.R14', 'loops over a pass in ddmin.reduce', n, 2)


def run(tier):
    prog = Program()
    chk = Check(
        PROP, 'proof', tier,
        clauses_decided=[
            'registry keys, classes, option strings and namespace '
            'attributes are in bijection',
            'all sites derive the same attribute name from an option',
            'a mutator instance is built exactly when its own toggle is '
            'true; the toggle is declared, so the permissive default of '
            'getattr is never used',
            'pass builders (both strategies) schedule every registered '
            'mutator under its own toggle, on every folded path; last '
            'hierarchical pass is unrestricted and complete; ddmin omits '
            'only BinaryReduction',
            'no instantiation of a mutator class outside the gate',
            'toggle actions (plain, group, disable-all) for every group, both '
            'polarities and every prior state',
            'automatic detection: writes only False, only for unset groups, '
            'only without evidence, before the passes are built',
            'is_relevant siblings inspect the sort position',
        ],
        clauses_not_decided=[
            'argparse processes options in command-line order and resolves '
            'abbreviations before the actions run (assumed)',
            'parameter sorts of declare-fun/define-fun are not inspected by '
            'is_relevant ("declares" is ambiguous there; informational)',
        ],
        assumptions=[
            'argparse.Action.__call__ is invoked once per occurrence of the '
            'option, in order, with the option string used',
        ])
    reg = options_table.registry(prog)
    chk.guard(rule_r1, chk, prog, reg)
    table = summarise_get_mutators(chk, prog, reg)
    chk.guard(rule_r2, chk, prog, reg)
    chk.guard(rule_r4, chk, prog, reg, table)
    chk.guard(rule_r5, chk, prog, reg, table)
    chk.guard(rule_r6, chk, prog, reg)
    chk.guard(rule_r7, chk, prog, reg)
    chk.guard(rule_r8, chk, prog, reg)
    chk.guard(rule_r9, chk, prog, reg)
    from .. import genreuse
    chk.guard(genreuse.rule, chk, prog, 'C14.R10',
              'the names / instances of the enabled mutators are not held '
              'in a one-shot iterator that is traversed twice on one path',
              {'mutators': None, 'options': None,
               'strategy_ddmin': {'ddmin_passes'},
               'strategy_hierarchical': {'get_passes', 'get_pass'}},
              'the pass that is built from it afterwards is empty: enabled '
              'mutators are never scheduled')
    from . import c04 as _c04
    sub04 = Check('C04', 'other', tier, [], [])
    _cg, _zone, _via = _c04.compute_zone(prog)
    chk.guard(_c04.rule_r1, sub04, prog, _cg, _zone)
    Check.restrict(sub04, lambda wh, what: 'loop over' in what
                   or 'continues with the next mutator' in what)
    chk.adopt('C14.R11', 'every enabled mutator is asked for every node: a failure of one mutator does not end the loop over the mutators (shared with the per-mutator part of C04.R1)', sub04)
    # ... and really asked: the producer offers every node to every mutator
    # of the pass, through filter (when it has one), mutations and
    # global_mutations (shared with C02.R4)
    from . import c02 as _c02
    sub02 = Check('C02', 'other', tier, [], [])
    chk.guard(_c02.rule_r4, sub02, prog)
    chk.adopt('C14.R12', 'an enabled mutator that is scheduled in a pass is '
              'asked for proposals at every node: the producer consults '
              'filter only when the mutator has one and calls mutations / '
              'global_mutations whenever they exist (shared with C02.R4)',
              sub02)
    # the command's own arguments are not parsed as ddSMT options: what
    # follows the command on the command line belongs to the command
    # (shared with C09.R4, the positional part)
    from . import c09 as _c09
    sub09 = Check('C09', 'other', tier, [], [])
    chk.guard(_c09.rule_r4, sub09, prog)
    Check.restrict(sub09, lambda wh, what: str(what) == 'cmd'
                   or 'REMAINDER' in str(what))
    chk.adopt('C14.R13', 'the arguments of the command are not interpreted '
              'as mutator toggles: the positional "cmd" takes the remainder '
              'of the command line verbatim (shared with C09.R4)', sub09)
    chk.guard(rule_r14, chk, prog)
    # theory detection looks at every node of a sort (shared with C12.R5)
    from . import c12 as _c12
    sub12 = Check('C12', 'other', tier, [], [])
    chk.guard(_c12.rule_r5, sub12, prog)
    chk.guard(_c12.rule_r5_depth, sub12, prog)
    Check.restrict(sub12, lambda wh, what: any(
        k in str(wh) for k in ('nodes.dfs', 'nodes.contains',
                               'nodes.filter_nodes')))
    chk.adopt('C14.R15', 'contains() - the test behind every theory\'s '
              'is_relevant - visits every node of the sort it is given: a '
              'theory sort nested inside Array / Set / parametric sorts is '
              'found (shared with the dfs part of C12.R5)', sub12)
    from .. import memo as _memo

    def _memo_rule(chk, prog):
        chk.rule('C14.R16', 'memoised functions of the mutator registry and the pass builders: the cached value depends only on the cache key and is not modified by its callers')
        _memo.report(chk, prog, 'C14.R16', 'memoised functions of the registry / pass builders',
                     lambda m, q: m.name in ('mutators', 'options', 'strategy_ddmin', 'strategy_hierarchical', 'argparsemod') or m.name.startswith('mutators_'),
                     'the registry one strategy has pruned or specialised (an excluded mutator popped, an instance restricted to one command) is the registry the next one builds its passes from: enabled mutators are missing from the passes')

    chk.guard(_memo_rule, chk, prog)
    from . import c02 as _c02b
    sub02b = Check('C02', 'other', tier, [], [])
    chk.guard(_c02b.rule_r17, sub02b, prog)
    chk.adopt('C14.R17', 'the last hierarchical pass that runs is the last '
              'pass get_passes() lists - the one with every enabled mutator '
              '(shared with C02.R17)', sub02b)
    extra = None
    if tier == 'thorough':
        from .. import selftest
        extra = selftest.run_for(PROP)
    return chk.finish(extra)
